#!/usr/bin/env python3
"""Debug helper: run the scenarios of one contract module whose name contains a substring, print every obligation
(all names, not only the ones a property counts), covers, undecided paths.   tools/run_scenario.py contracts.c09_expand "any rank" """
import importlib
import os
import sys

sys.path.insert(0, os.path.dirname(os.path.dirname(os.path.abspath(__file__))))
sys.setrecursionlimit(20000)
from pyvc import core  # noqa: E402

mod = importlib.import_module(sys.argv[1])
sub = sys.argv[2] if len(sys.argv) > 2 else ""
for sc in mod.SCENARIOS:
    if sub not in sc.name:
        continue
    if sc.kind == "evaluation":
        print("==", sc.name, "(evaluation)")
        r = sc.run(None)
        for n, ob in r.get("obligations", {}).items():
            if ob["status"] != "proved" or os.environ.get("ALL"):
                print("  ", n, ob["status"], str(ob.get("detail"))[:300])
        continue
    res = core.explore(sc.run, sc.name, max_paths=sc.max_paths, budget_s=sc.budget_s)
    print("==", sc.name, "kind", sc.kind, "paths", res.paths, f"wall {res.wall_s:.1f}s solver {res.stats['solver_s']:.1f}s")
    print("   covered:", sorted(res.covered))
    for u in res.undecided[:10]:
        print("   UNDECIDED", u)
    for n, st in res.obligations().items():
        bad = st["first_bad"]
        print("  ", st["status"], st["instances"], n, (("| " + bad.detail[:600]) if bad is not None else ""))
