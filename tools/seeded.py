#!/usr/bin/env python3
"""Seeded-change bookkeeping.
  tools/seeded.py import <worktree> <prop>      copy <worktree>/mutants/m*/ to seeded/<prop>-m*/ after confirming, in a scratch
                                                worktree, that the demo fails with the patch and passes without it (and running the listed tests)
  tools/seeded.py check [<id-substring>]        for each seeded change: apply it to a scratch copy of /repo's source tree (removed afterwards), run
                                                ./vcheck <prop> --no-evidence against that copy (PYVC_REPO/PYTHONPATH); report detection
"""
import json
import os
import shutil
import subprocess
import sys

VERIF = os.path.dirname(os.path.dirname(os.path.abspath(__file__)))
SCR = os.environ.get("SEEDED_SCRATCH", "/tmp/wt_verify")


def sh(cmd, cwd=None, env=None, timeout=3600):
    p = subprocess.run(cmd, shell=True, cwd=cwd, capture_output=True, text=True, env=env, timeout=timeout)
    return p.returncode, p.stdout + p.stderr


def scratch():
    if not os.path.isdir(SCR):
        sh(f"git -C /repo worktree add -q --detach {SCR} HEAD")
    sh("git checkout -q --detach $(git -C /repo rev-parse HEAD) && git checkout -- . && git clean -fdq", cwd=SCR)


def run_demo(demo):
    env = dict(os.environ, PYTHONPATH=SCR, PYTHONDONTWRITEBYTECODE="1")
    return sh(f"/venv/bin/python {demo}", cwd=SCR, env=env, timeout=1800)


def do_import(wt, prop):
    scratch()
    mdir = os.path.join(wt, "mutants")
    for m in sorted(os.listdir(mdir)):
        src = os.path.join(mdir, m)
        patch = os.path.join(src, "patch.diff")
        if not os.path.exists(patch):
            continue
        dst = os.path.join(VERIF, "seeded", f"{prop}-{m}")
        os.makedirs(os.path.join(SCR, "mutants", m), exist_ok=True)
        for f in os.listdir(src):
            shutil.copy(os.path.join(src, f), os.path.join(SCR, "mutants", m, f))
        demo = f"mutants/{m}/demo.py"
        rc0, out0 = run_demo(demo)
        rc, out = sh(f"git apply {patch}", cwd=SCR)
        if rc != 0:
            print(f"{prop}-{m}: patch does not apply: {out[-300:]}")
            continue
        rc1, out1 = run_demo(demo)
        meta = json.load(open(os.path.join(src, "meta.json")))
        tests = meta.get("tests_run") or []
        if isinstance(tests, str):
            tests = [tests]
        tests = [t for t in tests if isinstance(t, str) and (t.endswith(".py") or os.path.isdir(os.path.join(SCR, t)))]
        trc, tout = (0, "")
        if tests:
            env = dict(os.environ, PYTHONPATH=SCR, PYTHONDONTWRITEBYTECODE="1")
            trc, tout = sh("/venv/bin/python -m pytest -q -p no:cacheprovider -x " + " ".join(tests), cwd=SCR, env=env)
        sh("git checkout -- .", cwd=SCR)
        ok = rc0 == 0 and rc1 == 1 and trc == 0
        print(f"{prop}-{m}: demo without patch exit {rc0}, with patch exit {rc1}, tests exit {trc} ({len(tests)} files) -> {'KEEP' if ok else 'REJECT'}")
        if not ok:
            print("   ", (out1 if rc1 != 1 else out0 if rc0 else tout)[-400:].replace("\n", "\n    "))
            continue
        os.makedirs(dst, exist_ok=True)
        for f in ("patch.diff", "demo.py"):
            shutil.copy(os.path.join(src, f), os.path.join(dst, f))
        meta.update({"property": prop, "confirmed_by_builder": {"demo_exit_without_patch": rc0, "demo_exit_with_patch": rc1,
                                                                 "tests_rerun": tests, "tests_exit": trc,
                                                                 "how": "tools/seeded.py import: scratch worktree /tmp/wt_verify, git apply, demo, pytest, revert"}})
        json.dump(meta, open(os.path.join(dst, "meta.json"), "w"), indent=1)
    shutil.rmtree(os.path.join(SCR, "mutants"), ignore_errors=True)


def do_check(only=None):
    base = os.path.join(VERIF, "seeded")
    rows = []
    for d in sorted(os.listdir(base)):
        if not os.path.isdir(os.path.join(base, d)) or (only and not any(o in d for o in only.split(","))):
            continue
        meta = json.load(open(os.path.join(base, d, "meta.json")))
        props = meta.get("check_with") or [meta["property"]]
        patch = os.path.join(base, d, "patch.diff")
        import shutil
        import tempfile
        scratch = tempfile.mkdtemp(prefix="pyvc_seeded_")
        try:
            shutil.copytree("/repo/onnxscript", os.path.join(scratch, "onnxscript"), ignore=shutil.ignore_patterns("__pycache__"))
            rc, out = sh(f"patch -p1 -s -f < {patch}", cwd=scratch)
            if rc != 0:
                print(f"{d}: patch does not apply to the current tree: {out[-200:]}")
                continue
            det = []
            env = dict(os.environ, PYVC_REPO=scratch, PYTHONPATH=scratch)
            for p in props:
                rc, out = sh(f"{VERIF}/vcheck {p} --no-evidence", env=env)
                failed = [l.split()[1] for l in out.splitlines() if l.startswith("FAILED-OBLIGATION")]
                det.append((p, rc, failed[:3], [l for l in out.splitlines() if l.startswith("UNDECIDED") or l.startswith("CHECKER-ERROR")][:2]))
        finally:
            shutil.rmtree(scratch, ignore_errors=True)
        caught = any(rc == 1 for _, rc, _, _ in det)
        rows.append((d, caught, det))
        print(f"{d}: {'CAUGHT' if caught else 'MISSED'}  " + "; ".join(f"{p} exit {rc} {f} {u}" for p, rc, f, u in det))
    return rows


if __name__ == "__main__":
    if sys.argv[1] == "import":
        do_import(sys.argv[2], sys.argv[3])
    else:
        do_check(sys.argv[2] if len(sys.argv) > 2 else None)
