#!/usr/bin/env python3
"""Engine self-test: apply a deliberate change to /repo's working tree, run the property check,
restore the file.  canaries/<prop>.json: [{"name", "file", "old", "new", "expect": "violation"|"held", "obligation"?}]
Usage: tools/canary.py C20 [name-substring]
Never leaves /repo modified (restores the file contents it saved, in a finally block)."""
import json
import os
import subprocess
import sys

VERIF = os.path.dirname(os.path.dirname(os.path.abspath(__file__)))
REPO = "/repo"


def main():
    """Each canary runs on a scratch copy of /repo's source tree under $TMPDIR (removed afterwards); /repo is never written."""
    import shutil
    import tempfile
    prop = sys.argv[1]
    only = sys.argv[2] if len(sys.argv) > 2 else None
    cans = json.load(open(os.path.join(VERIF, "canaries", prop + ".json")))
    bad = 0
    for c in cans:
        if only and only not in c["name"]:
            continue
        scratch = tempfile.mkdtemp(prefix="pyvc_canary_")
        try:
            shutil.copytree(os.path.join(REPO, "onnxscript"), os.path.join(scratch, "onnxscript"),
                            ignore=shutil.ignore_patterns("__pycache__"))
            path = os.path.join(scratch, c["file"])
            orig = open(path).read()
            if orig.count(c["old"]) != 1:
                print(f"CANARY {prop}/{c['name']}: SKIP (anchor text occurs {orig.count(c['old'])} times)")
                bad += 1
                continue
            open(path, "w").write(orig.replace(c["old"], c["new"]))
            cmd = [os.path.join(VERIF, "vcheck"), prop, "--no-evidence"] + (["--only", c["only"]] if c.get("only") else [])
            env = dict(os.environ, PYVC_REPO=scratch, PYTHONPATH=scratch)
            p = subprocess.run(cmd, capture_output=True, text=True, env=env)
        finally:
            shutil.rmtree(scratch, ignore_errors=True)
        viol = [l for l in p.stdout.splitlines() if l.startswith("VIOLATION")]
        failed = [l for l in p.stdout.splitlines() if l.startswith("FAILED-OBLIGATION")]
        if c["expect"] == "violation":
            ok = p.returncode == 1 and viol and (not c.get("obligation") or any(c["obligation"] in l for l in failed))
        else:
            ok = p.returncode in c.get("expect_exit", [0]) and not viol
        print(f"CANARY {prop}/{c['name']}: {'ok' if ok else 'UNEXPECTED'} (exit {p.returncode}, expect {c['expect']}); "
              + "; ".join(l.split()[1] for l in failed[:3]))
        if os.environ.get("CANARY_VERBOSE"):
            print(p.stdout[-6000:])
        if not ok:
            bad += 1
            print(p.stdout[-1500:])
    sys.exit(1 if bad else 0)


if __name__ == "__main__":
    main()
