#!/bin/bash
# usage: tools/refresh_patch.sh <seeded-id>   -- re-bases seeded/<id>/patch.diff onto /repo HEAD (scratch worktree, removed afterwards)
id=$1
P=/verif/seeded/$id/patch.diff
WT=$(mktemp -d /tmp/pyvc_refresh_XXXX)
cd /repo
base=""
for c in $(git log --format=%h -n 60); do
  if git show $c:onnxscript/__init__.py >/dev/null 2>&1; then
    rm -rf $WT; git worktree add -q --detach $WT $c 2>/dev/null || continue
    if (cd $WT && git apply --check $P 2>/dev/null); then base=$c; break; fi
    git worktree remove --force $WT
  fi
done
if [ -z "$base" ]; then echo "$id: no base commit found"; exit 1; fi
cd $WT && git apply $P && git -c user.email=x@y -c user.name=x commit -qam "mutant $id" && \
  if git -c user.email=x@y -c user.name=x rebase -q --onto $(git -C /repo rev-parse HEAD) HEAD~1 2>/dev/null; then
    git diff HEAD~1 HEAD > $P.new && mv $P.new $P && echo "$id: rebased from $base onto $(git -C /repo rev-parse --short HEAD)"
  else
    git rebase --abort 2>/dev/null; echo "$id: rebase conflict (base $base)"
  fi
cd /repo && git worktree remove --force $WT; git worktree prune
