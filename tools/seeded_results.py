#!/usr/bin/env python3
"""Merge `tools/seeded.py check` output into seeded/RESULTS.md (one row per seeded change).
usage: tools/seeded_results.py <log> [<log> ...]     (later logs win; rows of ids not in the logs are kept)"""
import ast
import json
import os
import re
import sys

VERIF = os.path.dirname(os.path.dirname(os.path.abspath(__file__)))
path = os.path.join(VERIF, "seeded", "RESULTS.md")
rows = {}
head = []
for ln in open(path):
    m = re.match(r"\| (C\d\d-m\d+) \|", ln)
    if m:
        rows[m.group(1)] = ln.rstrip("\n")
    elif not rows:
        head.append(ln.rstrip("\n"))
for log in sys.argv[1:]:
    for ln in open(log):
        m = re.match(r"(C\d\d-m\d+): (CAUGHT|MISSED)\s+(.*)", ln)
        if not m:
            continue
        sid, res, rest = m.groups()
        obs = []
        for lst in re.findall(r"exit \d+ (\[[^\]]*\])", rest):
            try:
                obs += ast.literal_eval(lst)
            except Exception:  # noqa: BLE001
                obs += re.findall(r"'([^']+)'", lst)
        meta = json.load(open(os.path.join(VERIF, "seeded", sid, "meta.json")))
        summ = " ".join(str(meta.get("summary", "")).split())[:170].replace("|", "/")
        cell = "<br>".join(f"`{o}`" for o in obs[:2])
        rows[sid] = f"| {sid} | {res.lower()} | {cell} | {summ} |"


def key(s):
    p, m = s.split("-m")
    return (p, int(m))


with open(path, "w") as f:
    f.write("\n".join(head) + "\n")
    for sid in sorted(rows, key=key):
        f.write(rows[sid] + "\n")
n = len(rows)
c = sum(1 for r in rows.values() if "| caught |" in r)
print(f"{n} seeded changes, {c} caught")
