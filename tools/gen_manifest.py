#!/usr/bin/env python3
"""Regenerates /verif/MANIFEST.json from the table below and validates it against the schema."""
import json
import os

VERIF = os.path.dirname(os.path.dirname(os.path.abspath(__file__)))

BASELINE = ("cd /repo && /venv/bin/python -m pytest -ra -q -p no:cacheprovider --timeout=900 "
            "--continue-on-collection-errors")

TECH = "contract-based deductive verification: VCs generated from the real source (pyvc AST->SMT symbolic executor, sidecar contracts, loop invariants, callee contracts) discharged by z3"

CHECKS = {
    "C01": dict(
        text=("Proof of the kernel obligations K(C01): the real analysis.py functions (_used_vars, assigned_vars, "
              "liveness visit/do_visit/visit_block with both fixpoint loops, exposed_uses) are verified function by "
              "function against a gen/kill dataflow theory for ALL ASTs (structural induction, loop invariants), "
              "which is what the faithfulness of If/Loop translation rests on; no bound on program size, nesting or names; "
              "_compute_constant_if_conditions (not for names assigned in the body nor for parameters); the loop of autocast.cast_inputs for argument lists of any length (C12). Bounded stand-ins: If/Loop translation alignment for every set-iteration order "
              "(<= 3 live variables); eager Tensor.__getitem__ (C11)."),
        note=("Assumed: ONNX operator semantics at run time; _translate_expr per op; onnx_ir serde; _lhs_vars contract "
              "(body not verified); Python ast yields trees; termination of fixpoints; pyvc encoder and z3 trusted."),
        design="DESIGN.md section 4 C01"),
}

CHECKS["C11"] = dict(
    text=("Proof, for every axis size d >= 0 and every int64 start/stop/step (omitted or given, constant or run-time), that the "
          "Slice/Squeeze/Gather nodes emitted by the real Converter._translate_subscript_expr (incl. translate_slice, "
          "translate_slice_component, const_1d, _emit_const) select exactly NumPy's index sequence or fail: the real code is "
          "symbolically executed on a symbolic Subscript AST, the emitted operands are decoded from a ghost emission log and "
          "compared with CPython's slice-adjustment rules and the ONNX Slice-13 clamping rules in linear integer arithmetic. "
          "Two known findings are carved out by exact region predicates and re-proved outside them on every run."),
    note=("Assumed: ONNX Slice/Gather/Squeeze documentation is what runtimes implement; _emit contract; index tuples of length <= 2 "
          "(3 for the squeeze/gather interplay) in the driver, values unbounded; eager Tensor.__getitem__ is NOT under contract "
          "(numpy-backed; same arithmetic, covered only by the native replays); pyvc and z3 trusted."),
    design="DESIGN.md section 4 C11")
CHECKS["C12"] = dict(
    text=("Proof of K(C12): autocast.cast_inputs (converter + eager) and BuilderBase._cast_inputs (builder) against one `promote` specification for "
          "signatures and argument lists of ANY length (inductive invariant over the appended args_typevars list and the type_bindings dict keyed "
          "by symbolic strings; the bound type is the type of SOME typed sibling sharing the type variable, no binding only if there is none, "
          "heterogeneous variadic tails unbound, too many arguments refused, None passes through); autocast._get_dtype/_promotable (bool before "
          "int, INT64/FLOAT/BOOL), Converter._emit_const (one Constant per literal occurrence, fresh name, castable) and "
          "GraphBuilder._get_or_create_constant (a cache hit returns a tensor bit-equal to what a miss would create; Python ==/hash on "
          "bool/int/float keys modelled with IEEE-754 doubles, so 0.0/-0.0 and True/1/1.0 coincidences are decided for all values). Small "
          "concrete-length instances of cast_inputs remain as bounded cross-checks."),
    note=("Assumed: schema convention that a type string without '(' is a type variable; precondition m >= 1 formal inputs; the callbacks "
          "get_type_info / cast / _input_to_ir_value are abstract in the any-length proof (own contracts: static_cast_inputs, cast_pyvalue, "
          "input_to_ir_value); ir.tensor/np.array conversion (onnx_ir, numpy); pyvc and z3 trusted."),
    design="DESIGN.md sections 4 C12 and 13")

CHECKS["C17"] = dict(
    text=("Exhaustive: every method of every generated opset class (all domains/versions in all_opsets) is executed from its real "
          "source by the pyvc interpreter with token arguments (the bodies are straight-line) and compared with the installed "
          "onnx.defs registry: schema name/domain/since_version, Op construction, inputs in schema order through _prepare_inputs, "
          "each attribute forwarded under its own name, keyword-only attribute parameters with defaults equal to the schema defaults; "
          "every (class, operator) pair through the MRO and the dynamic lookups (__getitem__/__contains__) agree with the registry. "
          "The obligations are ground after enumerating the finite registry and are decided by evaluation (exhaustive: true). "
          "Opset._prepare_inputs is proved for any number of inputs (while-loop invariant: exactly the maximal all-None suffix is dropped, falsy literals kept)."),
    note="Assumed: onnx.defs of the installed onnx is the data oracle; Op.__call__/evaluator covered by C01; pyvc interpreter trusted.",
    design="DESIGN.md section 4 C17",
    technique="contract-based: uniform symbolic execution of the real generated methods (pyvc interpreter) + exhaustive evaluation of ground obligations against the onnx.defs registry")
CHECKS["C20"] = dict(
    text=("Proof, for every path of the real save_model_with_external_data and any number of initializers (symbolic-length sequence), "
          "of three path contracts over a ghost effect log: (1) every ir.save call is dominated by the uninitialized-initializer guard "
          "and the ValueError path performs no file-system call; (2) nothing reachable from the model is written, also inside the "
          "progress callback; (3) ir.save is called once with (model, model_path, external_data = basename(model_path)+'.data') — "
          "relative sibling (string theory)."),
    note=("Residual, not claimed: that onnx_ir.save round-trips and restores in-memory tensors when a write fails part-way is a "
          "contract of the dependency; fault enumeration over file-system calls is a different technique family. pathlib/tqdm modelled."),
    design="DESIGN.md section 4 C20")

CHECKS["C16"] = dict(
    text=("Proof (z3 string/regex theory) that registration._check_and_normalize_names accepts exactly the names of the form "
          "ns::name[.overload] that do not end in .default — the shipped regular expression is re-translated from the real pattern "
          "text on every run; path contracts for torch_op.wrapper (private functions not registered, every name registered) and "
          "Registry.register (first registration wins, at most one real and one complex function per name; bounded stand-in with "
          "3 symbolic registrations). The binding half is ground over the finite registry: for every function of get_torchlib_ops() "
          "the torch overload exists and the exporter's positional/keyword binding of the installed torch schema to the function's "
          "op signature is total (tensor arguments to inputs, no required parameter unbound, only listed arguments dropped) and every "
          "scripted FunctionProto passes onnx.checker — exhaustive evaluation. 22 individually named known findings."),
    note=("Assumed: installed torch/torchvision schemas and onnx.checker are the data oracles; the exporter's binding rule is transcribed "
          "from torch.onnx._internal.exporter._building; 'accepting attribute type' of non-tensor arguments is not checked beyond input/attribute kind."),
    design="DESIGN.md section 4 C16",
    technique="contract-based: z3 regex/string VCs and path contracts on the real registration code + exhaustive evaluation of ground binding obligations over the finite registry")

CHECKS["C10"] = dict(
    text=("Path contracts proved on the real version-converter code, exhaustive over the supported opset range of the property "
          "(18..25) and over adapter behaviours (none / declines / replaces / raises): after visit_model the model and every function "
          "declare the target opset with the ai.onnx alias removed and every default-domain node left in the graph carries the target "
          "version (live graph iteration modelled as in onnx_ir); a refused down-conversion touches nothing; convert_version accepts "
          "exactly 18..25 (symbolic target, LIA); decision table of _ConvertVersionPassRequiresInline.call incl. failed fallback leaves "
          "the model untouched; adapters dft_19_20 / gridsample_19_20 forward inputs and attributes exactly (symbolic attribute values); "
          "ModelProto entry point: every top-level field comes from the converted model. One known finding (adapter raises -> half-converted)."),
    note=("Assumed: ONNX C++ version converter (fallback), onnx_ir InlinePass/NameFixPass/replace_nodes_and_values, numerical equality of "
          "ops across opsets beyond the adapters; groupnormalization_20_21's Reshape/Expand arithmetic is NOT under contract."),
    design="DESIGN.md section 4 C10")
CHECKS["C15"] = dict(
    text=("Proof of the wrapper contracts: each API accepting ModelProto or ir.Model (optimize, fold_constants, remove_unused_nodes, "
          "remove_unused_functions, rewrite, convert_version, replace_functions) is executed from its real source on an abstract "
          "ModelProto (record of all 11 top-level fields with provenance tokens) and on an abstract ir.Model; obligations per field: the "
          "proto result equals the serialization of the IR model obtained by applying exactly the passes of the IR form (same passes, "
          "options, order) to deserialize(argument); in-place APIs leave the argument equal to it in every field, functional APIs do not "
          "write their argument (also not through deserialized initializers, which are views of the caller's TensorProtos: one known finding); "
          "rewrite with an empty rule list returns its argument."),
    note=("Residual, not claimed: 'deserializing and re-serializing through onnxscript.ir loses no information' is a property of the onnx_ir "
          "package (onnxscript/ir/__init__.py re-exports it); protobuf Clear/CopyFrom semantics assumed."),
    design="DESIGN.md section 4 C15")

CHECKS["C02"] = dict(
    text=("Proof of the converter's naming and refusal kernel: Converter._generate_unique_name (loop invariant: result not in the set of used names, set "
          "extended, counter monotone, for every set and candidate); nested-function parameters get names not used in any enclosing scope; scope exit "
          "imports the operator domains used inside; _translate_stmt dispatch (normal return only for supported statement kinds, return inside control "
          "flow and unsupported statements raise with a source-positioned message, over a symbolic statement of every kind); IRFunction.append_node; "
          "OnnxFunction._to_model_proto opset-import merge. Bounded stand-ins: _translate_return_stmt (distinct output names, no graph input returned, "
          "outputs produced in this graph incl. values of an enclosing function), 'every subgraph output is produced inside the subgraph' and 'a local "
          "unassigned on one path and unbound outside is refused' for If/Loop translation (<= 3 live variables), get_called_functions (call graphs over 3 "
          "functions, two of them sharing a name across domains). One known finding: mixed standard-opset versions of caller and callee."),
    note="Assumed: onnx.checker itself; onnx_ir serde; _emit contract (one node, outputs in order); _translate_expr per op.",
    design="DESIGN.md section 4 C02 and 9")
CHECKS["C03"] = dict(
    text=("Kernel obligations of constant folding on the real code. Without a structure bound: FoldConstantsPass.process_node for nodes with ANY number "
          "of inputs (input substitution by equal values only; the reference evaluator is reached only behind every guard — not Constant / control "
          "flow / non-deterministic / an operator whose meaning predates the opset, no graph-input operand, every present operand constant, no "
          "unresolved attribute reference, should_fold, blacklist, size gates — and gets every input at its own position), the partial evaluators "
          "cast / cast_like / dropout / add and, for shapes and sym values of ANY rank or length, reshape / expand / abs / shape / _merge_shapes, "
          "FoldConstantsPass.call / visit_graph / visit_node / replace_node plumbing, the reference evaluator wrapper, and the default rewrite rules "
          "proved under C05/C09. Bounded stand-ins: concat, gather, size, squeeze, identity, if_op, split_to_sequence, _move_initializers_to_graph."),
    note=("LARGE assumed part: onnx_ir common passes (inline, DCE, CSE, lift, dedup, NameFix) preserve semantics; onnx.reference computes what the "
          "runtime computes; floating point; the pass pipeline as a whole (only its order / name-uniqueness effects are under contract, C04); "
          "sequence evaluators not under contract."),
    design="DESIGN.md section 4 C03 and 9")
CHECKS["C04"] = dict(
    text=("Proof of the C04 kernel: values that are graph inputs are never read as constants (_get_numpy_value, _get_bool_value, "
          "OptimizerState.get_shape_value, _ir_utils.get_numpy_value); process_node never evaluates a node reading a graph input (any number of inputs); "
          "_sym_value_can_replace_graph_output iff produced in this graph and not already an output; visit_graph replaces an output only then and keeps "
          "its name, never writes graph inputs; _clear_unused_initializers drops an initializer iff unused and not an output; NameFix iff modified; "
          "optimize_ir pass order keeps value names unique and outputs well-formed; _update_opset_imports imports every used domain and raises on a "
          "version conflict; a new initializer never replaces a different one of the same name; the reference-evaluator wrapper never raises. "
          "Exception freedom of the evaluators and rule checks as listed (bounded where the driver enumerates structures)."),
    note="Assumed: onnx_ir passes total and valid; onnx.checker; evaluators not listed above.",
    design="DESIGN.md section 4 C04 and 9")
CHECKS["C05"] = dict(
    text=("Rule-by-rule proofs: the real check()/rewrite() (and helpers) of each rule under contract are executed symbolically; check succeeded ==> pattern "
          "and replacement agree for every input, every constant and every binding of symbolic dims, in the operator theory transcribed from the ONNX "
          "documentation (reals for arithmetic, bit-precise z3 FP/BV for casts, linear integer shape theory). Without a structure bound: Clip/Relu fusions, "
          "CastCast / CastIdentity, Cast(ConstantOfShape), UnsqueezeUnsqueeze, HardSwish-from-HardSigmoid, remove-optional-bias (4 rules), BatchNorm "
          "into Conv / Gemm, NormalizePadFormat (auto_pad with dilations), TransposeTranspose (permutations of ANY length), ExpandIdentity / SqueezeReshape / "
          "collapse_slice (ANY rank), expand-before-binary-op (ANY rank, under C09), pattern-literal matching and Constant.clone tolerances, "
          "_ir_utils.same_shape. Bounded stand-ins (small ranks / operand counts, values symbolic): Min/Max-to-Clip (4 rules), MatMul+Add->Gemm (4 rules), "
          "reshape-matmul-reshape, Conv/affine fusions, FuseConvPad, Flatten2Reshape, ReshapeReshape, MaterializeReshapeShape, ScatterAll*, "
          "TransposeIdentity. Known findings: pattern-literal tolerances, HardSwish tolerance, Min/Max shape cases."),
    note=("Assumed: the operator theory (validated against onnx.reference / onnxruntime natively by the replays, not proved); floats as reals unless "
          "stated; rules.fusion (_layer_norm, _rms_normalization, _rotary_embedding, _gqa) and _fuse_hardswish's other rules replace subgraphs by compound "
          "operators whose only definition is a function body or an ORT kernel: NOT covered (rules_not_under_contract in the evidence)."),
    design="DESIGN.md section 4 C05 and 9")
CHECKS["C06"] = dict(
    text=("Local contracts of the matcher. Without a structure bound: _match_constant (match iff a known, non-overridable scalar constant within the stated "
          "tolerance, all reals), _match_node for node patterns and nodes with ANY number of inputs / outputs (arity, pattern input i against node input i "
          "or None, outputs bound by index, a False result is a recorded failure), _match_node_output, _match_single_output_node, _valid_to_replace for "
          "matches of ANY size (True only without outside uses / graph outputs of intermediate values, False only with a witness), pattern clone "
          "(Constant / Var / NodePattern / Or patterns keep every field). Bounded stand-ins with symbolic flags / names: MatchResult bind / bind_value / "
          "bind_node / lookup_node / enter / abandon / merge, NodePattern.matches, _match_value, _multi_match, match, OrValue. The global soundness + "
          "completeness of the recursive matcher follows on paper only (not machine-checked)."),
    note="Assumed: math.isclose semantics over the reals; onnx_ir Value.uses/is_graph_output; the induction over patterns.",
    design="DESIGN.md section 4 C06 and 9")
CHECKS["C07"] = dict(
    text=("Path contracts proved on _rewrite_rule.py: RewriteRule.try_rewrite (arity check, opset imports of container and main graph, matcher told "
          "whether nodes are removed), _update_opset_imports (symbolic versions), RewriteRuleSet.apply_to_model (original functions only, DCE iff a rule "
          "keeps nodes, NameFix iff count > 0), _get_new_overload (fresh for every function table), commute, _valid_to_replace (any match size); "
          "_apply_to_graph_or_function with every firing pattern of 2 rules on 2 nodes (subgraph attribute, graph vs function container, 0-2 new "
          "initializers incl. clashing names): one replace_nodes_and_values call per firing with exactly (match.nodes | [], new nodes, matched outputs, "
          "new outputs), count, initializer registration, rule-name tag, visitors, as_function branch; bounded: _copy_for_function."),
    note="Assumed: ir.convenience.replace_nodes_and_values / replace_all_uses_with do what their docstrings say (onnx_ir); metadata merger.",
    design="DESIGN.md section 4 C07 and 9")
CHECKS["C09"] = dict(
    text=("Proof, for every binding of the symbolic dims, EVERY RANK and every dim kind (static / named / unknown): _check_expand_removable "
          "(strategies 1-3), _check_dims_sufficient, _compute_broadcast_shape/_dim keep the output rank and extents of BinaryOp(Expand(x), y) "
          "(shapes of symbolic rank, inductive loop invariants stated at an arbitrary Skolem position); the partial evaluators reshape / expand "
          "(Identity only if the target equals the run-time shape), abs (only if every entry is >= 0), shape (Shape-15 start/end clamping for all "
          "integers) on sym values of any length; add on shape values of any length. Bounded stand-ins (ranks <= 2-3): gather, concat, size, "
          "squeeze, identity, _ir_utils.same_shape, ExpandIdentity, ScatterAll*, MaterializeReshapeShape, collapse_slice, SqueezeReshape, "
          "Flatten2Reshape, ReshapeReshape."),
    note=("Assumed: shape annotations are sound for every accepted input (the property's stated assumption); ONNX broadcasting / Reshape / Expand / "
          "Shape documentation; onnx_ir Shape / SymbolicDim (interpreted from source); loop invariants quantifier-free at a Skolem position, "
          "all()/any()/== over symbolic-length sequences used at that position only; termination not proved; pyvc and z3 trusted."),
    design="DESIGN.md sections 4 C09, 9 and 13")
CHECKS["C13"] = dict(
    text=("Proof (z3 string theory) that _cleanup_variable_name always returns a Python identifier that is not a keyword; ground obligations by "
          "exhaustive evaluation: operator table of the exporter vs the converter's primop_map, onnx_type_to_onnxscript_repr -> eval -> "
          "to_type_proto identity on every tensor element type x shape pattern, constant literals (nan/inf/negative/0-d/1-d) evaluate back; "
          "structural contracts on the emitted text, decided by running the real exporter functions and parsing what they emit: operator "
          "rendering, attribute text, signature / remapping scope, If output binding, the loop-carried protocol of _translate_loop (state and "
          "condition initialised before, not overwritten inside, updated at the end of the body, outputs after the loop), initializer naming "
          "under a non-idempotent renamer, distinct Python names inside a function, valid-Python layout for every skip_initializers setting; "
          "bounded: _make_short_name_mapper injective/stable. Injectivity of clean-up is a known finding."),
    note=("Residual, not claimed: the emitted program text as a whole beyond the structural contracts above; exec-and-compare of whole models is "
          "outside this family (used only in the native replays). _translate_graph_body's per-node statement order is an assumed contract of the loop protocol."),
    design="DESIGN.md sections 4 C13, 9 and 13")
CHECKS["C14"] = dict(
    text=("Proof of the state obligations: pattern_builder restores the module-global builder on normal and exceptional exit (exception injected at the "
          "yield); Converter.__init__ copies the caller's globals, script-time constants are snapshots; FoldConstantsPass.call resets per-run state; the "
          "module-level reference evaluator carries no history (symbolic opset versions); every RewriteRuleClassBase subclass in rules.common/rules.fusion "
          "reads in rewrite() only fields that check() assigns on every successful path (must-assign dataflow over the real source, following "
          "super().check); to_model_proto does not modify the function and later calls do not inherit earlier options; GraphPattern output order and the "
          "folding provenance text are canonical under every set-iteration order. Bounded stand-in: If/Loop translation emits the same structure for "
          "every set-iteration order (<= 3 live variables, every order of every set object)."),
    note="Assumed: protobuf serialisation determinism; onnx_ir passes' own determinism; eager mode reading live module globals and numpy-array globals mutated in place are outside.",
    design="DESIGN.md section 4 C14 and 9")
CHECKS["C18"] = dict(
    text=("Proof (string theory, symbolic names): _qualify_initializer_name/_qualify_value_name/_qualify_node_name build the dotted/slash path of "
          "the non-empty scope names (stack depth <= 3); value and node names within one graph differ for different node counts; on a root -> "
          "child -> parameter module tree with default names the initializer name equals root.name + '.' + state_dict key, is realised exactly "
          "once in the root graph, idempotently, and the scope stack is balanced also when forward raises. Three known findings (subgraph "
          "counters, explicitly named modules)."),
    note="Residual: 'the graph computes the trace' needs runtime semantics; onnx_ir Cloner (behind _inliner.instantiate, which is under contract) and _inference are assumed.",
    design="DESIGN.md section 4 C18 and 9")

NOT_APPLICABLE = {
    "C08": "oracle is PyTorch eager for ~550 ATen ops; no contract within reach can state it (DESIGN.md section 5)",
    "C19": "fused operators are ONNX Runtime contrib kernels defined only by ORT C++; no deductive oracle (DESIGN.md section 5)",
}

ALL = [f"C{i:02d}" for i in range(1, 21)]



# round 6 additions to the level texts (DESIGN.md section 14)
ROUND6 = {
    "C01": " Round 6: Converter._translate_assign_stmt (parallel assignment of ANY length: every right-hand side is translated in the scope of before the "
           "statement, each target bound to its own value; 15 statement shapes bounded), attribute parameters promoted to tensors (_to_onnx_var / _to_onnx_attr_ref: "
           "each use refers to the parameter used), two variables bound to one value inside a branch / loop body (bounded).",
    "C02": " Round 6: subgraph outputs are pairwise distinct values (If branches, Loop bodies; bounded); subscript expressions across scopes — every operand is "
           "defined in the graph or an enclosing one (bounded).",
    "C03": " Round 6: the SplitToSequence evaluator against the operator documentation (chunk count, chunk lengths, split axis kept; bounded; one finding recorded).",
    "C04": " Round 6: FoldConstantsPass._do_inference (no value of an overridable initializer reaches ONNX shape inference; bounded); process_node against the real "
           "contract of Graph.register_initializer (a name clash raises; one finding recorded).",
    "C05": " Round 6: SlicesSplit (ONNX Slice clamping vs the chunks of Split-18 with num_outputs, overridable initializers; bounded in rank, values unbounded).",
    "C06": " Round 6, without a structure bound: the match state for backtracking stacks of ANY depth and binding tables of ANY size (MatchResult.bind / bind_value / "
           "lookup_node / bind_node / enter_new_match / abandon_current_match / merge_current_match, PartialMatchResult.merge / fail; symbolic maps, Skolem stack "
           "position), Pattern.match for any number of node-level / value-level checks and pattern inputs (a match is reported only if every check and the "
           "condition function accept, each answering in any of the five documented ways), SimplePatternMatcher._get_output_values for any number of outputs, "
           "NodePattern.matches for any number of attribute patterns and node attributes. By evaluation on the real rewriter: a variable used twice stays one "
           "variable in every commuted variant.",
    "C09": " Round 6: MaterializeReshapeShape against the Reshape theory with an annotated data shape (0 = copy / -1 / allowzero decided semantically; bounded "
           "rank <= 2, bindings {0,1,2,3,7}); evaluators registered WITHOUT a contract get a bounded differential probe (refuted only with a failing input).",
    "C12": " Round 6, by evaluation on the real GraphBuilder: pairs of special literals (nan, inf, signed zeros, True/1/1.0) never raise and keep their bits; the value "
           "of a float literal beside DOUBLE / FLOAT16 siblings in graph, eager mode and builder (two findings recorded).",
    "C13": " Round 6: the loop-carried update and the If outputs are decided by EXECUTING the emitted statements (simultaneous assignment); string tensors in "
           "attribute text; calls of model-local functions (the re-imported model contains the function; by evaluation on the real exporter + converter).",
}
for _pid, _t in ROUND6.items():
    CHECKS[_pid]["text"] += _t


def coverage_lists(pid):
    """Functions of /repo under contract for this property, derived from the scenario tables the check actually runs:
    (verified without a structure bound, only in bounded stand-ins, only by exhaustive evaluation of ground obligations)."""
    import importlib
    import sys
    sys.path.insert(0, VERIF)
    pm = importlib.import_module(f"props.{pid}")
    ded, bnd, ev = set(), set(), set()
    for m in pm.MODULES:
        m, _, sel = m.partition(":")
        mod = importlib.import_module(m)
        for sc in mod.SCENARIOS:
            if sel and sel not in sc.name:
                continue
            tgt = ded if sc.kind == "deductive" else bnd if sc.kind == "bounded" else ev
            for _rel, qn in sc.functions:
                tgt.add(qn)
    return sorted(ded), sorted(bnd - ded), sorted(ev - ded - bnd)


def main():
    checks = []
    for pid in ALL:
        c = CHECKS.get(pid)
        if not c:
            continue
        ded, bnd, ev = coverage_lists(pid)
        c = dict(c)
        c["text"] = (c["text"] + " || Functions under contract as of this build (derived from the scenario tables of the check) - verified without a "
                     "structure bound: " + (", ".join(ded) or "none") + ". Only in bounded stand-ins (never counted as proved): " + (", ".join(bnd) or "none")
                     + ". Only by exhaustive evaluation of ground obligations on the real objects: " + (", ".join(ev) or "none") + ".")
        checks.append({
            "property_id": pid,
            "quick_cmd": f"./vcheck {pid} --tier quick",
            "thorough_cmd": f"./vcheck {pid} --tier thorough",
            "evidence_file": f"/verif/evidence/{pid}.json",
            "replay_cmd_template": "/verif/.venv/bin/python {path}",
            "engine": "pyvc",
            "level_claimed": {"category": "proof", "text": c["text"], "design_ref": c["design"]},
            "level_note": c["note"],
            "technique": c.get("technique", TECH),
        })
    na = []
    for pid in ALL:
        if pid in CHECKS:
            continue
        reason = NOT_APPLICABLE.get(pid, "not yet under contract in this round: no discharged obligation derived from the property text, so it is not claimed")
        na.append({"property_id": pid, "reason": reason})
    m = {
        "version": 1,
        "setup_cmd": "./setup.sh",
        "hooks": {
            "guard": "ONNXSCRIPT_VERIF",
            "enable": "none needed: the checks read and import /repo's working tree; no instrumentation hooks exist (guard reserved, unused)",
            "baseline_off_cmd": BASELINE,
            "source_commits": [],
            "add_only": True,
        },
        "engines": [{
            "name": "pyvc", "path": "/verif/pyvc",
            "serves_properties": sorted(CHECKS),
            "kind_free_text": "AST->SMT verification-condition generator for a Python subset (symbolic execution of the real /repo source re-read on every run, sidecar contracts, callee contracts, inductive loop invariants), z3 back end, counterexample replay on the real code",
        }],
        "checks": checks,
        "not_applicable": na,
        "notes": "fix: commits in /repo and known findings are listed in /verif/known_findings.jsonl; see DESIGN.md section 6.",
    }
    with open(os.path.join(VERIF, "MANIFEST.json"), "w") as f:
        json.dump(m, f, indent=1)
    try:
        import jsonschema
        jsonschema.validate(m, json.load(open("/root/.vp/MANIFEST.schema.json")))
        print("MANIFEST.json valid;", len(checks), "checks,", len(na), "not applicable")
    except ImportError:
        print("written (jsonschema not available for validation)")


if __name__ == "__main__":
    main()
