#!/usr/bin/env python3
"""Regenerates /verif/MANIFEST.json from the table below and validates it against the schema."""
import json
import os

VERIF = os.path.dirname(os.path.dirname(os.path.abspath(__file__)))

BASELINE = ("cd /repo && /venv/bin/python -m pytest -ra -q -p no:cacheprovider --timeout=900 "
            "--continue-on-collection-errors")

TECH = "contract-based deductive verification: VCs generated from the real source (pyvc AST->SMT symbolic executor, sidecar contracts, loop invariants, callee contracts) discharged by z3"

CHECKS = {
    "C01": dict(
        text=("Proof of the kernel obligations K(C01): the real analysis.py functions (_used_vars, assigned_vars, "
              "liveness visit/do_visit/visit_block with both fixpoint loops, exposed_uses) are verified function by "
              "function against a gen/kill dataflow theory for ALL ASTs (structural induction, loop invariants), "
              "which is what the faithfulness of If/Loop translation rests on; no bound on program size, nesting or names."),
        note=("Assumed: ONNX operator semantics at run time; _translate_expr per op; onnx_ir serde; _lhs_vars contract "
              "(body not verified); Python ast yields trees; termination of fixpoints; pyvc encoder and z3 trusted."),
        design="DESIGN.md section 4 C01"),
}

CHECKS["C11"] = dict(
    text=("Proof, for every axis size d >= 0 and every int64 start/stop/step (omitted or given, constant or run-time), that the "
          "Slice/Squeeze/Gather nodes emitted by the real Converter._translate_subscript_expr (incl. translate_slice, "
          "translate_slice_component, const_1d, _emit_const) select exactly NumPy's index sequence or fail: the real code is "
          "symbolically executed on a symbolic Subscript AST, the emitted operands are decoded from a ghost emission log and "
          "compared with CPython's slice-adjustment rules and the ONNX Slice-13 clamping rules in linear integer arithmetic. "
          "Two known findings are carved out by exact region predicates and re-proved outside them on every run."),
    note=("Assumed: ONNX Slice/Gather/Squeeze documentation is what runtimes implement; _emit contract; index tuples of length <= 2 "
          "(3 for the squeeze/gather interplay) in the driver, values unbounded; eager Tensor.__getitem__ is NOT under contract "
          "(numpy-backed; same arithmetic, covered only by the native replays); pyvc and z3 trusted."),
    design="DESIGN.md section 4 C11")
CHECKS["C12"] = dict(
    text=("Proof of K(C12): autocast._get_dtype/_promotable (bool before int, INT64/FLOAT/BOOL), Converter._emit_const (one Constant per "
          "literal occurrence, fresh name, castable) and GraphBuilder._get_or_create_constant (a cache hit returns a tensor bit-equal "
          "to what a miss would create; Python ==/hash on bool/int/float keys modelled with IEEE-754 doubles in z3, so 0.0/-0.0 and "
          "True/1/1.0 coincidences are decided for all values). cast_inputs and BuilderBase._cast_inputs are checked against one "
          "`promote` specification with symbolic type-variable names / variadic flags for signatures up to 3 formals and 4 arguments "
          "(reported as bounded stand-ins, not counted as discharged)."),
    note=("Assumed: schema convention that a type string without '(' is a type variable; ir.tensor/np.array conversion (onnx_ir, numpy); "
          "well-typedness (operands sharing a type variable share a type) for first-vs-last binding; pyvc and z3 trusted."),
    design="DESIGN.md section 4 C12")

CHECKS["C17"] = dict(
    text=("Exhaustive: every method of every generated opset class (all domains/versions in all_opsets) is executed from its real "
          "source by the pyvc interpreter with token arguments (the bodies are straight-line) and compared with the installed "
          "onnx.defs registry: schema name/domain/since_version, Op construction, inputs in schema order through _prepare_inputs, "
          "each attribute forwarded under its own name, keyword-only attribute parameters with defaults equal to the schema defaults; "
          "every (class, operator) pair through the MRO and the dynamic lookups (__getitem__/__contains__) agree with the registry. "
          "The obligations are ground after enumerating the finite registry and are decided by evaluation (exhaustive: true). "
          "_prepare_inputs trimming is a bounded stand-in (<= 5 inputs)."),
    note="Assumed: onnx.defs of the installed onnx is the data oracle; Op.__call__/evaluator covered by C01; pyvc interpreter trusted.",
    design="DESIGN.md section 4 C17",
    technique="contract-based: uniform symbolic execution of the real generated methods (pyvc interpreter) + exhaustive evaluation of ground obligations against the onnx.defs registry")
CHECKS["C20"] = dict(
    text=("Proof, for every path of the real save_model_with_external_data and any number of initializers (symbolic-length sequence), "
          "of three path contracts over a ghost effect log: (1) every ir.save call is dominated by the uninitialized-initializer guard "
          "and the ValueError path performs no file-system call; (2) nothing reachable from the model is written, also inside the "
          "progress callback; (3) ir.save is called once with (model, model_path, external_data = basename(model_path)+'.data') — "
          "relative sibling (string theory)."),
    note=("Residual, not claimed: that onnx_ir.save round-trips and restores in-memory tensors when a write fails part-way is a "
          "contract of the dependency; fault enumeration over file-system calls is a different technique family. pathlib/tqdm modelled."),
    design="DESIGN.md section 4 C20")

CHECKS["C16"] = dict(
    text=("Proof (z3 string/regex theory) that registration._check_and_normalize_names accepts exactly the names of the form "
          "ns::name[.overload] that do not end in .default — the shipped regular expression is re-translated from the real pattern "
          "text on every run; path contracts for torch_op.wrapper (private functions not registered, every name registered) and "
          "Registry.register (first registration wins, at most one real and one complex function per name; bounded stand-in with "
          "3 symbolic registrations). The binding half is ground over the finite registry: for every function of get_torchlib_ops() "
          "the torch overload exists and the exporter's positional/keyword binding of the installed torch schema to the function's "
          "op signature is total (tensor arguments to inputs, no required parameter unbound, only listed arguments dropped) and every "
          "scripted FunctionProto passes onnx.checker — exhaustive evaluation. 22 individually named known findings."),
    note=("Assumed: installed torch/torchvision schemas and onnx.checker are the data oracles; the exporter's binding rule is transcribed "
          "from torch.onnx._internal.exporter._building; 'accepting attribute type' of non-tensor arguments is not checked beyond input/attribute kind."),
    design="DESIGN.md section 4 C16",
    technique="contract-based: z3 regex/string VCs and path contracts on the real registration code + exhaustive evaluation of ground binding obligations over the finite registry")

CHECKS["C10"] = dict(
    text=("Path contracts proved on the real version-converter code, exhaustive over the supported opset range of the property "
          "(18..25) and over adapter behaviours (none / declines / replaces / raises): after visit_model the model and every function "
          "declare the target opset with the ai.onnx alias removed and every default-domain node left in the graph carries the target "
          "version (live graph iteration modelled as in onnx_ir); a refused down-conversion touches nothing; convert_version accepts "
          "exactly 18..25 (symbolic target, LIA); decision table of _ConvertVersionPassRequiresInline.call incl. failed fallback leaves "
          "the model untouched; adapters dft_19_20 / gridsample_19_20 forward inputs and attributes exactly (symbolic attribute values); "
          "ModelProto entry point: every top-level field comes from the converted model. One known finding (adapter raises -> half-converted)."),
    note=("Assumed: ONNX C++ version converter (fallback), onnx_ir InlinePass/NameFixPass/replace_nodes_and_values, numerical equality of "
          "ops across opsets beyond the adapters; groupnormalization_20_21's Reshape/Expand arithmetic is NOT under contract."),
    design="DESIGN.md section 4 C10")
CHECKS["C15"] = dict(
    text=("Proof of the wrapper contracts: each API accepting ModelProto or ir.Model (optimize, fold_constants, remove_unused_nodes, "
          "remove_unused_functions, rewrite, convert_version, replace_functions) is executed from its real source on an abstract "
          "ModelProto (record of all 11 top-level fields with provenance tokens) and on an abstract ir.Model; obligations per field: the "
          "proto result equals the serialization of the IR model obtained by applying exactly the passes of the IR form (same passes, "
          "options, order) to deserialize(argument); in-place APIs leave the argument equal to it in every field, functional APIs do not "
          "write their argument; rewrite with an empty rule list returns its argument."),
    note=("Residual, not claimed: 'deserializing and re-serializing through onnxscript.ir loses no information' is a property of the onnx_ir "
          "package (onnxscript/ir/__init__.py re-exports it); protobuf Clear/CopyFrom semantics assumed."),
    design="DESIGN.md section 4 C15")

NOT_APPLICABLE = {
    "C08": "oracle is PyTorch eager for ~550 ATen ops; no contract within reach can state it (DESIGN.md section 5)",
    "C19": "fused operators are ONNX Runtime contrib kernels defined only by ORT C++; no deductive oracle (DESIGN.md section 5)",
}

ALL = [f"C{i:02d}" for i in range(1, 21)]


def main():
    checks = []
    for pid in ALL:
        c = CHECKS.get(pid)
        if not c:
            continue
        checks.append({
            "property_id": pid,
            "quick_cmd": f"./vcheck {pid} --tier quick",
            "thorough_cmd": f"./vcheck {pid} --tier thorough",
            "evidence_file": f"/verif/evidence/{pid}.json",
            "replay_cmd_template": "/verif/.venv/bin/python {path}",
            "engine": "pyvc",
            "level_claimed": {"category": "proof", "text": c["text"], "design_ref": c["design"]},
            "level_note": c["note"],
            "technique": c.get("technique", TECH),
        })
    na = []
    for pid in ALL:
        if pid in CHECKS:
            continue
        reason = NOT_APPLICABLE.get(pid, "not yet under contract in this round: no discharged obligation derived from the property text, so it is not claimed")
        na.append({"property_id": pid, "reason": reason})
    m = {
        "version": 1,
        "setup_cmd": "./setup.sh",
        "hooks": {
            "guard": "ONNXSCRIPT_VERIF",
            "enable": "none needed: the checks read and import /repo's working tree; no instrumentation hooks exist (guard reserved, unused)",
            "baseline_off_cmd": BASELINE,
            "source_commits": [],
            "add_only": True,
        },
        "engines": [{
            "name": "pyvc", "path": "/verif/pyvc",
            "serves_properties": sorted(CHECKS),
            "kind_free_text": "AST->SMT verification-condition generator for a Python subset (symbolic execution of the real /repo source re-read on every run, sidecar contracts, callee contracts, inductive loop invariants), z3 back end, counterexample replay on the real code",
        }],
        "checks": checks,
        "not_applicable": na,
        "notes": "fix: commits in /repo and known findings are listed in /verif/known_findings.jsonl; see DESIGN.md section 6.",
    }
    with open(os.path.join(VERIF, "MANIFEST.json"), "w") as f:
        json.dump(m, f, indent=1)
    try:
        import jsonschema
        jsonschema.validate(m, json.load(open("/root/.vp/MANIFEST.schema.json")))
        print("MANIFEST.json valid;", len(checks), "checks,", len(na), "not applicable")
    except ImportError:
        print("written (jsonschema not available for validation)")


if __name__ == "__main__":
    main()
