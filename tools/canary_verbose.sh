#!/bin/bash
# usage: tools/canary_verbose.sh C15 <canary-name-substring>  -- shows full check output for one canary
exec env CANARY_VERBOSE=1 "$(dirname "$0")/canary.py" "$@"
