#!/usr/bin/env python3
"""Cross-checks of engine models and theories against the real implementations (CPython, numpy).
  tools/engine_selftest.py      exit 0 if every model agrees on all sampled cases
Run with the check's interpreter:  .venv/bin/python tools/engine_selftest.py
"""
import os
import struct
import sys

sys.path.insert(0, os.path.dirname(os.path.dirname(os.path.abspath(__file__))))
import numpy as np
import z3

from pyvc import interp as IM
from pyvc.values import SInt
from theories import casting, slicing


class _I:
    def truth(self, b):
        return b if isinstance(b, bool) else z3.is_true(z3.simplify(b.t))


def check_slice_indices():
    bad = 0
    for n in range(0, 5):
        for st in [None] + list(range(-7, 8)):
            for en in [None] + list(range(-7, 8)):
                for sp in [None, -3, -2, -1, 1, 2, 3]:
                    sl = slice(*(None if v is None else SInt(z3.IntVal(v)) for v in (st, en, sp)))
                    got = tuple(z3.simplify(x.t).as_long() for x in IM._slice_indices_model(_I(), sl, n))
                    if got != slice(st, en, sp).indices(n):
                        bad += 1
    print("slice.indices model vs CPython: mismatches", bad)
    return bad


def _fp_val(x, sort):
    return z3.fpToFP(z3.RNE(), z3.FPVal(float(x), z3.Float64()), sort) if sort != z3.Float64() else z3.FPVal(float(x), z3.Float64())


def check_casting():
    """theories.casting DOUBLE->FLOAT->FLOAT16 and direct DOUBLE->FLOAT16 against numpy on random doubles next to tie points"""
    rng = np.random.default_rng(7)
    h = np.arange(0x0400, 0x7BFF, dtype=np.uint16).view(np.float16).astype(np.float64)
    mids = (h[:-1] + h[1:]) / 2
    xs = np.concatenate([np.nextafter(rng.choice(mids, 150), np.inf), rng.choice(mids, 50), rng.normal(size=100) * 100])
    bad = 0
    for x in xs:
        v = z3.FPVal(float(x), z3.Float64())
        two, _ = casting.cast(casting.cast(v, "DOUBLE", "FLOAT")[0], "FLOAT", "FLOAT16")
        one, _ = casting.cast(v, "DOUBLE", "FLOAT16")
        for term, want in ((two, np.float64(x).astype(np.float32).astype(np.float16)), (one, np.float64(x).astype(np.float16))):
            s = z3.Solver()
            w = z3.FPVal(float(want), z3.FPSort(5, 11))
            s.add(z3.Not(z3.fpEQ(z3.simplify(term), w)))
            if s.check() != z3.unsat:
                bad += 1
    print("casting theory vs numpy (float64 -> float32 -> float16 and float64 -> float16): mismatches", bad)
    return bad


def check_slicing_theory():
    """theories.slicing.numpy_norm against range(*slice.indices(d))"""
    bad = 0
    for d in range(0, 5):
        for st in [None] + list(range(-6, 7)):
            for en in [None] + list(range(-6, 7)):
                for sp in (-2, -1, 1, 2):
                    a, b = slicing.numpy_norm(z3.IntVal(d), None if st is None else z3.IntVal(st), None if en is None else z3.IntVal(en), z3.IntVal(sp))
                    got = (z3.simplify(a).as_long(), z3.simplify(b).as_long())
                    want = slice(st, en, sp).indices(d)[:2]
                    if list(range(got[0], got[1], sp)) != list(range(want[0], want[1], sp)):
                        bad += 1
    print("slicing theory (numpy_norm) vs CPython: mismatches", bad)
    return bad


def check_deserialize_aliasing():
    """assumed contract of onnx_ir used by C15: initializers of a deserialized model are views of the caller's TensorProtos, and
    renaming the ir.Value writes the TensorProto's name"""
    import onnx
    import onnx_ir as ir
    from onnx import TensorProto, helper, numpy_helper
    g = helper.make_graph([helper.make_node("Add", ["x", "w"], ["y"])], "g", [helper.make_tensor_value_info("x", TensorProto.FLOAT, [2])],
                          [helper.make_tensor_value_info("y", TensorProto.FLOAT, [2])],
                          initializer=[numpy_helper.from_array(np.array([1, 2], np.float32), "w")])
    m = helper.make_model(g, opset_imports=[helper.make_opsetid("", 18)])
    mi = ir.serde.deserialize_model(m)
    mi.graph.initializers["w"].name = "renamed"
    bad = 0 if m.graph.initializer[0].name == "renamed" else 1
    print("onnx_ir: renaming a deserialized initializer writes the source TensorProto (assumed by C15): mismatches", bad)
    return bad


if __name__ == "__main__":
    total = check_slice_indices() + check_casting() + check_slicing_theory() + check_deserialize_aliasing()
    sys.exit(1 if total else 0)
