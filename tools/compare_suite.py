#!/usr/bin/env python3
"""usage: tools/compare_suite.py <junit.xml>  -- every stable_pass test of /root/.vp/BASELINE.json must pass in the given run"""
import json, sys, xml.etree.ElementTree as ET
b = json.load(open('/root/.vp/BASELINE.json'))
sp = set(b['stable_pass'])
res = {}
for tc in ET.parse(sys.argv[1]).iter('testcase'):
    cid = f"{tc.get('classname')}::{tc.get('name')}"
    st = 'pass'
    for ch in tc:
        if ch.tag in ('failure', 'error'):
            st = 'fail'
        elif ch.tag == 'skipped' and st == 'pass':
            st = 'skip'
    if cid not in res or st == 'fail':
        res[cid] = st
bad = [x for x in sp if res.get(x) != 'pass']
print(f"stable_pass={len(sp)} not passing now={len(bad)}")
for x in bad[:40]:
    print('  ', x, res.get(x))
sys.exit(1 if bad else 0)
