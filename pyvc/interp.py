"""pyvc interpreter: a meta-circular evaluator of the Python subset of DESIGN 2.3 over mixed
concrete / symbolic values.  The program text it executes is the `ast` of the real source file in
/repo's working tree (see extract.py).  Concrete sub-computations run with Python's own semantics
(real objects, real builtins); symbolic ones go through the models in this module and in
`models.py`; branches on symbolic conditions fork the path (core.Ctx.branch).
"""
from __future__ import annotations

import ast
import os
import builtins
import operator
import types

import z3

from . import extract
from .core import Undecided, PathEnd, Infeasible, EngineError
from .values import (Sym, SInt, SBool, SReal, SFloat, FP64, SStr, SSet, SSeq, SObj, SOpt, Opaque, Closure, BoundModel,
                     is_sym, contains_sym, wrap, term, StrSort)


class PyRaise(Exception):
    """An exception of the *interpreted* program."""

    def __init__(self, exc):
        super().__init__(repr(exc))
        self.exc = exc


class _Return(Exception):
    def __init__(self, value):
        self.value = value


class _Break(Exception):
    pass


class _Continue(Exception):
    pass


class Env:
    __slots__ = ("vars", "parent", "nonlocals", "globals_decl", "fn_globals", "locals_set")

    def __init__(self, parent, fn_globals, locals_set=None):
        self.vars = {}
        self.parent = parent
        self.nonlocals = set()
        self.globals_decl = set()
        self.fn_globals = fn_globals
        self.locals_set = locals_set

    def lookup(self, name):
        e = self
        while e is not None:
            if name in e.vars:
                return e.vars[name]
            e = e.parent
        raise KeyError(name)

    def assign(self, name, value):
        if name in self.nonlocals:
            e = self.parent
            while e is not None:
                if name in e.vars:
                    e.vars[name] = value
                    return
                e = e.parent
            raise EngineError(f"nonlocal {name} not found")
        if name in self.globals_decl:
            self.fn_globals[name] = value
            return
        self.vars[name] = value


_MISSING = object()

_BINOPS = {
    ast.Add: operator.add, ast.Sub: operator.sub, ast.Mult: operator.mul, ast.Div: operator.truediv,
    ast.FloorDiv: operator.floordiv, ast.Mod: operator.mod, ast.Pow: operator.pow,
    ast.BitOr: operator.or_, ast.BitAnd: operator.and_, ast.BitXor: operator.xor,
    ast.LShift: operator.lshift, ast.RShift: operator.rshift, ast.MatMult: operator.matmul,
}
_CMPOPS = {
    ast.Eq: operator.eq, ast.NotEq: operator.ne, ast.Lt: operator.lt, ast.LtE: operator.le,
    ast.Gt: operator.gt, ast.GtE: operator.ge,
}


def _is_generator(node):
    """Does the function body contain yield (outside nested defs)?"""
    stack = list(node.body) if isinstance(node.body, list) else [node.body]
    while stack:
        n = stack.pop()
        if isinstance(n, (ast.Yield, ast.YieldFrom)):
            return True
        if isinstance(n, (ast.FunctionDef, ast.AsyncFunctionDef, ast.Lambda, ast.ClassDef)):
            continue
        stack.extend(ast.iter_child_nodes(n))
    return False


_VERIF_CONTRACTS = os.path.join(os.path.dirname(os.path.dirname(os.path.abspath(__file__))), "contracts")


class FilteredSeq:
    """(f(x) for x in xs if c(x)) over a sequence xs of symbolic length, in Skolem mode: kept as the pair of element functions over
    the UNFILTERED index domain; only all()/any() consume it (`_quant_over`)."""

    def __init__(self, src, cond_at, elt_at):
        self.src = src
        self.cond_at = cond_at
        self.elt_at = elt_at


class StarArgs:
    """Marker for a call `f(a, b, *xs)` whose `xs` has symbolic length: pass StarArgs(xs) as the last positional argument."""

    def __init__(self, seq):
        self.seq = seq


_INIT_DEFAULTS = {}


def _init_default(cls, name):
    """Initial value `self.<name> = <simple literal>` written by __init__ of cls or of one of its bases (fresh object per call), else _MISSING."""
    import inspect
    import textwrap
    for k in getattr(cls, "__mro__", ()):
        if k is object:
            continue
        if k not in _INIT_DEFAULTS:
            table = {}
            init = k.__dict__.get("__init__")
            try:
                tree = ast.parse(textwrap.dedent(inspect.getsource(init))) if init is not None else None
            except (OSError, TypeError, SyntaxError, IndentationError):
                tree = None
            if tree is not None:
                for n in ast.walk(tree):
                    tgt, val = None, None
                    if isinstance(n, ast.Assign) and len(n.targets) == 1:
                        tgt, val = n.targets[0], n.value
                    elif isinstance(n, ast.AnnAssign) and n.value is not None:
                        tgt, val = n.target, n.value
                    if isinstance(tgt, ast.Attribute) and isinstance(tgt.value, ast.Name) and tgt.value.id == "self":
                        simple = (isinstance(val, ast.Constant) or (isinstance(val, (ast.Dict, ast.List, ast.Set, ast.Tuple)) and not (getattr(val, "keys", None) or getattr(val, "elts", None)))
                                  or (isinstance(val, ast.Call) and isinstance(val.func, ast.Name) and val.func.id in ("dict", "list", "set", "tuple") and not val.args and not val.keywords))
                        if simple and tgt.attr not in table:
                            table[tgt.attr] = val
            _INIT_DEFAULTS[k] = table
        node = _INIT_DEFAULTS[k].get(name)
        if node is not None:
            return eval(compile(ast.Expression(node), "<init default>", "eval"), {})  # noqa: S307 - a literal / empty container only
    return _MISSING


class LoopSpec:
    """Inductive invariant for one loop of a function under contract (DESIGN 2.3).

    havoc:  {var: maker(interp) -> fresh value}   variables modified by the loop
    inv:    callable(interp, env, k) -> list[(label, z3 Bool)]; k = number of completed iterations
            (z3 Int term; for `while` loops k is an unconstrained ghost counter)
    reversed_: iterate the sequence from the end (for `for x in reversed(seq)`)
    """

    def __init__(self, havoc, inv, heap_havoc=None, snapshot=None):
        self.havoc = havoc
        self.inv = inv  # inv(interp, env, k, pre, it)
        self.heap_havoc = heap_havoc
        self.snapshot = snapshot  # snapshot(interp, env, it) -> anything, taken before the loop


class Interp:
    def __init__(self, ctx, contracts=None, models=None, loops=None, interpret_all=True,
                 max_depth=60, noop_calls=None):
        self.ctx = ctx
        self.contracts = contracts or {}  # (rel, qualname) -> callable(interp, args, kwargs)
        self.models = dict(DEFAULT_MODELS)
        if models:
            self.models.update(models)
        self.loops = loops or {}  # (qualname, ordinal) -> LoopSpec
        self.depth = 0
        self.max_depth = max_depth
        self.yields = []
        self.frames = []  # qualnames of active interpreted functions
        self.files = []
        self.loop_counter = []
        self.interpret_all = interpret_all
        self.noop_attr_calls = {"logger", "logging", "warnings"}
        self.unmodelled_calls = []  # (name, args, kwargs) of calls whose effect is not modelled (frame conditions must account for them)
        self.strict_standins = os.environ.get("PYVC_STRICT_STANDINS", "1") != "0"
        self.set_order_nondet = os.environ.get("PYVC_SET_ORDER", "1") != "0"   # True: iterating a native set forks over every order (C14 hash-seed independence)
        self.inv_phase = "assume"
        self.heap_writes = []  # (SObj, field) of every attribute store on a symbolic heap object
        self.called = set()  # (rel, qualname) of every repo function interpreted on this path
        self.native_called = set()

    def instantiate_forall(self, index):
        """Skolem mode of all()/any() (`quant_skolem`): use the recorded universal facts at the index term `index`."""
        for v, want_all in list(getattr(self, "forall_facts", [])):
            if isinstance(v, FilteredSeq):
                if not self.ctx.branch(z3.And(index >= 0, index < v.src.len)):
                    continue
                passes, e = v.cond_at(index)
                if passes and self.truth(v.elt_at(e)) != want_all:
                    raise Infeasible()
                continue
            if not self.ctx.branch(z3.And(index >= 0, index < v.len)):
                continue
            if self.truth(v.at(index)) != want_all:
                raise Infeasible()

    # ------------------------------------------------------------------ functions ---------
    def closure_of(self, fn):
        """Closure for a real function object defined in /repo (source re-read from the tree)."""
        info = extract.function_from_object(fn)
        if info is None:
            return None
        rel, qn, node = info
        if not isinstance(node, (ast.FunctionDef, ast.Lambda)):
            return None
        env = Env(None, fn.__globals__)
        if fn.__closure__:
            for name, cell in zip(fn.__code__.co_freevars, fn.__closure__):
                try:
                    env.vars[name] = cell.cell_contents
                except ValueError:
                    pass
        c = Closure(node, env, fn.__globals__, qn, rel,
                    defaults=list(fn.__defaults__ or ()), kwdefaults=dict(fn.__kwdefaults__ or {}))
        return c

    def closure_from_source(self, rel, qualname, globs, env=None):
        node = extract.find(rel, qualname)
        e = env or Env(None, globs)
        defaults = [self.eval(d, e) for d in node.args.defaults]
        kwdefaults = {a.arg: self.eval(d, e) for a, d in zip(node.args.kwonlyargs, node.args.kw_defaults) if d is not None}
        return Closure(node, e, globs, qualname, rel, defaults, kwdefaults)

    def bind_args(self, clo, args, kwargs):
        a = clo.node.args
        args = list(args)
        if clo.self_obj is not None:
            args = [clo.self_obj] + args
        params = [p.arg for p in a.posonlyargs] + [p.arg for p in a.args]
        bound = {}
        n = len(params)
        for i, p in enumerate(params):
            if i < len(args):
                bound[p] = args[i]
        extra = args[n:]
        if a.vararg and len(extra) == 1 and isinstance(extra[0], StarArgs):
            bound[a.vararg.arg] = extra[0].seq   # f(*xs) with xs a sequence of symbolic length
        elif a.vararg:
            bound[a.vararg.arg] = tuple(extra)
        elif extra:
            raise PyRaise(TypeError(f"{clo.qualname}() takes {n} positional arguments but {len(args)} were given"))
        kw = dict(kwargs)
        posonly = {p.arg for p in a.posonlyargs}
        for p in params:
            if p in kw and p not in posonly:
                if p in bound:
                    raise PyRaise(TypeError(f"{clo.qualname}() got multiple values for argument '{p}'"))
                bound[p] = kw.pop(p)
        for p in a.kwonlyargs:
            if p.arg in kw:
                bound[p.arg] = kw.pop(p.arg)
        nd = len(clo.defaults)
        for i, p in enumerate(params):
            if p not in bound:
                j = i - (n - nd)
                if j >= 0:
                    bound[p] = clo.defaults[j]
                else:
                    raise PyRaise(TypeError(f"{clo.qualname}() missing required positional argument: '{p}'"))
        for p in a.kwonlyargs:
            if p.arg not in bound:
                if p.arg in clo.kwdefaults:
                    bound[p.arg] = clo.kwdefaults[p.arg]
                else:
                    raise PyRaise(TypeError(f"{clo.qualname}() missing required keyword-only argument: '{p.arg}'"))
        if a.kwarg:
            bound[a.kwarg.arg] = kw
        elif kw:
            raise PyRaise(TypeError(f"{clo.qualname}() got an unexpected keyword argument '{next(iter(kw))}'"))
        return bound

    def run_closure(self, clo, args, kwargs):
        """Interpret the body of `clo` (no contract substitution for this outermost call)."""
        if self.depth > self.max_depth:
            raise Undecided(f"interpretation depth exceeded at {clo.qualname}")
        bound = self.bind_args(clo, args, kwargs)
        env = Env(clo.env, clo.globs)
        env.vars.update(bound)
        if clo.file:
            self.called.add((clo.file, clo.qualname))
        if isinstance(clo.node, ast.Lambda):
            return self.eval(clo.node.body, env)
        gen = _is_generator(clo.node)
        saved_yields = self.yields
        if gen:
            self.yields = []
        self.depth += 1
        self.frames.append(clo.qualname)
        self.files.append(clo.file)
        self.loop_counter.append(0)
        try:
            try:
                if getattr(self, "nofork", False) and not gen:
                    result = self._merged_block(list(clo.node.body), env)
                else:
                    self.exec_block(clo.node.body, env)
                    result = None
            except _Return as r:
                result = r.value
            if gen:
                result = list(self.yields)
            return result
        finally:
            self.depth -= 1
            self.frames.pop()
            self.files.pop()
            self.loop_counter.pop()
            self.yields = saved_yields

    def _merged_block(self, stmts, env):
        """Path-merging execution of a pure function body inside a no-fork region (the element function of a
        lazy map over a symbolic sequence: its argument stands for EVERY element, so a fork on it would be a fork on
        a bound variable).  `if` on a symbolic test evaluates both continuations on copies of the local
        environment and joins the results with ite; anything but return / if / simple assignments is undecided."""
        for idx, st in enumerate(stmts):
            if isinstance(st, ast.Return):
                return self.eval(st.value, env) if st.value is not None else None
            if isinstance(st, ast.If):
                rest = stmts[idx + 1:]
                c = self.eval(st.test, env)
                if isinstance(c, SBool):
                    e1 = Env(env.parent, env.fn_globals, env.locals_set)
                    e1.vars.update(env.vars)
                    e2 = Env(env.parent, env.fn_globals, env.locals_set)
                    e2.vars.update(env.vars)
                    a = self._merged_block(list(st.body) + rest, e1)
                    b = self._merged_block(list(st.orelse) + rest, e2)
                    try:
                        return wrap(z3.If(c.t, term(a), term(b)))
                    except (TypeError, z3.Z3Exception, AttributeError):
                        raise Undecided("branches of a no-fork region return non-scalar values")
                if is_sym(c):
                    raise Undecided("non-boolean symbolic test in a no-fork region")
                return self._merged_block((list(st.body) if c else list(st.orelse)) + rest, env)
            if isinstance(st, (ast.Assign, ast.AnnAssign, ast.AugAssign, ast.Pass, ast.Expr)):
                if isinstance(st, ast.Expr) and isinstance(st.value, ast.Constant):
                    continue  # docstring
                if isinstance(st, ast.Assign) and not all(isinstance(t, ast.Name) for t in st.targets):
                    raise Undecided("store to a non-local target in a no-fork region")
                self.exec(st, env)
                continue
            raise Undecided(f"{type(st).__name__} statement in a no-fork region")
        return None

    def enter_and_define(self, clo, args, kwargs=None):
        """Bind `args` to the parameters of `clo` and execute only the nested function definitions of
        its body; returns the environment (used to reach nested functions under contract)."""
        bound = self.bind_args(clo, args, kwargs or {})
        env = Env(clo.env, clo.globs)
        env.vars.update(bound)
        self.frames.append(clo.qualname)
        self.files.append(clo.file)
        prev = getattr(self, "_current_fn_node", None)
        self._current_fn_node = clo.node
        try:
            for st in clo.node.body:
                if isinstance(st, ast.FunctionDef):
                    self.exec(st, env)
        finally:
            self.frames.pop()
            self.files.pop()
            self._current_fn_node = prev
        return env

    # ------------------------------------------------------------------ calls --------------
    def call(self, fn, args=(), kwargs=None):
        kwargs = kwargs or {}
        fn = self.resolve(fn)
        if isinstance(fn, Closure):
            key = (fn.file, fn.qualname)
            if key in self.contracts:
                a = ([fn.self_obj] if fn.self_obj is not None else []) + list(args)
                return self.contracts[key](self, a, kwargs)
            return self.run_closure(fn, args, kwargs)
        if isinstance(fn, BoundModel):
            return fn.fn(self, fn.recv, *args, **kwargs)
        if isinstance(fn, Opaque):
            self.ctx.note(f"unmodelled-call:{fn.why}()")
            return Opaque(f"{fn.why}()")
        if isinstance(fn, SObj) and fn.pycls is not None:
            for klass, handler in getattr(self, "instance_models", ()):
                if isinstance(fn.pycls, type) and issubclass(fn.pycls, klass):
                    return handler(self, fn, *args, **kwargs)
            cm = getattr(fn.pycls, "__call__", None)
            if cm is not None and not isinstance(cm, type(object.__call__)):
                return self.call(cm, [fn] + list(args), kwargs)
        if isinstance(fn, Sym):
            raise Undecided(f"call of symbolic value {fn!r}")
        # real callables -----------------------------------------------------------------
        for klass, handler in getattr(self, "instance_models", ()):
            if isinstance(fn, klass):
                return handler(self, fn, *args, **kwargs)
        try:
            model = self.models.get(fn)
        except TypeError:
            model = None
        if model is not None:
            return model(self, *args, **kwargs)
        if isinstance(fn, types.MethodType):
            func, recv = fn.__func__, fn.__self__
            try:
                m = self.models.get(func)
            except TypeError:
                m = None
            if m is not None:
                return m(self, recv, *args, **kwargs)
            if isinstance(func, types.FunctionType):
                return self._call_pyfunc(func, [recv] + list(args), kwargs, fn)
        if isinstance(fn, types.FunctionType):
            return self._call_pyfunc(fn, list(args), kwargs, fn)
        symbolic = contains_sym(args) or contains_sym(kwargs)
        if isinstance(fn, type):
            if issubclass(fn, (BaseException, ast.AST)):
                return fn(*args, **kwargs)
            if symbolic:
                return self.instantiate(fn, args, kwargs)
        if symbolic:
            name = getattr(fn, "__qualname__", None) or getattr(fn, "__name__", repr(fn))
            if isinstance(fn, types.BuiltinMethodType) and isinstance(fn.__self__, (list, dict, tuple, set)):
                # list.append(sym) etc.: containers of symbolic values are fine natively (symbolic
                # wrappers hash by identity, so a python set/dict of them never merges two of them)
                last = name.split(".")[-1]
                if isinstance(fn.__self__, dict) and last in ("get", "setdefault", "pop") and args and is_sym(args[0]) \
                        and not isinstance(args[0], SObj):
                    if last == "get":
                        d = fn.__self__
                        for kk in list(d.keys()):
                            if self.truth(self.compare(ast.Eq, kk, args[0])):
                                return d[kk]
                        return args[1] if len(args) > 1 else None
                    raise Undecided(f"dict.{last} with symbolic key")
                if last in ("append", "extend", "insert", "pop", "get", "setdefault", "update",
                            "items", "keys", "values", "copy", "clear", "reverse", "add"):
                    return self.native(fn, args, kwargs)
            if isinstance(fn, types.BuiltinMethodType) and isinstance(fn.__self__, slice) and name.split(".")[-1] == "indices" and len(args) == 1:
                return _slice_indices_model(self, fn.__self__, args[0])
            if isinstance(fn, types.BuiltinMethodType) and isinstance(fn.__self__, str) and name.split(".")[-1] == "join" and len(args) == 1:
                return _str_join_model(self, fn.__self__, args[0])
            self.ctx.note(f"unmodelled-call:{name}")
            self.unmodelled_calls.append((name, list(args), dict(kwargs)))
            return Opaque(name)
        return self.native(fn, args, kwargs)

    def _callable_for_native(self, v):
        """An interpreted function handed to native code (list.sort(key=...), map, functools.reduce ...) becomes a
        Python callable that runs it in this interpreter."""
        if isinstance(v, Closure):
            return lambda *a, **k: self.call(v, list(a), k)
        return v

    def native(self, fn, args, kwargs):
        if any(isinstance(a, Closure) for a in args) or any(isinstance(a, Closure) for a in kwargs.values()):
            args = [self._callable_for_native(a) for a in args]
            kwargs = {k: self._callable_for_native(a) for k, a in kwargs.items()}
        try:
            return fn(*args, **kwargs)
        except (PathEnd, Infeasible, Undecided, EngineError, PyRaise, _Return, _Break, _Continue):
            raise
        except Exception as e:  # exception of the interpreted program
            if isinstance(e, (NameError, AttributeError, TypeError)) and e.__traceback__ is not None:
                # an exception RAISED inside a helper of the verification machinery itself (a stand-in method, a scenario callback) is a bug of
                # the checker, never behaviour of the program under contract
                tb = e.__traceback__
                while tb.tb_next is not None:
                    tb = tb.tb_next
                where = tb.tb_frame.f_code.co_filename
                if where.startswith(_VERIF_CONTRACTS) and isinstance(e, NameError):
                    raise EngineError(f"scenario helper bug at {where}:{tb.tb_lineno}: {e!r}")
            raise PyRaise(e)

    def _call_pyfunc(self, func, args, kwargs, orig):
        if getattr(func, "_pyvc_native", False):
            return self.native(func, args, kwargs)
        info = extract.function_from_object(func)
        if info is not None:
            rel, qn, _node = info
            if (rel, qn) in self.contracts:
                return self.contracts[(rel, qn)](self, list(args), kwargs)
            if self.interpret_all or contains_sym(args) or contains_sym(kwargs):
                clo = self.closure_of(func)
                if clo is not None:
                    return self.run_closure(clo, args, kwargs)
        if contains_sym(args) or contains_sym(kwargs):
            # a pure-python function outside /repo: interpret its source if we can get it
            clo = self._foreign_closure(func)
            if clo is not None:
                return self.run_closure(clo, args, kwargs)
            name = getattr(func, "__qualname__", repr(func))
            self.ctx.note(f"unmodelled-call:{func.__module__}.{name}")
            self.unmodelled_calls.append((f"{func.__module__}.{name}", list(args), dict(kwargs)))
            return Opaque(name)
        self.native_called.add(getattr(func, "__qualname__", repr(func)))
        return self.native(func, args, kwargs)

    _foreign_cache = {}

    def _foreign_closure(self, func):
        import inspect
        import textwrap
        try:
            key = func.__code__
            if key not in self._foreign_cache:
                src = textwrap.dedent(inspect.getsource(func))
                node = ast.parse(src).body[0]
                self._foreign_cache[key] = node
            node = self._foreign_cache[key]
        except (OSError, TypeError, SyntaxError, IndexError):
            return None
        if not isinstance(node, ast.FunctionDef):
            return None
        env = Env(None, func.__globals__)
        if func.__closure__:
            for name, cell in zip(func.__code__.co_freevars, func.__closure__):
                try:
                    env.vars[name] = cell.cell_contents
                except ValueError:
                    pass
        return Closure(node, env, func.__globals__, func.__module__ + "." + func.__qualname__, None,
                       defaults=list(func.__defaults__ or ()), kwdefaults=dict(func.__kwdefaults__ or {}))

    def instantiate(self, cls, args, kwargs):
        """Create a symbolic-heap instance of a real class and run its real __init__."""
        obj = SObj(cls, name=cls.__name__.lower())
        import dataclasses
        if dataclasses.is_dataclass(cls) and "__init__" in cls.__dict__ and extract.function_from_object(cls.__init__) is None \
                and not hasattr(cls, "__post_init__"):
            flds = [f for f in dataclasses.fields(cls) if f.init]
            vals = dict(zip([f.name for f in flds], args))
            vals.update(kwargs)
            for f in flds:
                if f.name not in vals:
                    if f.default is not dataclasses.MISSING:
                        vals[f.name] = f.default
                    elif f.default_factory is not dataclasses.MISSING:
                        vals[f.name] = f.default_factory()
                    else:
                        raise PyRaise(TypeError(f"{cls.__name__}() missing argument {f.name}"))
            obj.fields.update(vals)
            return obj
        init = cls.__init__
        if isinstance(init, types.FunctionType):
            self._call_pyfunc(init, [obj] + list(args), kwargs, init)
        elif init is not object.__init__:
            raise Undecided(f"cannot instantiate {cls.__name__} symbolically")
        return obj

    def resolve(self, v):
        if isinstance(v, SOpt):
            return None if self.ctx.branch(v.isnone) else v.value
        return v

    # ------------------------------------------------------------------ attributes ----------
    def getattr(self, obj, name):
        obj = self.resolve(obj)
        if isinstance(obj, SuperProxy):
            inst = obj.obj
            klass = self.class_of(inst) if isinstance(inst, SObj) else type(inst)
            mro = list(klass.__mro__)
            start = mro.index(obj.cls) + 1 if obj.cls in mro else 0
            for k in mro[start:]:
                if name in k.__dict__:
                    raw = k.__dict__[name]
                    if isinstance(inst, SObj):
                        if raw is object.__init__:
                            return BoundModel(lambda interp, recv, *a, **kw: None, inst, "object.__init__")
                        return self._bind_class_attr(raw, inst, klass)
                    return raw.__get__(inst, klass) if hasattr(raw, "__get__") else raw
            raise PyRaise(AttributeError(name))
        if isinstance(obj, SObj):
            if name in obj.fields:
                return obj.fields[name]
            if obj.lazy is not None:
                v = obj.lazy(self, obj, name)
                if v is not _MISSING and v is not NotImplemented:
                    obj.fields[name] = v
                    return v
            cls = self.class_of(obj)
            if cls is not None:
                try:
                    raw = _static_getattr(cls, name)
                except AttributeError:
                    raw = _MISSING
                if raw is not _MISSING:
                    return self._bind_class_attr(raw, obj, cls)
            if name == "__class__":
                return cls
            # a field the scenario did not give the stand-in, but that the class's own __init__ (or a base's) initialises with a simple
            # literal ({} / [] / set() / None / False / 0 / ""): a field ADDED to the class later exists with its initial value, as on a real
            # instance (a harmless change of the code under contract must not look like an AttributeError of the program)
            if cls is not None and cls is not object and not name.startswith("__"):
                dv = _init_default(cls, name)
                if dv is not _MISSING:
                    obj.fields[name] = dv
                    return dv
            if cls is object and not name.startswith("__") and self.strict_standins:
                # a pure stand-in (SObj(object, ...)) models only the fields the scenario gave it: reading another one is a
                # gap of the scenario, not an AttributeError of the program (exit 2, never a violation or a refusal)
                raise Undecided(f"stand-in object {obj.name!r} has no field {name!r} (scenario does not model it)")
            raise PyRaise(AttributeError(f"'{cls.__name__ if cls else '?'}' object has no attribute '{name}'"))
        if isinstance(obj, Sym):
            m = METHODS.get((type(obj), name))
            if m is None:
                if isinstance(obj, Opaque):
                    self.ctx.note(f"unmodelled-attr:{obj.why}.{name}")
                    return Opaque(f"{obj.why}.{name}")
                raise Undecided(f"attribute {name} of {type(obj).__name__}")
            return BoundModel(m, obj, name)
        if isinstance(obj, Closure):
            if name == "__name__":
                return obj.__name__
        try:
            return getattr(obj, name)
        except Exception as e:
            raise PyRaise(e)

    def _bind_class_attr(self, raw, obj, cls):
        if isinstance(raw, types.FunctionType):
            m = self.models.get(raw)
            if m is not None:
                return BoundModel(m, obj, raw.__name__)
            clo = self.closure_of(raw) or self._foreign_closure(raw)
            if clo is None:
                raise Undecided(f"no source for method {raw.__qualname__}")
            return clo.bind(obj)
        if isinstance(raw, property):
            fget = raw.fget
            try:
                m = self.models.get(fget)
            except TypeError:
                m = None
            if m is not None:
                return m(self, obj)
            return self._call_pyfunc(fget, [obj], {}, fget)
        if isinstance(raw, staticmethod):
            return raw.__func__
        if isinstance(raw, classmethod):
            return types.MethodType(raw.__func__, cls)
        return raw

    def class_of(self, obj):
        if obj.pycls is None:
            if not obj.cands:
                raise Undecided(f"class of {obj!r} unknown")
            i = self.ctx.choose(len(obj.cands), "kind")
            obj.pycls = obj.cands[i]
            obj.cands = None
        return obj.pycls

    def setattr(self, obj, name, value):
        obj = self.resolve(obj)
        if isinstance(obj, SObj):
            self.heap_writes.append((obj, name))
            obj.fields[name] = value
            return
        if isinstance(obj, Sym):
            raise Undecided(f"setattr on {obj!r}")
        try:
            setattr(obj, name, value)
        except Exception as e:
            raise PyRaise(e)

    # ------------------------------------------------------------------ truth & operators ---
    def truth(self, v):
        v = self.resolve(v)
        if getattr(self, "nofork", False) and isinstance(v, Sym) and not isinstance(v, (SObj, Opaque, Closure)):
            raise Undecided("truth test of a symbolic value inside a no-fork region (element function of a lazy map)")
        if isinstance(v, SBool):
            return self.ctx.branch(v.t)
        if isinstance(v, SInt):
            return self.ctx.branch(v.t != 0)
        if isinstance(v, SReal):
            return self.ctx.branch(v.t != 0)
        if isinstance(v, SFloat):
            return self.ctx.branch(z3.Not(z3.fpIsZero(v.t)))
        if isinstance(v, SStr):
            return self.ctx.branch(z3.Length(v.t) != 0)
        if isinstance(v, SSet):
            return self.ctx.branch(v.t != z3.EmptySet(v.t.sort().domain()))
        if isinstance(v, SSeq):
            return self.ctx.branch(v.len != 0)
        if isinstance(v, SObj):
            cls = self.class_of(v)
            for special in ("__bool__", "__len__"):
                try:
                    raw = _static_getattr(cls, special)
                except AttributeError:
                    continue
                r = self.call(self._bind_class_attr(raw, v, cls))
                return self.truth(r)
            return True
        if isinstance(v, Opaque):
            self.ctx.note(f"unmodelled-truth:{v.why}")
            return self.ctx.choose(2, "opaque-truth") == 0
        if isinstance(v, Closure):
            return True
        try:
            return bool(v)
        except Exception as e:
            raise PyRaise(e)

    _DUNDER = {ast.Add: "add", ast.Sub: "sub", ast.Mult: "mul", ast.Div: "truediv", ast.FloorDiv: "floordiv", ast.Mod: "mod",
               ast.Pow: "pow", ast.BitOr: "or", ast.BitAnd: "and", ast.BitXor: "xor", ast.MatMult: "matmul",
               ast.LShift: "lshift", ast.RShift: "rshift"}

    def binop(self, op, a, b):
        a, b = self.resolve(a), self.resolve(b)
        if isinstance(a, SObj) or isinstance(b, SObj):
            nm = self._DUNDER.get(op)
            if nm and isinstance(a, SObj):
                cls = self.class_of(a)
                try:
                    raw = _static_getattr(cls, f"__{nm}__")
                    return self.call(self._bind_class_attr(raw, a, cls), [b])
                except AttributeError:
                    pass
            if nm and isinstance(b, SObj):
                cls = self.class_of(b)
                try:
                    raw = _static_getattr(cls, f"__r{nm}__")
                    return self.call(self._bind_class_attr(raw, b, cls), [a])
                except AttributeError:
                    pass
            raise PyRaise(TypeError(f"unsupported operand type(s) for {op.__name__}"))
        if not (isinstance(a, Sym) or isinstance(b, Sym)):
            try:
                return _BINOPS[op](a, b)
            except Exception as e:
                raise PyRaise(e)
        # a native stand-in object (its dunders are marked _pyvc_native) combined with a symbolic scalar
        nm = self._DUNDER.get(op)
        if nm:
            for obj, other, meth in ((a, b, f"__{nm}__"), (b, a, f"__r{nm}__")):
                if not isinstance(obj, Sym):
                    f = getattr(type(obj), meth, None)
                    if f is not None and getattr(f, "_pyvc_native", False):
                        r = f(obj, other)
                        if r is not NotImplemented:
                            return r
        return sym_binop(self, op, a, b)

    def compare(self, op, a, b):
        if op is ast.Is:
            return self.identical(a, b)
        if op is ast.IsNot:
            r = self.identical(a, b)
            return (not r) if isinstance(r, bool) else SBool(z3.Not(r.t))
        if op is ast.In:
            return self.contains(b, a)
        if op is ast.NotIn:
            r = self.contains(b, a)
            return (not r) if isinstance(r, bool) else SBool(z3.Not(r.t))
        if not (contains_sym(a) or contains_sym(b)):
            try:
                return _CMPOPS[op](a, b)
            except Exception as e:
                raise PyRaise(e)
        return sym_compare(self, op, a, b)

    def identical(self, a, b):
        if a is b:
            return True
        if isinstance(a, SOpt) and b is None:
            return wrap(a.isnone)
        if isinstance(b, SOpt) and a is None:
            return wrap(b.isnone)
        a, b = self.resolve(a), self.resolve(b)
        if a is b:
            return True
        if isinstance(a, Opaque) or isinstance(b, Opaque):
            o = a if isinstance(a, Opaque) else b
            self.ctx.note(f"unmodelled-identity:{o.why}")
            return self.ctx.choose(2, "opaque-is") == 0
        return False

    def contains(self, container, item):
        if isinstance(container, SSet):
            if isinstance(item, SObj):
                pin_identity(self, item)
                return wrap(z3.IsMember(item.ref, container.t))
            it = term(item)
            if it.sort() != container.t.sort().domain():
                if not is_sym(item):
                    return False  # a concrete value of another type equals no element of the set
                raise Undecided("membership test between different element sorts")
            return wrap(z3.IsMember(it, container.t))
        if isinstance(container, SStr) or (isinstance(container, str) and isinstance(item, SStr)):
            return wrap(z3.Contains(term(container), term(item)))
        if isinstance(container, (list, tuple, set, frozenset, dict)) or isinstance(container, type({}.keys())):
            if not contains_sym(item) and not any(contains_sym(x) for x in container):
                try:
                    return item in container
                except Exception as e:
                    raise PyRaise(e)
            acc = False
            for x in container:
                r = self.compare(ast.Eq, x, item)
                if r is True:
                    return True
                if r is False:
                    continue
                acc = r if acc is False else SBool(z3.Or(acc.t, r.t))
            return acc
        if isinstance(container, SSeq) and getattr(self, "quant_skolem", False) and not z3.is_int_value(z3.simplify(container.len)):
            # Skolem mode (elements may be objects whose == forks): either some witness element equals the item, or none does
            # (recorded; to be used at the index terms the scenario needs: instantiate_forall)
            if self.ctx.choose(2, "in") == 0:
                w = self.ctx.int("w")
                self.ctx.assume(z3.And(w >= 0, w < container.len))
                if not self.truth(sym_eq(self, container.at(w), item)):
                    raise Infeasible()
                self.quant_witnesses = getattr(self, "quant_witnesses", [])
                self.quant_witnesses.append(w)
                return True
            self.forall_facts = getattr(self, "forall_facts", [])
            self.forall_facts.append((SSeq(container.len, lambda i: sym_eq(self, container.at(i), item), name="in"), False))
            return False
        if isinstance(container, SSeq):
            j = self.ctx.int("j")
            el = container.at(j)
            return wrap(z3.Exists([j], z3.And(j >= 0, j < container.len, term(el) == term(item))))
        if isinstance(container, SDict):
            return _sdict_contains(self, container, item)
        if isinstance(container, SMap):
            return _smap_contains(self, container, item)
        if isinstance(container, SObj):
            cls = self.class_of(container)
            raw = _static_getattr(cls, "__contains__")
            return self.call(self._bind_class_attr(raw, container, cls), [item])
        if isinstance(container, Sym):
            raise Undecided(f"`in` on {container!r}")
        try:
            return item in container
        except Exception as e:
            raise PyRaise(e)

    # ------------------------------------------------------------------ iteration -----------
    def iterate(self, v):
        """Concrete list of the elements of v (elements may be symbolic)."""
        if isinstance(v, SSeq):
            ln = z3.simplify(v.len)
            if z3.is_int_value(ln):
                return [v.at(i) for i in range(ln.as_long())]
            raise Undecided(f"iteration over symbolic-length sequence {v.name} without invariant")
        if isinstance(v, SSet):
            raise Undecided("iteration over a symbolic set without invariant")
        if isinstance(v, SStr):
            raise Undecided("iteration over a symbolic string")
        if isinstance(v, Sym):
            if isinstance(v, SObj):
                cls = self.class_of(v)
                try:
                    raw = _static_getattr(cls, "__iter__")
                except AttributeError:
                    raise Undecided(f"iteration over {v!r}")
                return self.iterate(self.call(self._bind_class_attr(raw, v, cls)))
            raise Undecided(f"iteration over {v!r}")
        if self.set_order_nondet and isinstance(v, (set, frozenset)) and len(v) >= 2:
            # Python fixes no iteration order for a set (hash randomisation): every order is a path
            items = list(v)
            if len(items) > 4:
                # larger sets: three representative orders (each one is possible; not all of them - bounded scenarios only)
                k = self.ctx.choose(3, "set iteration order (native / reversed / rotated)")
                return items if k == 0 else items[::-1] if k == 1 else items[len(items) // 2:] + items[:len(items) // 2]
            out = []
            while len(items) > 1:
                out.append(items.pop(self.ctx.choose(len(items), "set iteration order")))
            return out + items
        try:
            return list(v)
        except Exception as e:
            raise PyRaise(e)

    # ------------------------------------------------------------------ statements ----------
    def exec_block(self, stmts, env):
        for s in stmts:
            self.exec(s, env)

    def exec(self, node, env):
        m = getattr(self, "x_" + type(node).__name__, None)
        if m is None:
            raise Undecided(f"unsupported statement {type(node).__name__} at line {node.lineno}")
        return m(node, env)

    def x_Expr(self, node, env):
        v = node.value
        # logging / warnings calls are no-ops (DESIGN 2.1: extraction drops them)
        if isinstance(v, ast.Call) and isinstance(v.func, ast.Attribute) and isinstance(v.func.value, ast.Name) \
                and v.func.value.id in self.noop_attr_calls:
            return
        if isinstance(v, ast.Call) and isinstance(v.func, ast.Name) and v.func.id == "print":
            return
        if isinstance(v, ast.Constant):
            return
        self.eval(v, env)

    def x_Pass(self, node, env):
        pass

    def x_Global(self, node, env):
        env.globals_decl.update(node.names)

    def x_Nonlocal(self, node, env):
        env.nonlocals.update(node.names)

    def x_Import(self, node, env):
        import importlib
        for a in node.names:
            ov = getattr(self, "import_overrides", {})
            if a.name in ov:
                env.assign(a.asname or a.name.split(".")[0], ov[a.name])
                continue
            try:
                mod = importlib.import_module(a.name)
            except ImportError as e:
                raise PyRaise(e)
            if a.asname:
                env.assign(a.asname, mod)
            else:
                env.assign(a.name.split(".")[0], importlib.import_module(a.name.split(".")[0]))

    def x_ImportFrom(self, node, env):
        import importlib
        pkg = env.fn_globals.get("__package__")
        mod = importlib.import_module("." * node.level + (node.module or ""), pkg)
        for a in node.names:
            try:
                v = getattr(mod, a.name)
            except AttributeError:
                v = importlib.import_module(mod.__name__ + "." + a.name)
            env.assign(a.asname or a.name, v)

    def x_Delete(self, node, env):
        for t in node.targets:
            if isinstance(t, ast.Name):
                env.vars.pop(t.id, None)
            elif isinstance(t, ast.Subscript):
                c = self.eval(t.value, env)
                k = self.eval(t.slice, env)
                if isinstance(c, Sym) or contains_sym(k):
                    raise Undecided("del on symbolic container")
                try:
                    del c[k]
                except Exception as e:
                    raise PyRaise(e)
            else:
                raise Undecided("unsupported del target")

    def x_FunctionDef(self, node, env):
        qn = (self.frames[-1] + "." if self.frames else "") + node.name
        defaults = [self.eval(d, env) for d in node.args.defaults]
        kwdefaults = {a.arg: self.eval(d, env) for a, d in zip(node.args.kwonlyargs, node.args.kw_defaults) if d is not None}
        file = self.files[-1] if self.files else None
        clo = Closure(node, env, env.fn_globals, qn, file, defaults, kwdefaults)
        value = clo
        for dec in reversed(node.decorator_list):
            d = self.eval(dec, env)
            value = self.call(d, [value])
        env.assign(node.name, value)

    def x_Return(self, node, env):
        raise _Return(self.eval(node.value, env) if node.value is not None else None)

    def x_Assign(self, node, env):
        v = self.eval(node.value, env)
        for t in node.targets:
            self.assign_target(t, v, env)

    def x_AnnAssign(self, node, env):
        if node.value is not None:
            self.assign_target(node.target, self.eval(node.value, env), env)

    def x_AugAssign(self, node, env):
        t = node.target
        if isinstance(t, ast.Name):
            cur = self.lookup(t.id, env)
            new = self.aug(type(node.op), cur, self.eval(node.value, env))
            env.assign(t.id, new)
        elif isinstance(t, ast.Attribute):
            o = self.eval(t.value, env)
            cur = self.getattr(o, t.attr)
            self.setattr(o, t.attr, self.aug(type(node.op), cur, self.eval(node.value, env)))
        elif isinstance(t, ast.Subscript):
            c = self.eval(t.value, env)
            k = self.eval(t.slice, env)
            cur = self.subscript(c, k)
            self.store_subscript(c, k, self.aug(type(node.op), cur, self.eval(node.value, env)))
        else:
            raise Undecided("augassign target")

    def aug(self, op, cur, val):
        if isinstance(cur, list) and op is ast.Add:
            cur.extend(self.iterate(val))
            return cur
        if isinstance(cur, SSet) and op in (ast.BitOr, ast.BitAnd, ast.Sub):
            r = self.binop(op, cur, val)
            cur.t = r.t  # in-place update keeps the object (and its iteration identity)
            return cur
        if isinstance(cur, (set, dict)) and op is ast.BitOr and not isinstance(val, Sym):
            cur |= val
            return cur
        return self.binop(op, cur, val)

    def assign_target(self, t, v, env):
        if isinstance(t, ast.Name):
            env.assign(t.id, v)
        elif isinstance(t, (ast.Tuple, ast.List)):
            items = self.iterate(v)
            star = [i for i, e in enumerate(t.elts) if isinstance(e, ast.Starred)]
            if star:
                i = star[0]
                after = len(t.elts) - i - 1
                if len(items) < len(t.elts) - 1:
                    raise PyRaise(ValueError("not enough values to unpack"))
                for e, x in zip(t.elts[:i], items[:i]):
                    self.assign_target(e, x, env)
                self.assign_target(t.elts[i].value, list(items[i:len(items) - after]), env)
                for e, x in zip(t.elts[i + 1:], items[len(items) - after:]):
                    self.assign_target(e, x, env)
                return
            if len(items) != len(t.elts):
                raise PyRaise(ValueError(f"unpack: expected {len(t.elts)} values, got {len(items)}"))
            for e, x in zip(t.elts, items):
                self.assign_target(e, x, env)
        elif isinstance(t, ast.Attribute):
            self.setattr(self.eval(t.value, env), t.attr, v)
        elif isinstance(t, ast.Subscript):
            self.store_subscript(self.eval(t.value, env), self.eval(t.slice, env), v)
        else:
            raise Undecided(f"assignment target {type(t).__name__}")

    def x_If(self, node, env):
        if self.truth(self.eval(node.test, env)):
            self.exec_block(node.body, env)
        else:
            self.exec_block(node.orelse, env)

    def x_Assert(self, node, env):
        if not self.truth(self.eval(node.test, env)):
            msg = self.eval(node.msg, env) if node.msg is not None else ""
            raise PyRaise(AssertionError(msg))

    def x_Raise(self, node, env):
        if node.exc is None:
            if getattr(self, "_handling", None):
                raise PyRaise(self._handling[-1])
            raise PyRaise(RuntimeError("No active exception to reraise"))
        e = self.eval(node.exc, env)
        if isinstance(e, type) and issubclass(e, BaseException):
            e = e()
        if isinstance(e, SObj):
            raise PyRaise(e)
        if not isinstance(e, BaseException):
            raise Undecided(f"raise of non-exception {e!r}")
        if node.cause is not None:
            c = self.eval(node.cause, env)
            if isinstance(c, BaseException):
                e.__cause__ = c
        raise PyRaise(e)

    def x_Try(self, node, env):
        try:
            try:
                self.exec_block(node.body, env)
            except PyRaise as pr:
                exc = pr.exc
                for h in node.handlers:
                    if h.type is None:
                        match = True
                    else:
                        tp = self.eval(h.type, env)
                        match = self._exc_matches(exc, tp)
                    if match:
                        if h.name:
                            env.assign(h.name, exc)
                        if not hasattr(self, "_handling"):
                            self._handling = []
                        self._handling.append(exc)
                        try:
                            self.exec_block(h.body, env)
                        finally:
                            self._handling.pop()
                        break
                else:
                    raise
            else:
                self.exec_block(node.orelse, env)
        finally:
            if node.finalbody:
                self.exec_block(node.finalbody, env)

    def _exc_matches(self, exc, tp):
        if isinstance(exc, SObj):
            cls = self.class_of(exc)
            return issubclass(cls, tp)
        return isinstance(exc, tp)

    def x_With(self, node, env):
        exits = []
        for item in node.items:
            cm = self.eval(item.context_expr, env)
            enter = self.getattr(cm, "__enter__")
            v = self.call(enter)
            exits.append(self.getattr(cm, "__exit__"))
            if item.optional_vars is not None:
                self.assign_target(item.optional_vars, v, env)
        try:
            self.exec_block(node.body, env)
        except PyRaise as pr:
            suppress = False
            for ex in reversed(exits):
                exc = pr.exc
                r = self.call(ex, [type(exc) if not isinstance(exc, SObj) else exc.pycls, exc, None])
                if self.truth(r):
                    suppress = True
            if not suppress:
                raise
        else:
            for ex in reversed(exits):
                self.call(ex, [None, None, None])

    def x_Break(self, node, env):
        raise _Break()

    def x_Continue(self, node, env):
        raise _Continue()

    def _loop_key(self):
        n = self.loop_counter[-1] if self.loop_counter else 0
        if self.loop_counter:
            self.loop_counter[-1] += 1
        return ((self.frames[-1] if self.frames else "<top>"), n)

    def x_For(self, node, env):
        key = self._static_loop_key(node)
        it = self.eval(node.iter, env)
        spec = self.loops.get(key)
        if spec is not None and isinstance(it, SObj):
            it = _seqs_of(self, [it])[0]     # a heap stand-in with __iter__ (an onnx_ir Shape of symbolic rank)
        if spec is not None and isinstance(it, (SSeq, RevSeq, SSet)):
            return self._for_with_invariant(node, env, it, spec, key)
        if isinstance(it, Sym) or isinstance(it, (SDict,)):
            items = self.iterate(it)
        else:
            # concrete iterables: Python's own (live) iterator protocol, so that mutation of the
            # container during the loop behaves as in CPython
            try:
                items = iter(it)
            except Exception as e:
                raise PyRaise(e)
        broke = False
        while True:
            try:
                x = next(items) if not isinstance(items, list) else (items.pop(0) if items else _StopMarker)
            except StopIteration:
                break
            except (PathEnd, Infeasible, Undecided, EngineError, PyRaise):
                raise
            except Exception as e:
                raise PyRaise(e)
            if x is _StopMarker:
                break
            self.assign_target(node.target, x, env)
            try:
                self.exec_block(node.body, env)
            except _Break:
                broke = True
                break
            except _Continue:
                continue
        if not broke:
            self.exec_block(node.orelse, env)

    def x_While(self, node, env):
        key = self._static_loop_key(node)
        spec = self.loops.get(key)
        if spec is not None:
            return self._while_with_invariant(node, env, spec, key)
        n = 0
        while self.truth(self.eval(node.test, env)):
            n += 1
            if n > 200:
                raise Undecided("while loop without invariant exceeded 200 iterations")
            try:
                self.exec_block(node.body, env)
            except _Break:
                return
            except _Continue:
                continue
        self.exec_block(node.orelse, env)

    def _static_loop_key(self, node):
        """(qualname of the enclosing function, ordinal of this loop among the function's own loops)."""
        fn = self.frames[-1] if self.frames else "<top>"
        cache = getattr(self, "_loop_ord", None)
        if cache is None:
            cache = self._loop_ord = {}
        if id(node) not in cache:
            return (fn, self._compute_loop_ordinal(node))
        return (fn, cache[id(node)])

    def _compute_loop_ordinal(self, node):
        # ordinal = index of `node` among For/While nodes of the innermost enclosing function, in source order
        root = self._current_fn_node
        loops = []
        stack = list(reversed(root.body)) if isinstance(root.body, list) else [root.body]
        while stack:
            n = stack.pop()
            if isinstance(n, (ast.FunctionDef, ast.AsyncFunctionDef, ast.Lambda, ast.ClassDef)):
                continue
            if isinstance(n, (ast.For, ast.While)):
                loops.append(n)
            stack.extend(reversed(list(ast.iter_child_nodes(n))))
        loops.sort(key=lambda n: (n.lineno, n.col_offset))
        for i, n in enumerate(loops):
            self._loop_ord[id(n)] = i
        return self._loop_ord.get(id(node), -1)

    # loops with inductive invariants ------------------------------------------------------
    def _check_inv(self, spec, env, k, key, phase, pre=None, it=None):
        ok = True
        # inv_phase tells an invariant whether it is being PROVED ("check": an existential clause may offer witness candidates) or
        # ASSUMED ("assume": the witness is a Skolem term)
        self.inv_phase = "check"
        try:
            goals = spec.inv(self, env, k, pre, it)
        except KeyError as e:
            # the sidecar invariant names a variable this loop does not have (the code's loop structure is not the one the
            # invariant was written for): nothing is decided about this function
            raise Undecided(f"loop invariant of {key} does not fit the loop: no variable {e}")
        finally:
            self.inv_phase = "assume"
        for label, goal in goals:
            name = f"{key[0]}.loop{key[1]}.{phase}.{label}"
            ok &= self.ctx.check(name, goal, "loop invariant " + phase)
        return ok

    def _havoc(self, spec, env):
        for var, maker in spec.havoc.items():
            env.assign(var, maker(self))
        if spec.heap_havoc:
            spec.heap_havoc(self, env)

    def _for_with_invariant(self, node, env, it, spec, key):
        n = it.len if not isinstance(it, SSet) else None
        if n is None:
            raise Undecided("invariant loops over sets not supported")
        pre = spec.snapshot(self, env, it) if spec.snapshot else None
        self._check_inv(spec, env, z3.IntVal(0), key, "init", pre, it)
        mode = self.ctx.choose(2, "loop")
        self._havoc(spec, env)
        if mode == 0:
            k = self.ctx.int("k")
            self.ctx.assume(z3.And(k >= 0, k < n))
            for _label, inv in spec.inv(self, env, k, pre, it):
                self.ctx.assume(inv)
            self.assign_target(node.target, it.at(k), env)
            try:
                self.exec_block(node.body, env)
            except _Continue:
                pass
            except _Break:
                raise Undecided("break inside a loop with invariant")
            self._check_inv(spec, env, k + 1, key, "preserve", pre, it)
            self.ctx.cover(f"{key[0]}.loop{key[1]}.step")
            raise PathEnd()
        for _label, inv in spec.inv(self, env, n, pre, it):
            self.ctx.assume(inv)
        self.exec_block(node.orelse, env)

    def _while_with_invariant(self, node, env, spec, key):
        pre = spec.snapshot(self, env, None) if spec.snapshot else None
        self._check_inv(spec, env, z3.IntVal(0), key, "init", pre)
        mode = self.ctx.choose(2, "loop")
        self._havoc(spec, env)
        k = self.ctx.int("k")
        self.ctx.assume(k >= 0)
        for _label, inv in spec.inv(self, env, k, pre, None):
            self.ctx.assume(inv)
        cond = self.truth(self.eval(node.test, env))
        if mode == 0:
            if not cond:
                raise PathEnd()
            try:
                self.exec_block(node.body, env)
            except _Continue:
                pass
            except _Break:
                raise Undecided("break inside a loop with invariant")
            self._check_inv(spec, env, k + 1, key, "preserve", pre)
            self.ctx.cover(f"{key[0]}.loop{key[1]}.step")
            raise PathEnd()
        if cond:
            raise PathEnd()
        self.exec_block(node.orelse, env)

    # ------------------------------------------------------------------ expressions ---------
    def lookup(self, name, env):
        try:
            return env.lookup(name)
        except KeyError:
            pass
        g = env.fn_globals
        if name in g:
            return g[name]
        b = g.get("__builtins__", builtins)
        if isinstance(b, dict):
            if name in b:
                return b[name]
        elif hasattr(b, name):
            return getattr(b, name)
        if hasattr(builtins, name):
            return getattr(builtins, name)
        raise PyRaise(NameError(f"name '{name}' is not defined"))

    def eval(self, node, env):
        if node is None:
            return None
        m = getattr(self, "e_" + type(node).__name__, None)
        if m is None:
            raise Undecided(f"unsupported expression {type(node).__name__} at line {getattr(node, 'lineno', '?')}")
        return m(node, env)

    def e_Constant(self, node, env):
        return node.value

    def e_Name(self, node, env):
        return self.lookup(node.id, env)

    def e_NamedExpr(self, node, env):
        v = self.eval(node.value, env)
        # walrus binds in the enclosing function scope, not the comprehension scope
        e = env
        while getattr(e, "locals_set", None) == "comp" and e.parent is not None:
            e = e.parent
        e.assign(node.target.id, v)
        return v

    def e_Tuple(self, node, env):
        return tuple(self._elts(node.elts, env))

    def e_List(self, node, env):
        return self._elts(node.elts, env)

    def e_Set(self, node, env):
        items = self._elts(node.elts, env)
        if any(is_sym(x) for x in items):
            return make_set(self, items)
        return set(items)

    def _elts(self, elts, env):
        out = []
        for e in elts:
            if isinstance(e, ast.Starred):
                out.extend(self.iterate(self.eval(e.value, env)))
            else:
                out.append(self.eval(e, env))
        return out

    def e_Dict(self, node, env):
        d = {}
        for k, v in zip(node.keys, node.values):
            if k is None:
                d.update(self.eval(v, env))
            else:
                kk = self.eval(k, env)
                if is_sym(kk):
                    raise Undecided("symbolic dict key in literal")
                d[kk] = self.eval(v, env)
        return d

    def e_BoolOp(self, node, env):
        isand = isinstance(node.op, ast.And)
        if getattr(self, "nofork", False):
            # side-effect-free boolean combination without forking (used for filter conditions over
            # symbolic sequences): all operands must be plain booleans
            vals = [self.eval(e, env) for e in node.values]
            if all(isinstance(v, (bool, SBool)) for v in vals):
                ts = [term(v) for v in vals]
                return wrap(z3.And(*ts) if isand else z3.Or(*ts))
            raise Undecided("non-boolean operand in a filter condition over a symbolic sequence")
        v = None
        for e in node.values:
            v = self.eval(e, env)
            t = self.truth(v)
            if isand and not t:
                return v
            if not isand and t:
                return v
        return v

    def e_UnaryOp(self, node, env):
        v = self.eval(node.operand, env)
        if isinstance(node.op, ast.Not):
            if isinstance(v, SBool):
                return wrap(z3.Not(v.t))
            return not self.truth(v)
        if isinstance(node.op, ast.USub):
            if isinstance(v, (SInt, SReal)):
                return wrap(-v.t)
            if isinstance(v, Sym):
                raise Undecided("unary minus on symbolic non-number")
            return self.native(operator.neg, [v], {})
        if isinstance(node.op, ast.UAdd):
            return v
        if isinstance(node.op, ast.Invert):
            if isinstance(v, SInt):
                return wrap(-v.t - 1)
            if isinstance(v, Sym):
                raise Undecided("~ on symbolic")
            return self.native(operator.invert, [v], {})
        raise Undecided("unary op")

    def e_BinOp(self, node, env):
        a = self.eval(node.left, env)
        b = self.eval(node.right, env)
        return self.binop(type(node.op), a, b)

    def e_Compare(self, node, env):
        left = self.eval(node.left, env)
        result = True
        for op, right_node in zip(node.ops, node.comparators):
            right = self.eval(right_node, env)
            r = self.compare(type(op), left, right)
            if len(node.ops) == 1:
                return r
            if not self.truth(r):
                return False
            left = right
        return result

    def e_IfExp(self, node, env):
        if getattr(self, "nofork", False):
            c = self.eval(node.test, env)
            if isinstance(c, SBool):
                a, b = self.eval(node.body, env), self.eval(node.orelse, env)
                try:
                    return wrap(z3.If(c.t, term(a), term(b)))
                except (TypeError, z3.Z3Exception):
                    raise Undecided("conditional expression over a generic element has non-scalar arms")
            return self.eval(node.body, env) if c else self.eval(node.orelse, env)
        if self.truth(self.eval(node.test, env)):
            return self.eval(node.body, env)
        return self.eval(node.orelse, env)

    def e_Attribute(self, node, env):
        return self.getattr(self.eval(node.value, env), node.attr)

    def e_Subscript(self, node, env):
        return self.subscript(self.eval(node.value, env), self.eval(node.slice, env))

    def e_Slice(self, node, env):
        return slice(self.eval(node.lower, env), self.eval(node.upper, env), self.eval(node.step, env))

    def e_Starred(self, node, env):
        raise Undecided("starred expression outside call/collection")

    def e_Lambda(self, node, env):
        defaults = [self.eval(d, env) for d in node.args.defaults]
        kwdefaults = {a.arg: self.eval(d, env) for a, d in zip(node.args.kwonlyargs, node.args.kw_defaults) if d is not None}
        qn = (self.frames[-1] + "." if self.frames else "") + "<lambda>"
        return Closure(node, env, env.fn_globals, qn, None, defaults, kwdefaults)

    def e_JoinedStr(self, node, env):
        parts = []
        for v in node.values:
            if isinstance(v, ast.Constant):
                parts.append(v.value)
            else:
                parts.append(self.e_FormattedValue(v, env))
        if any(isinstance(p, Sym) for p in parts):
            acc = None
            for p in parts:
                if isinstance(p, Opaque):
                    return Opaque("fstring")
                t = term(p)
                acc = t if acc is None else z3.Concat(acc, t)
            return wrap(acc)
        return "".join(parts)

    def e_FormattedValue(self, node, env):
        v = self.eval(node.value, env)
        if isinstance(v, SStr) and node.conversion in (-1, 115) and node.format_spec is None:
            return v
        if isinstance(v, SInt) and node.conversion in (-1, 115) and node.format_spec is None:
            return SStr(int_to_str(v.t))
        if isinstance(v, Sym) or contains_sym(v):
            return Opaque("format")
        spec = self.eval(node.format_spec, env) if node.format_spec is not None else ""
        try:
            if node.conversion == 114:
                v = repr(v)
            elif node.conversion == 115:
                v = str(v)
            elif node.conversion == 97:
                v = ascii(v)
            return format(v, spec)
        except Exception as e:
            raise PyRaise(e)

    def e_Call(self, node, env):
        fn = self.eval(node.func, env)
        args = []
        for a in node.args:
            if isinstance(a, ast.Starred):
                sv = self.eval(a.value, env)
                if isinstance(sv, SSeq) and not z3.is_int_value(z3.simplify(sv.len)):
                    if a is not node.args[-1]:
                        raise Undecided("a starred argument of symbolic length must be the last positional argument")
                    args.append(StarArgs(sv))   # f(a, *xs): the callee (a closure with *args, or a model) receives the sequence itself
                else:
                    args.extend(self.iterate(sv))
            else:
                args.append(self.eval(a, env))
        kwargs = {}
        for k in node.keywords:
            if k.arg is None:
                d = self.eval(k.value, env)
                if isinstance(d, SMap):
                    # f(**d) with a dict of symbolic keys: handed over as ONE object (the callee must be a model that expects it, or a
                    # closure that only passes its **kwargs on)
                    kwargs["__pyvc_starkw__"] = d
                    continue
                if isinstance(d, Sym):
                    raise Undecided("** of symbolic mapping")
                kwargs.update(d)
            else:
                kwargs[k.arg] = self.eval(k.value, env)
        # super() without arguments
        if fn is builtins.super and not args:
            return self._super(env)
        return self.call(fn, args, kwargs)

    def _super(self, env):
        """zero-argument super(): uses the __class__ cell of the interpreted method and its first parameter."""
        try:
            cls = env.lookup("__class__")
        except KeyError:
            raise Undecided("super() outside a method with a __class__ cell")
        node = self._current_fn_node
        params = [a.arg for a in node.args.posonlyargs + node.args.args]
        if not params:
            raise Undecided("super() in a function without parameters")
        obj = env.lookup(params[0])
        return SuperProxy(cls, obj)

    def e_Yield(self, node, env):
        v = self.eval(node.value, env) if node.value is not None else None
        self.yields.append(v)
        hook = getattr(self, "on_yield", None)
        if hook is not None:
            return hook(self, v)  # may raise PyRaise: an exception thrown into the generator at the yield
        return None

    def e_YieldFrom(self, node, env):
        self.yields.extend(self.iterate(self.eval(node.value, env)))
        return None

    # comprehensions --------------------------------------------------------------------------
    def _comp(self, generators, env, emit):
        def rec(i, e):
            if i == len(generators):
                emit(e)
                return
            g = generators[i]
            for x in self.iterate(self.eval(g.iter, e)):
                self.assign_target(g.target, x, e)
                if all(self.truth(self.eval(c, e)) for c in g.ifs):
                    rec(i + 1, e)
        rec(0, Env(env, env.fn_globals, "comp"))

    def e_ListComp(self, node, env):
        r = self._lazy_comp(node, env)
        if r is not None:
            return r
        r = self._filter_comp(node, env)
        if r is not None:
            return r
        out = []
        self._comp(node.generators, env, lambda e: out.append(self.eval(node.elt, e)))
        return out

    def e_GeneratorExp(self, node, env):
        return self.e_ListComp(node, env)

    def _filter_comp(self, node, env):
        """[f(x) for x in <symbolic-length seq> if c(x)] where c evaluates without forking:
        either no element satisfies c (result empty, assumed for all indices) or some witness does."""
        if len(node.generators) != 1 or not node.generators[0].ifs:
            return None
        g = node.generators[0]
        src = self.eval(g.iter, env)
        if isinstance(src, SObj):
            src = as_seq(self, src)
        if isinstance(src, SSeq) and not z3.is_int_value(z3.simplify(src.len)) and getattr(self, "quant_skolem", False):
            def cond_at(idx, src=src):
                e = Env(env, env.fn_globals, "comp")
                self.assign_target(g.target, src.at(idx), e)
                return all(self.truth(self.eval(c, e)) for c in g.ifs), e

            def elt_at(e):
                return self.eval(node.elt, e)
            return FilteredSeq(src, cond_at, elt_at)
        if not (isinstance(src, SSeq) and not z3.is_int_value(z3.simplify(src.len))):
            self._pre = src
            out = []
            e = Env(env, env.fn_globals, "comp")
            for x in self.iterate(src):
                self.assign_target(g.target, x, e)
                if all(self.truth(self.eval(c, e)) for c in g.ifs):
                    out.append(self.eval(node.elt, e))
            return out
        ctx = self.ctx

        def cond_at(idx):
            e = Env(env, env.fn_globals, "comp")
            self.assign_target(g.target, src.at(idx), e)
            acc = []
            before = len(ctx.trail)
            for c in g.ifs:
                self.nofork = True
                try:
                    v = self.eval(c, e)
                finally:
                    self.nofork = False
                if isinstance(v, bool):
                    acc.append(z3.BoolVal(v))
                elif isinstance(v, SBool):
                    acc.append(v.t)
                else:
                    raise Undecided("filter condition over a symbolic sequence is not a plain boolean")
            if len(ctx.trail) != before:
                raise Undecided("filter condition over a symbolic sequence forks")
            return z3.And(*acc) if len(acc) > 1 else acc[0], e
        if ctx.choose(2, "filter") == 0:
            u = z3.Int(ctx.fresh("u"))
            c, _e = cond_at(u)
            ctx.assume(z3.ForAll([u], z3.Implies(z3.And(u >= 0, u < src.len), z3.Not(c))))
            return []
        w = ctx.int("w")
        ctx.assume(z3.And(w >= 0, w < src.len))
        c, e = cond_at(w)
        ctx.assume(c)
        first = self.eval(node.elt, e)
        n = ctx.int("nfiltered")
        ctx.assume(z3.And(n >= 1, n <= src.len))
        return SSeq(n, lambda i: Opaque("filtered-element"), name="filtered")

    def _lazy_comp(self, node, env):
        """[f(x) for x in <symbolic-length seq>] with a single generator and no filter: lazy map."""
        if len(node.generators) != 1 or node.generators[0].ifs:
            return None
        g = node.generators[0]
        src = self.eval(g.iter, env)
        if isinstance(src, SObj):
            src = as_seq(self, src)
        if isinstance(src, SStr):
            st = src.t

            def getc(i, st=st):
                e = Env(env, env.fn_globals, "comp")
                self.assign_target(g.target, SStr(z3.SubString(st, i, 1)), e)
                prev = getattr(self, "nofork", False)
                self.nofork = True
                try:
                    return self.eval(node.elt, e)
                finally:
                    self.nofork = prev
            r = SSeq(z3.Length(st), getc, name="chars-map")
            r.char_map = True
            return r
        if isinstance(src, SSeq) and not z3.is_int_value(z3.simplify(src.len)):
            def get(i, src=src):
                e = Env(env, env.fn_globals, "comp")
                self.assign_target(g.target, src.at(i), e)
                return self.eval(node.elt, e)
            r = SSeq(src.len, get, name=f"map({src.name})")
            r.mutable = True   # a comprehension builds a fresh list
            return r
        # evaluated already: stash so the caller does not evaluate twice
        self._pre = src
        out = []
        e = Env(env, env.fn_globals, "comp")
        for x in self.iterate(src):
            self.assign_target(g.target, x, e)
            out.append(self.eval(node.elt, e))
        return out

    def e_SetComp(self, node, env):
        out = []
        self._comp(node.generators, env, lambda e: out.append(self.eval(node.elt, e)))
        if any(is_sym(x) for x in out):
            return make_set(self, out)
        return set(out)

    def e_DictComp(self, node, env):
        out = {}

        def emit(e):
            k = self.eval(node.key, e)
            if is_sym(k) and not isinstance(k, SObj):
                raise Undecided("symbolic key in dict comprehension")
            out[k] = self.eval(node.value, e)
        self._comp(node.generators, env, emit)
        return out

    # subscripts ---------------------------------------------------------------------------
    def subscript(self, c, k):
        if isinstance(c, SSeq):
            if isinstance(k, slice):
                return seq_slice(self, c, k)
            kt = term(k)
            neg = self.ctx.branch(kt < 0) if not isinstance(k, int) else k < 0
            idx = (c.len + kt) if neg else kt
            if not self.ctx.branch(z3.And(idx >= 0, idx < c.len)):
                raise PyRaise(IndexError("sequence index out of range"))
            return c.at(z3.simplify(idx))
        if isinstance(c, SObj):
            cls = self.class_of(c)
            try:
                raw = _static_getattr(cls, "__getitem__")
            except AttributeError:
                raise PyRaise(TypeError(f"'{cls.__name__}' object is not subscriptable"))
            return self.call(self._bind_class_attr(raw, c, cls), [k])
        if isinstance(c, (SDict, SMap)):
            return c.getitem(self, k)
        if isinstance(c, SStr):
            if isinstance(k, slice):
                raise Undecided("slice of symbolic string")
            kt = term(k)
            n = z3.Length(c.t)
            idx = kt if not self.ctx.branch(kt < 0) else n + kt
            if not self.ctx.branch(z3.And(idx >= 0, idx < n)):
                raise PyRaise(IndexError("string index out of range"))
            return SStr(z3.SubString(c.t, idx, 1))
        if isinstance(c, Opaque):
            self.ctx.note(f"unmodelled-subscript:{c.why}")
            return Opaque(c.why + "[]")
        if isinstance(c, Sym):
            raise Undecided(f"subscript of {c!r}")
        if contains_sym(k) and not isinstance(c, (list, tuple, dict, str, bytes, range)) and not isinstance(c, type):
            raw = getattr(type(c), "__getitem__", None)
            if isinstance(raw, types.FunctionType):
                return self._call_pyfunc(raw, [c, k], {}, raw)
        if isinstance(k, SInt) and isinstance(c, (list, tuple)):
            n = len(c)
            for i in range(-n, n):
                if self.ctx.branch(k.t == i):
                    return c[i]
            raise PyRaise(IndexError("list index out of range"))
        if isinstance(k, slice) and contains_sym((k.start, k.stop, k.step)):
            raise Undecided("symbolic slice of a concrete sequence")
        if isinstance(c, dict) and _needs_scan(c, k):
            for kk in list(c.keys()):
                r = self.compare(ast.Eq, kk, k)
                if self.truth(r):
                    return c[kk]
            raise PyRaise(KeyError(k))
        if isinstance(k, SObj) and isinstance(c, dict):
            if k in c:
                return c[k]
            raise PyRaise(KeyError(k))
        try:
            return c[k]
        except Exception as e:
            raise PyRaise(e)

    def store_subscript(self, c, k, v):
        if isinstance(c, (SDict, SMap)):
            return c.setitem(self, k, v)
        if isinstance(c, SSeq):
            # xs[i] = v on a symbolic-length list that is known to be unaliased: in place, like CPython
            if not getattr(c, "mutable", False):
                raise Undecided("item assignment on a symbolic sequence that is not known to be an unaliased list")
            if isinstance(k, slice):
                raise Undecided("slice assignment on a symbolic sequence")
            kt = term(k)
            idx = z3.simplify(z3.If(kt < 0, c.len + kt, kt))
            if not self.ctx.branch(z3.And(idx >= 0, idx < c.len)):
                raise PyRaise(IndexError("list assignment index out of range"))
            old_get = c.get

            def get(j, old_get=old_get, idx=idx, v=v):
                if self.ctx.branch(j == idx):
                    return v
                return old_get(j)
            c.get = get
            c._cache = {}
            if not hasattr(c, "stored"):
                c.stored = []
            c.stored.append((idx, v))   # ghost log for invariants
            return None
        if isinstance(c, SObj):
            cls = self.class_of(c)
            raw = _static_getattr(cls, "__setitem__")
            return self.call(self._bind_class_attr(raw, c, cls), [k, v])
        if isinstance(c, Sym):
            raise Undecided(f"subscript store on {c!r}")
        if (is_sym(k) and not isinstance(k, SObj)) or (isinstance(c, dict) and _needs_scan(c, k)):
            if not isinstance(c, dict):
                raise Undecided("store with symbolic index")
            for kk in list(c.keys()):
                if self.truth(self.compare(ast.Eq, kk, k)):
                    c[kk] = v
                    return
            c[k] = v
            return
        try:
            c[k] = v
        except Exception as e:
            raise PyRaise(e)


def _symkey(k):
    if isinstance(k, SObj):
        return False
    if isinstance(k, Sym):
        return True
    if isinstance(k, tuple):
        return any(_symkey(x) for x in k)
    return False


def _needs_scan(c, k):
    return _symkey(k) or any(_symkey(x) for x in c)


def _static_getattr(cls, name):
    for k in cls.__mro__:
        if name in k.__dict__:
            return k.__dict__[name]
    raise AttributeError(name)


# patch run_closure to track the current function node (for loop ordinals)
_orig_run_closure = Interp.run_closure


def _run_closure(self, clo, args, kwargs):
    prev = getattr(self, "_current_fn_node", None)
    self._current_fn_node = clo.node
    try:
        return _orig_run_closure(self, clo, args, kwargs)
    finally:
        self._current_fn_node = prev


Interp.run_closure = _run_closure


_StopMarker = object()


class SuperProxy:
    def __init__(self, cls, obj):
        self.cls = cls
        self.obj = obj


class RevSeq(SSeq):
    pass


class SDict(Sym):
    """A dict with symbolic object keys: z3 arrays key->present and key->value-index (values kept
    python-side for concrete keys).  Used for `self._live_in[stmt] = ...` style maps keyed by
    heap objects: since SObj identity is concrete, a python dict keyed by wrapper identity suffices.
    """

    def __init__(self, name="dict"):
        self.name = name
        self.store = {}
        self.t = None
        self.default = None  # callable(interp, key) -> value for keys never written (lazy unknown map)

    def getitem(self, interp, k):
        key = _dict_key(k)
        if key in self.store:
            return self.store[key][1]
        if self.default is not None:
            v = self.default(interp, k)
            if v is not _MISSING:
                self.store[key] = (k, v)
                return v
        raise PyRaise(KeyError(k))

    def setitem(self, interp, k, v):
        self.store[_dict_key(k)] = (k, v)


class SMap(Sym):
    """A Python dict with SYMBOLIC string keys (unbounded number of entries): z3 arrays key -> present, key -> value.
    Values are scalars of one z3 sort (`mk`: z3 term -> python/symbolic value; `un`: value -> z3 term).  Mutable box, like a
    dict.  Only what the code under contract uses is modelled: d[k] = v, d[k], d.get(k[, default]), k in d."""

    def __init__(self, has, val, mk=None, un=None, name="map", keyfn=None):
        self.has = has
        self.val = val
        self.mk = mk or wrap
        self.un = un or term
        self.name = name
        self.t = None
        self.keyfn = keyfn  # optional: python key object -> z3 term of the array's index sort (None: never present)

    def _key(self, k):
        if self.keyfn is not None:
            return self.keyfn(k)
        if isinstance(k, (str, SStr)):
            return term(k)
        return None  # a key of another type (None, int ...) is never present: only strings are stored

    def getitem(self, interp, k):
        kt = self._key(k)
        if kt is None or not interp.ctx.branch(z3.Select(self.has, kt)):
            raise PyRaise(KeyError(k))
        return self.mk(z3.Select(self.val, kt))

    def setitem(self, interp, k, v):
        kt = self._key(k)
        if kt is None:
            raise Undecided("non-string key stored in a symbolic string-keyed dict")
        self.has = z3.Store(self.has, kt, z3.BoolVal(True))
        self.val = z3.Store(self.val, kt, self.un(v))


def _smap_get(interp, d, k, default=None):
    kt = d._key(k)
    if kt is None:
        return default
    if interp.ctx.branch(z3.Select(d.has, kt)):
        return d.mk(z3.Select(d.val, kt))
    return default


def _smap_update(interp, d, other):
    """d.update(other) for two symbolic maps over the same key / value sorts: other's entries win (pointwise, as z3 lambdas)"""
    if not isinstance(other, SMap):
        if isinstance(other, dict) and not other:
            return None
        raise Undecided("dict.update of a symbolic map with something that is not a symbolic map")
    ks = d.has.sort().domain()
    if other.has.sort().domain() != ks or other.val.sort() != d.val.sort():
        raise Undecided("dict.update of symbolic maps of different sorts")
    x = z3.FreshConst(ks, "key")
    d.has, d.val = (z3.Lambda([x], z3.Or(z3.Select(d.has, x), z3.Select(other.has, x))),
                    z3.Lambda([x], z3.If(z3.Select(other.has, x), z3.Select(other.val, x), z3.Select(d.val, x))))
    return None


def _seq_extend(interp, s, xs):
    """list.extend on an unaliased symbolic-length list with another sequence (symbolic or concrete)"""
    if not getattr(s, "mutable", False):
        raise Undecided("extend of a symbolic sequence that is not known to be an unaliased list")
    if isinstance(xs, (list, tuple)):
        for x in xs:
            _seq_append(interp, s, x)
        return None
    if not isinstance(xs, SSeq):
        raise Undecided("list.extend with an unmodelled iterable")
    old_len, old_get, xs_get, xs_len = s.len, s.get, xs.get, xs.len

    def get(i):
        if interp.ctx.branch(i < old_len):
            return old_get(i)
        return xs_get(z3.simplify(i - old_len))
    s.len = z3.simplify(old_len + xs_len)
    s.get = get
    s._cache = {}
    if not hasattr(s, "extended"):
        s.extended = []
    s.extended.append((old_len, xs_len, xs_get))
    return None


def _smap_contains(interp, d, k):
    kt = d._key(k)
    if kt is None:
        return False
    return wrap(z3.Select(d.has, kt))


def _dict_key(k):
    if isinstance(k, Sym):
        if isinstance(k, SObj):
            return ("obj", id(k))
        raise Undecided(f"symbolic scalar as key of a modelled dict: {k!r}")
    return ("c", k)


def _sdict_get(interp, d, k, default=None):
    key = _dict_key(k)
    if key in d.store:
        return d.store[key][1]
    if d.default is not None:
        v = d.default(interp, k)
        if v is not _MISSING:
            d.store[key] = (k, v)
            return v
    return default


def _sdict_contains(interp, d, k):
    return _dict_key(k) in d.store


def int_to_str(t):
    """str(int) for a z3 Int term: z3's int.to.str is only defined for non-negative ints."""
    return z3.If(t >= 0, z3.IntToStr(t), z3.Concat(z3.StringVal("-"), z3.IntToStr(-t)))


# ---------------------------------------------------------------------------------------------
# symbolic operators
# ---------------------------------------------------------------------------------------------

def pin_identity(interp, obj):
    """Distinct SObj wrappers are distinct heap objects: give the z3 constant of one that enters a formula its
    serial number under the injective ObjId, so two different wrappers can never be equated by the solver."""
    from .values import Obj
    if getattr(obj, "cands", None) is None or obj.pycls is not None:
        f = z3.Function("ObjId", Obj, z3.IntSort())
        interp.ctx.assume(f(obj.ref) == obj.serial)


def make_set(interp, items, elem=None):
    if not items:
        raise EngineError("make_set of nothing needs an element sort")
    first = items[0]
    if isinstance(first, SObj):
        from .values import Obj
        t = z3.EmptySet(Obj)
        for x in items:
            pin_identity(interp, x)
            t = z3.SetAdd(t, x.ref)
        return SSet(t, "obj")
    sort = term(first).sort()
    t = z3.EmptySet(sort)
    for x in items:
        t = z3.SetAdd(t, term(x))
    return SSet(t, "str" if sort == StrSort else "int")


def to_sset(interp, v, like):
    """Coerce a value to an SSet with the element sort of `like`."""
    if isinstance(v, SSet):
        return v
    sort = like.t.sort().domain()
    if isinstance(v, (set, frozenset, list, tuple)):
        t = z3.EmptySet(sort)
        for x in v:
            t = z3.SetAdd(t, term(x))
        return SSet(t, like.elem)
    if isinstance(v, SSeq):
        j = z3.Int("j!set")
        x = z3.Const("x!set", sort)
        el = v.at(j)
        s = interp.ctx.const("setof", z3.SetSort(sort))
        interp.ctx.assume(z3.ForAll([x], z3.IsMember(x, s) == z3.Exists([j], z3.And(j >= 0, j < v.len, term(el) == x))))
        return SSet(s, like.elem)
    raise Undecided(f"cannot coerce {v!r} to a set")


def sym_binop(interp, op, a, b):
    if isinstance(a, Opaque) or isinstance(b, Opaque):
        interp.ctx.note("unmodelled-operand")
        return Opaque("binop")
    if isinstance(a, SSet) or isinstance(b, SSet):
        like = a if isinstance(a, SSet) else b
        if not isinstance(a, (SSet, set, frozenset)) or not isinstance(b, (SSet, set, frozenset)):
            raise PyRaise(TypeError("unsupported operand type(s) for set operator"))
        x, y = to_sset(interp, a, like), to_sset(interp, b, like)
        if op is ast.BitOr:
            return SSet(z3.SetUnion(x.t, y.t), like.elem)
        if op is ast.BitAnd:
            return SSet(z3.SetIntersect(x.t, y.t), like.elem)
        if op is ast.Sub:
            return SSet(z3.SetDifference(x.t, y.t), like.elem)
        if op is ast.BitXor:
            return SSet(z3.SetUnion(z3.SetDifference(x.t, y.t), z3.SetDifference(y.t, x.t)), like.elem)
        raise Undecided("set operator")
    num = (SInt, SReal, int, float, bool)
    if isinstance(a, num) and isinstance(b, num) and not isinstance(a, SBool) and not isinstance(b, SBool):
        x, y = term(a if not isinstance(a, bool) else int(a)), term(b if not isinstance(b, bool) else int(b))
        real = x.sort() == z3.RealSort() or y.sort() == z3.RealSort()
        if real:
            x = z3.ToReal(x) if x.sort() == z3.IntSort() else x
            y = z3.ToReal(y) if y.sort() == z3.IntSort() else y
        if op is ast.Add:
            return wrap(x + y)
        if op is ast.Sub:
            return wrap(x - y)
        if op is ast.Mult:
            return wrap(x * y)
        if op is ast.Div:
            if interp.ctx.branch(y == 0):
                raise PyRaise(ZeroDivisionError("division by zero"))
            if not real:
                x, y = z3.ToReal(x), z3.ToReal(y)
            return wrap(x / y)
        if op in (ast.FloorDiv, ast.Mod) and not real:
            if interp.ctx.branch(y == 0):
                raise PyRaise(ZeroDivisionError("integer division or modulo by zero"))
            # Python floor semantics from z3's Euclidean div/mod
            fq = floor_div(x, y)
            if op is ast.FloorDiv:
                return wrap(fq)
            return wrap(x - y * fq)
        if op is ast.Pow and not real and isinstance(b, int) and 0 <= b <= 4:
            r = z3.IntVal(1)
            for _ in range(b):
                r = r * x
            return wrap(r)
        raise Undecided(f"numeric operator {op.__name__} on symbolic values")
    if isinstance(a, (SStr, str)) and isinstance(b, (SStr, str)):
        if op is ast.Add:
            return wrap(z3.Concat(term(a), term(b)))
        raise Undecided("string operator")
    if isinstance(a, (SBool, bool)) and isinstance(b, (SBool, bool)):
        if op is ast.BitAnd:
            return wrap(z3.And(term(a), term(b)))
        if op is ast.BitOr:
            return wrap(z3.Or(term(a), term(b)))
        if op is ast.BitXor:
            return wrap(z3.Xor(term(a), term(b)))
    if isinstance(a, (list, tuple)) and isinstance(b, (list, tuple)) and op is ast.Add:
        return a + b
    if isinstance(a, (list, tuple)) and isinstance(b, int) and op is ast.Mult:
        return a * b
    if isinstance(a, (SSeq, list, tuple)) and isinstance(b, (SSeq, list, tuple)) and op is ast.Add:
        return seq_concat(interp, a, b)
    if isinstance(a, (list, tuple)) and len(a) == 1 and isinstance(b, SInt) and op is ast.Mult:
        # [c] * n with symbolic n: n copies of c (none when n <= 0)
        return SSeq(z3.simplify(z3.If(b.t > 0, b.t, 0)), lambda i, c=a[0]: c, name="repeat")
    if isinstance(a, str) and op is ast.Mod:
        return Opaque("%-format")
    raise Undecided(f"operator {op.__name__} on {type(a).__name__}, {type(b).__name__}")


def floor_div(x, y):
    """Python's x // y on z3 Ints (z3 `/` on Ints is Euclidean division: remainder >= 0)."""
    ed = x / y
    em = x % y
    # Euclidean: x = y*ed + em, 0 <= em < |y|.  Floor: remainder has the sign of y.
    return z3.If(y > 0, ed, z3.If(em == 0, ed, ed - 1))


def as_seq(interp, v):
    if isinstance(v, SSeq):
        return v
    if isinstance(v, SObj):
        cls = interp.class_of(v)
        try:
            raw = _static_getattr(cls, "__iter__")
        except AttributeError:
            raise Undecided(f"iteration over {v!r}")
        r = interp.call(interp._bind_class_attr(raw, v, cls))
        if isinstance(r, SSeq):
            return r
        v = r
    items = list(v)
    return SSeq(z3.IntVal(len(items)), lambda i, items=items: _pick(interp, items, i), name="lit")


def _pick(interp, items, i):
    i = z3.simplify(i)
    if z3.is_int_value(i):
        return items[i.as_long()]
    if not items:
        raise Infeasible()
    # build an ite chain when all items have terms of one sort
    try:
        ts = [term(x) for x in items]
        acc = ts[-1]
        for j in range(len(ts) - 2, -1, -1):
            acc = z3.If(i == j, ts[j], acc)
        return wrap(acc)
    except TypeError:
        for j, x in enumerate(items):
            if interp.ctx.branch(i == j):
                return x
        raise Infeasible()


def seq_concat(interp, a, b):
    a, b = as_seq(interp, a), as_seq(interp, b)

    def get(i):
        if interp.ctx.branch(i < a.len):
            return a.at(i)
        return b.at(z3.simplify(i - a.len))
    return SSeq(z3.simplify(a.len + b.len), get, name=f"({a.name}+{b.name})")


def seq_slice(interp, c, k):
    if k.step not in (None, 1):
        raise Undecided("stepped slice of symbolic sequence")

    def norm(v, default):
        if v is None:
            return default
        t = term(v)
        t = z3.If(t < 0, z3.If(t + c.len < 0, 0, t + c.len), z3.If(t > c.len, c.len, t))
        return t
    lo = norm(k.start, z3.IntVal(0))
    hi = norm(k.stop, c.len)
    n = z3.simplify(z3.If(hi > lo, hi - lo, 0))
    lo = z3.simplify(lo)
    return SSeq(n, lambda i: c.at(z3.simplify(lo + i)), name=f"{c.name}[:]")


def sym_compare(interp, op, a, b):
    if isinstance(a, Opaque) or isinstance(b, Opaque):
        o = a if isinstance(a, Opaque) else b
        interp.ctx.note(f"unmodelled-compare:{o.why}")
        return interp.ctx.choose(2, "opaque-cmp") == 0
    if op in (ast.Eq, ast.NotEq):
        r = sym_eq(interp, a, b)
        if op is ast.NotEq:
            return (not r) if isinstance(r, bool) else wrap(z3.Not(r.t))
        return r
    if isinstance(a, (SSet, set, frozenset)) and isinstance(b, (SSet, set, frozenset)):
        like = a if isinstance(a, SSet) else b
        x, y = to_sset(interp, a, like), to_sset(interp, b, like)
        if op is ast.LtE:
            return wrap(z3.IsSubset(x.t, y.t))
        if op is ast.GtE:
            return wrap(z3.IsSubset(y.t, x.t))
        if op is ast.Lt:
            return wrap(z3.And(z3.IsSubset(x.t, y.t), x.t != y.t))
        if op is ast.Gt:
            return wrap(z3.And(z3.IsSubset(y.t, x.t), x.t != y.t))
    if isinstance(a, (SInt, SReal, SBool, int, float)) and isinstance(b, (SInt, SReal, SBool, int, float)):
        x, y = term(a if not isinstance(a, bool) else int(a)), term(b if not isinstance(b, bool) else int(b))
        if x.sort() == z3.BoolSort():
            x = z3.If(x, 1, 0)
        if y.sort() == z3.BoolSort():
            y = z3.If(y, 1, 0)
        if x.sort() != y.sort():
            x = z3.ToReal(x) if x.sort() == z3.IntSort() else x
            y = z3.ToReal(y) if y.sort() == z3.IntSort() else y
        f = {ast.Lt: operator.lt, ast.LtE: operator.le, ast.Gt: operator.gt, ast.GtE: operator.ge}[op]
        return wrap(f(x, y))
    if isinstance(a, (SStr, str)) and isinstance(b, (SStr, str)):
        x, y = term(a), term(b)
        if op is ast.Lt:
            return wrap(x < y)
        if op is ast.LtE:
            return wrap(x <= y)
        if op is ast.Gt:
            return wrap(y < x)
        if op is ast.GtE:
            return wrap(y <= x)
    raise Undecided(f"comparison {op.__name__} on {a!r}, {b!r}")


def sym_eq(interp, a, b):
    """Python == on mixed values -> bool | SBool."""
    if a is b:
        return True
    if not contains_sym(a) and not contains_sym(b):
        return interp.native(operator.eq, [a, b], {})
    if isinstance(a, SObj) or isinstance(b, SObj):
        o = a if isinstance(a, SObj) else b
        cls = interp.class_of(o)
        try:
            raw = _static_getattr(cls, "__eq__")
        except AttributeError:
            raw = object.__eq__
        if raw is object.__eq__ or isinstance(raw, type(object.__eq__)):
            return False  # identity semantics, and a is not b
        other = b if o is a else a
        r = interp.call(interp._bind_class_attr(raw, o, cls), [other])
        if r is NotImplemented:
            return False
        return r
    if a is None or b is None:
        return False if (isinstance(a, Sym) or isinstance(b, Sym)) else a == b
    if isinstance(a, (SSet, set, frozenset)) and isinstance(b, (SSet, set, frozenset)):
        like = a if isinstance(a, SSet) else b
        x, y = to_sset(interp, a, like), to_sset(interp, b, like)
        return wrap(x.t == y.t)
    if isinstance(a, SFloat) or isinstance(b, SFloat):
        return _fp_eq(interp, a, b)
    scal = (SInt, SReal, SBool, int, float, bool)
    if isinstance(a, scal) and isinstance(b, scal):
        x = term(int(a) if isinstance(a, bool) and not isinstance(b, (SBool, bool)) else a)
        y = term(int(b) if isinstance(b, bool) and not isinstance(a, (SBool, bool)) else b)
        if x.sort() == z3.BoolSort() and y.sort() != z3.BoolSort():
            x = z3.If(x, 1, 0)
        if y.sort() == z3.BoolSort() and x.sort() != z3.BoolSort():
            y = z3.If(y, 1, 0)
        if x.sort() != y.sort():
            x = z3.ToReal(x) if x.sort() == z3.IntSort() else x
            y = z3.ToReal(y) if y.sort() == z3.IntSort() else y
        return wrap(x == y)
    if isinstance(a, (SStr, str)) and isinstance(b, (SStr, str)):
        return wrap(term(a) == term(b))
    # values of unrelated Python types are never equal: str vs number, scalar vs sequence, ...
    kinds = ((SStr, str), (SInt, SReal, SBool, SFloat, int, float, bool), (list, tuple, SSeq), (dict, SDict))
    ka = [i for i, k in enumerate(kinds) if isinstance(a, k)]
    kb = [i for i, k in enumerate(kinds) if isinstance(b, k)]
    if ka and kb and ka[0] != kb[0]:
        return False
    if isinstance(a, (list, tuple)) and isinstance(b, (list, tuple)):
        if type(a) is not type(b) and not (isinstance(a, (list, tuple)) and isinstance(b, type(a))):
            if isinstance(a, list) != isinstance(b, list):
                return False
        if len(a) != len(b):
            return False
        acc = True
        for x, y in zip(a, b):
            r = sym_eq(interp, x, y)
            if r is False:
                return False
            if r is True:
                continue
            acc = r if acc is True else wrap(z3.And(acc.t, r.t))
        return acc
    if isinstance(a, (SSeq, list, tuple)) and isinstance(b, (SSeq, list, tuple)):
        x, y = as_seq(interp, a), as_seq(interp, b)
        if getattr(interp, "quant_skolem", False):
            # Skolem mode (elements may be objects whose == forks): equal lengths; either every pair of elements is equal
            # (recorded, to be used at the index terms the scenario needs: instantiate_forall) or the sequences differ
            # (nothing assumed about where: assuming less is sound)
            if not interp.ctx.branch(x.len == y.len):
                return False
            if interp.ctx.choose(2, "sequence ==") == 0:
                interp.forall_facts = getattr(interp, "forall_facts", [])
                interp.forall_facts.append((SSeq(x.len, lambda i: sym_eq(interp, x.at(i), y.at(i)), name="=="), True))
                return True
            return False
        j = z3.Int("j!eq")
        try:
            body = term(x.at(j)) == term(y.at(j))
        except TypeError:
            raise Undecided("== on sequences of non-scalar symbolic elements")
        return wrap(z3.And(x.len == y.len, z3.ForAll([j], z3.Implies(z3.And(j >= 0, j < x.len), body))))
    # different kinds (str vs int, ...) are never equal
    if isinstance(a, Sym) and isinstance(b, Sym) and type(a) is not type(b):
        return False
    if isinstance(a, Sym) != isinstance(b, Sym):
        c, s = (b, a) if isinstance(a, Sym) else (a, b)
        kinds = {SInt: (int, float), SReal: (int, float), SBool: (bool, int), SStr: (str,), SSet: (set, frozenset), SSeq: (list, tuple)}
        if not isinstance(c, kinds.get(type(s), ())):
            return False
    raise Undecided(f"== on {a!r}, {b!r}")


def _fp_eq(interp, a, b):
    """Python == where at least one side is an IEEE double.  int/bool vs float compare exactly."""
    def as_fp_or_int(v):
        if isinstance(v, SFloat):
            return "fp", v.t
        if isinstance(v, float):
            return "fp", z3.FPVal(v, FP64)
        if isinstance(v, (bool, SBool)):
            t = term(v)
            return "int", z3.If(t, z3.IntVal(1), z3.IntVal(0))
        if isinstance(v, (int, SInt)):
            return "int", term(v)
        return None, None
    ka, ta = as_fp_or_int(a)
    kb, tb = as_fp_or_int(b)
    if ka is None or kb is None:
        return False
    if ka == "fp" and kb == "fp":
        return wrap(z3.fpEQ(ta, tb))
    f, i = (ta, tb) if ka == "fp" else (tb, ta)
    finite = z3.Not(z3.Or(z3.fpIsNaN(f), z3.fpIsInf(f)))
    return wrap(z3.And(finite, z3.fpToReal(f) == z3.ToReal(i)))


# ---------------------------------------------------------------------------------------------
# modelled builtins
# ---------------------------------------------------------------------------------------------

def _m_isinstance(interp, v, cls):
    v = interp.resolve(v)
    if not isinstance(v, Sym):
        claims = getattr(type(v), "_pyvc_claims", None)
        if claims:
            cs = cls if isinstance(cls, tuple) else (cls,)
            if any(c in claims for c in cs):
                return True
        return isinstance(v, cls)
    if isinstance(cls, tuple):
        return any(_m_isinstance(interp, v, c) for c in cls)
    if isinstance(v, SObj):
        return issubclass(interp.class_of(v), cls)
    import collections.abc as cabc
    table = {SInt: (int,), SBool: (bool, int), SReal: (float,), SFloat: (float,), SStr: (str,), SSet: (set,),
             SSeq: (list,), SDict: (dict,)}
    if isinstance(v, Opaque):
        interp.ctx.note(f"unmodelled-isinstance:{v.why}")
        return interp.ctx.choose(2, "opaque-isinstance") == 0
    base = table.get(type(v))
    if isinstance(v, SSeq) and getattr(v, "pytype", None):
        base = (v.pytype,)
    if base is None:
        raise Undecided(f"isinstance of {v!r}")
    try:
        return any(issubclass(b, cls) for b in base)
    except TypeError:
        raise Undecided(f"isinstance against {cls!r}")


def _m_len(interp, v):
    if isinstance(v, SSeq):
        return wrap(v.len)
    if isinstance(v, SStr):
        return wrap(z3.Length(v.t))
    if isinstance(v, SDict):
        return len(v.store)
    if isinstance(v, SObj):
        cls = interp.class_of(v)
        raw = _static_getattr(cls, "__len__")
        return interp.call(interp._bind_class_attr(raw, v, cls))
    if isinstance(v, SSet):
        raise Undecided("len of symbolic set")
    if isinstance(v, Sym):
        raise Undecided(f"len of {v!r}")
    return interp.native(len, [v], {})


def _slice_indices_model(interp, sl, length):
    """slice.indices(len) as CPython's PySlice_AdjustIndices computes it (Objects/sliceobject.c), for symbolic components."""
    n = term(length)
    if sl.step is None:
        step = z3.IntVal(1)
    else:
        step = term(sl.step)
        if interp.truth(wrap(step == 0)):
            raise PyRaise(ValueError("slice step cannot be zero"))
    neg = step < 0
    lower = z3.If(neg, z3.IntVal(-1), z3.IntVal(0))
    upper = z3.If(neg, n - 1, n)

    def adj(v, default):
        if v is None:
            return default
        t = term(v)
        return z3.If(t < 0, z3.If(t + n < lower, lower, t + n), z3.If(t > upper, upper, t))
    start = adj(sl.start, z3.If(neg, upper, lower))
    stop = adj(sl.stop, z3.If(neg, lower, upper))
    return (SInt(z3.simplify(start)), SInt(z3.simplify(stop)), SInt(z3.simplify(step)))


def _m_set(interp, v=None):
    if v is None:
        return set()
    if isinstance(v, SSet):
        return SSet(v.t, v.elem)
    if isinstance(v, SSeq):
        first = v.at(z3.Int("j!probe"))
        like = SSet(z3.EmptySet(term(first).sort()), "str")
        return to_sset(interp, v, like)
    items = interp.iterate(v)
    if any(is_sym(x) for x in items):
        return make_set(interp, items)
    return interp.native(set, [items], {})


def _m_list(interp, v=None):
    if v is None:
        return []
    if isinstance(v, SSeq) and not z3.is_int_value(z3.simplify(v.len)):
        # list(xs) is a NEW list: a mutable copy (append / pop on it never touch xs)
        c = SSeq(v.len, v.get, name=f"list({v.name})")
        c.mutable = True
        return c
    return list(interp.iterate(v))


def _m_tuple(interp, v=None):
    if v is None:
        return ()
    if isinstance(v, SSeq) and not z3.is_int_value(z3.simplify(v.len)):
        return v
    return tuple(interp.iterate(v))


def _m_reversed(interp, v):
    if isinstance(v, SSeq) and not z3.is_int_value(z3.simplify(v.len)):
        n = v.len
        return RevSeq(n, lambda i: v.at(z3.simplify(n - 1 - i)), name=f"reversed({v.name})")
    return list(reversed(interp.iterate(v)))


def _m_bool(interp, v=False):
    if isinstance(v, SBool):
        return v
    return interp.truth(v)


def _m_int(interp, v=0, *rest):
    if isinstance(v, SInt):
        return v
    if isinstance(v, SBool):
        return wrap(z3.If(v.t, 1, 0))
    if isinstance(v, SReal):
        t = v.t
        return wrap(z3.If(t >= 0, z3.ToInt(t), -z3.ToInt(-t)))
    if isinstance(v, Sym):
        raise Undecided(f"int() of {v!r}")
    return interp.native(int, [v] + list(rest), {})


def _m_str(interp, v=""):
    if isinstance(v, SStr):
        return v
    if isinstance(v, SInt):
        return SStr(int_to_str(v.t))
    if isinstance(v, Sym):
        return Opaque("str()")
    return interp.native(str, [v], {})


def _m_range(interp, *args):
    if not any(is_sym(a) for a in args):
        return interp.native(range, list(args), {})
    if len(args) == 1:
        lo, hi = z3.IntVal(0), term(args[0])
    elif len(args) == 2:
        lo, hi = term(args[0]), term(args[1])
    else:
        raise Undecided("symbolic range with step")
    n = z3.simplify(z3.If(hi > lo, hi - lo, 0))
    return SSeq(n, lambda i: wrap(lo + i), name="range")


def _m_enumerate(interp, v, start=0):
    v = _seqs_of(interp, [v])[0]
    if isinstance(v, SSeq) and not z3.is_int_value(z3.simplify(v.len)):
        return SSeq(v.len, lambda i: (wrap(i + start), v.at(i)), name=f"enumerate({v.name})")
    return [(i + start, x) for i, x in enumerate(interp.iterate(v))]


def _seqs_of(interp, seqs):
    """heap stand-ins with __iter__ (an onnx_ir Shape of symbolic rank) take part in zip / enumerate as their element sequence"""
    out = []
    for q in seqs:
        if isinstance(q, SObj):
            try:
                q = as_seq(interp, q)
            except Undecided:
                pass
        out.append(q)
    return out


def _m_zip(interp, *seqs, strict=False):
    seqs = _seqs_of(interp, seqs)
    if any(isinstance(s, SSeq) and not z3.is_int_value(z3.simplify(s.len)) for s in seqs):
        ss = [as_seq(interp, s) for s in seqs]
        n = ss[0].len
        for s in ss[1:]:
            n = z3.If(s.len < n, s.len, n)
        return SSeq(z3.simplify(n), lambda i: tuple(s.at(i) for s in ss), name="zip")
    lists = [interp.iterate(s) for s in seqs]
    if strict and len({len(x) for x in lists}) > 1:
        raise PyRaise(ValueError("zip() arguments have different lengths"))
    return list(zip(*lists))


def _quant_over(interp, v, want_all):
    """all()/any() over a (possibly lazy) sequence of booleans."""
    if isinstance(v, FilteredSeq):
        ctx = interp.ctx
        if (ctx.choose(2, "quant") == 0) == want_all:
            # universal case: nothing assumed, the fact is used at the index terms the scenario chooses (instantiate_forall)
            interp.forall_facts = getattr(interp, "forall_facts", [])
            interp.forall_facts.append((v, want_all))
            return want_all
        w = ctx.int("w")
        ctx.assume(z3.And(w >= 0, w < v.src.len))
        passes, e = v.cond_at(w)
        if not passes:
            raise Infeasible()
        if interp.truth(v.elt_at(e)) == want_all:
            raise Infeasible()
        interp.quant_witnesses = getattr(interp, "quant_witnesses", [])
        interp.quant_witnesses.append(w)
        return not want_all
    if isinstance(v, SSeq) and not z3.is_int_value(z3.simplify(v.len)):
        ctx = interp.ctx
        # decide by forking: either some witness index makes it false/true, or every element holds
        b = ctx.choose(2, "quant")
        j = ctx.int("w")
        if (b == 0) == want_all and getattr(interp, "quant_skolem", False):
            # universal case, Skolem mode: the element function may fork (e.g. on the kind of a dim), which must not
            # happen on a bound variable.  Nothing is assumed here (assuming less is sound); the scenario instantiates
            # the recorded fact at the index terms it needs: `interp.instantiate_forall(index)`.
            interp.forall_facts = getattr(interp, "forall_facts", [])
            interp.forall_facts.append((v, want_all))
            return want_all
        if (b == 0) == want_all:
            # universal case: for an arbitrary index the element is (want_all ? true : false)
            # recorded as a quantified assumption evaluated lazily through a fresh universally
            # quantified index: we instantiate at use sites by `forall_facts`.
            interp.forall_facts = getattr(interp, "forall_facts", [])
            interp.forall_facts.append((v, want_all))
            jj = z3.Int(ctx.fresh("u"))
            el = v.at(jj)
            body = term(el) if want_all else z3.Not(term(el))
            ctx.assume(z3.ForAll([jj], z3.Implies(z3.And(jj >= 0, jj < v.len), body)))
            return want_all
        ctx.assume(z3.And(j >= 0, j < v.len))
        el = v.at(j)
        t = interp.truth(el)
        if t == want_all:
            raise Infeasible()
        return not want_all
    for x in interp.iterate(v):
        t = interp.truth(x)
        if want_all and not t:
            return False
        if not want_all and t:
            return True
    return want_all


def _m_all(interp, v):
    return _quant_over(interp, v, True)


def _m_any(interp, v):
    return _quant_over(interp, v, False)


def _m_minmax(is_min):
    def f(interp, *args, key=None, default=_MISSING):
        items = interp.iterate(args[0]) if len(args) == 1 else list(args)
        if not items:
            if default is not _MISSING:
                return default
            raise PyRaise(ValueError("min()/max() arg is an empty sequence"))
        if key is not None or not any(is_sym(x) for x in items):
            if any(contains_sym(x) for x in items):
                raise Undecided("min/max with key over symbolic")
            return interp.native(min if is_min else max, [items], {} if key is None else {"key": key})
        acc = term(items[0])
        for x in items[1:]:
            t = term(x)
            acc = z3.If((t < acc) if is_min else (t > acc), t, acc)
        return wrap(acc)
    return f


def _m_sum(interp, v, start=0):
    acc = start
    for x in interp.iterate(v):
        acc = interp.binop(ast.Add, acc, x)
    return acc


def _m_abs(interp, v):
    if isinstance(v, (SInt, SReal)):
        return wrap(z3.If(v.t >= 0, v.t, -v.t))
    return interp.native(abs, [v], {})


def _m_sorted(interp, v, key=None, reverse=False):
    if isinstance(v, (set, frozenset)) and key is None and (all(type(x) is str for x in v) or all(type(x) is int for x in v)):
        return sorted(v, reverse=bool(reverse))  # a total order on distinct elements: the result does not depend on the iteration order
    items = interp.iterate(v)
    if contains_sym(items):
        # a short list of numbers: insertion sort, forking on each comparison (every order is explored)
        num = (SInt, SReal, int, float)
        if key is None and len(items) <= 4 and all(isinstance(x, num) and not isinstance(x, bool) for x in items):
            out = []
            for x in items:
                i = len(out)
                while i > 0 and interp.truth(interp.compare(ast.Lt, x, out[i - 1])):
                    i -= 1
                out.insert(i, x)
            return out[::-1] if reverse else out
        raise Undecided("sorted over symbolic values")
    return interp.native(sorted, [items], {"key": key, "reverse": reverse})


def _m_getattr(interp, o, name, default=_MISSING):
    try:
        return interp.getattr(o, name)
    except PyRaise as e:
        if default is not _MISSING and isinstance(e.exc, AttributeError):
            return default
        raise


def _m_hasattr(interp, o, name):
    try:
        interp.getattr(o, name)
        return True
    except PyRaise as e:
        if isinstance(e.exc, AttributeError):
            return False
        raise


def _m_type(interp, v, *rest):
    if rest:
        return interp.native(type, [v] + list(rest), {})
    if isinstance(v, SObj):
        return interp.class_of(v)
    table = {SInt: int, SBool: bool, SReal: float, SFloat: float, SStr: str, SSet: set, SSeq: list}
    if isinstance(v, Sym):
        if type(v) in table:
            return table[type(v)]
        raise Undecided(f"type() of {v!r}")
    return type(v)


def _m_id(interp, v):
    return id(v)


def _m_map(interp, f, *seqs):
    lists = [interp.iterate(s) for s in seqs]
    return [interp.call(f, list(xs)) for xs in zip(*lists)]


def _m_filter(interp, f, seq):
    return [x for x in interp.iterate(seq) if interp.truth(interp.call(f, [x]) if f is not None else x)]


def _m_dict(interp, *args, **kw):
    if args and isinstance(args[0], SDict):
        d = SDict(args[0].name + "'")
        d.store = dict(args[0].store)
        d.default = args[0].default
        return d
    return interp.native(dict, list(args), kw)


def _m_callable(interp, v):
    return isinstance(v, (Closure, BoundModel)) or callable(v)


def _m_float(interp, v=0.0):
    if isinstance(v, SReal):
        return v
    if isinstance(v, SInt):
        return SReal(z3.ToReal(v.t))
    if isinstance(v, Sym):
        raise Undecided("float() of symbolic")
    return interp.native(float, [v], {})


def _m_copysign(interp, x, y):
    import math
    if isinstance(y, SFloat):
        mag = x if not isinstance(x, Sym) else None
        if mag is None:
            raise Undecided("copysign with symbolic magnitude")
        neg = z3.fpIsNegative(y.t)
        return SFloat(z3.If(neg, z3.FPVal(-abs(float(mag)), FP64), z3.FPVal(abs(float(mag)), FP64)))
    if isinstance(x, Sym) or isinstance(y, Sym):
        raise Undecided("copysign on symbolic non-IEEE value")
    return interp.native(math.copysign, [x, y], {})


def _m_chain_from_iterable(interp, its):
    out = []
    for it in interp.iterate(its):
        out.extend(interp.iterate(it))
    return out


def _m_chain(interp, *its):
    out = []
    for it in its:
        out.extend(interp.iterate(it))
    return out


def _m_isnan(interp, x):
    import math
    if isinstance(x, SFloat):
        return SBool(z3.fpIsNaN(x.t))
    if isinstance(x, (SInt, SReal, SBool)):
        return False
    if isinstance(x, Sym):
        raise Undecided("math.isnan of a symbolic value of unknown kind")
    return interp.native(math.isnan, [x], {})


def _m_isinf(interp, x):
    import math
    if isinstance(x, SFloat):
        return SBool(z3.fpIsInf(x.t))
    if isinstance(x, (SInt, SReal, SBool)):
        return False
    if isinstance(x, Sym):
        raise Undecided("math.isinf of a symbolic value of unknown kind")
    return interp.native(math.isinf, [x], {})


import math as _math

def _m_object_setattr(interp, obj, name, value):
    if isinstance(obj, SObj):
        if not isinstance(name, str):
            # attribute with a symbolic name: kept aside (only reachable again through a symbolic getattr)
            obj.fields.setdefault("__symbolic_attrs__", []).append((name, value))
            return None
        obj.fields[name] = value
        return None
    return interp.native(object.__setattr__, [obj, name, value], {})


def _m_iter(interp, v, *a):
    if a:
        return interp.native(iter, [v] + list(a), {})
    if isinstance(v, SSeq) and not z3.is_int_value(z3.simplify(v.len)):
        return v
    return list(interp.iterate(v))


def _m_product(interp, *its, **k):
    """itertools.product materialises every argument before yielding: a list of tuples is the same sequence"""
    import itertools as _it
    if k:
        raise Undecided("itertools.product(repeat=...)")
    return list(_it.product(*[list(interp.iterate(x)) for x in its]))


def _m_zip_longest(interp, *its, fillvalue=None):
    import itertools as _it
    if any(isinstance(x, SSeq) and not z3.is_int_value(z3.simplify(x.len)) for x in its):
        ss = [as_seq(interp, x) for x in its]
        n = ss[0].len
        for q in ss[1:]:
            n = z3.If(q.len > n, q.len, n)

        def get(i):
            return tuple((q.at(i) if interp.ctx.branch(i < q.len) else fillvalue) for q in ss)
        return SSeq(z3.simplify(n), get, name="zip_longest")
    return list(_it.zip_longest(*[list(interp.iterate(x)) for x in its], fillvalue=fillvalue))


import itertools as _itertools

def _m_dict_fromkeys(interp, keys, value=None):
    """dict.fromkeys(iterable, value): keys may be heap stand-ins (hashed by identity, like the real objects)"""
    out = {}
    for k in interp.iterate(keys):
        if is_sym(k) and not isinstance(k, SObj):
            raise Undecided("symbolic scalar key in dict.fromkeys")
        out[k] = value
    return out


DEFAULT_MODELS = {
    dict.fromkeys: _m_dict_fromkeys,
    _itertools.product: _m_product, _itertools.zip_longest: _m_zip_longest,
    _itertools.chain.from_iterable: _m_chain_from_iterable, _itertools.chain: _m_chain,
    iter: _m_iter,
    object.__setattr__: _m_object_setattr,
    _math.copysign: _m_copysign, _math.isnan: _m_isnan, _math.isinf: _m_isinf,
    isinstance: _m_isinstance, len: _m_len, set: _m_set, list: _m_list, tuple: _m_tuple,
    reversed: _m_reversed, bool: _m_bool, int: _m_int, str: _m_str, range: _m_range,
    enumerate: _m_enumerate, zip: _m_zip, all: _m_all, any: _m_any, min: _m_minmax(True),
    max: _m_minmax(False), sum: _m_sum, abs: _m_abs, sorted: _m_sorted, getattr: _m_getattr,
    hasattr: _m_hasattr, type: _m_type, id: _m_id, map: _m_map, filter: _m_filter, dict: _m_dict,
    callable: _m_callable, float: _m_float,
}


# ---------------------------------------------------------------------------------------------
# modelled methods of symbolic values
# ---------------------------------------------------------------------------------------------

def _set_arg(interp, s, other):
    if isinstance(other, (SSet, set, frozenset, list, tuple, SSeq)):
        return to_sset(interp, other, s)
    raise Undecided(f"set method argument {other!r}")


def _set_difference(interp, s, *others):
    t = s.t
    for o in others:
        t = z3.SetDifference(t, _set_arg(interp, s, o).t)
    return SSet(t, s.elem)


def _set_union(interp, s, *others):
    t = s.t
    for o in others:
        t = z3.SetUnion(t, _set_arg(interp, s, o).t)
    return SSet(t, s.elem)


def _set_intersection(interp, s, *others):
    t = s.t
    for o in others:
        t = z3.SetIntersect(t, _set_arg(interp, s, o).t)
    return SSet(t, s.elem)


def _set_add(interp, s, x):
    s.t = z3.SetAdd(s.t, term(x))


def _set_remove(interp, s, x):
    if not interp.ctx.branch(z3.IsMember(term(x), s.t)):
        raise PyRaise(KeyError(x))
    s.t = z3.SetDel(s.t, term(x))


def _set_discard(interp, s, x):
    s.t = z3.SetDel(s.t, term(x))


def _set_copy(interp, s):
    return SSet(s.t, s.elem)


def _set_update(interp, s, *others):
    for o in others:
        s.t = z3.SetUnion(s.t, _set_arg(interp, s, o).t)


def _set_issubset(interp, s, o):
    return wrap(z3.IsSubset(s.t, _set_arg(interp, s, o).t))


def _set_isdisjoint(interp, s, o):
    return wrap(z3.SetIntersect(s.t, _set_arg(interp, s, o).t) == z3.EmptySet(s.t.sort().domain()))


def _str_startswith(interp, s, p, *a):
    if isinstance(p, tuple):
        return wrap(z3.Or(*[z3.PrefixOf(term(x), s.t) for x in p]))
    return wrap(z3.PrefixOf(term(p), s.t))


def _str_endswith(interp, s, p, *a):
    if isinstance(p, tuple):
        return wrap(z3.Or(*[z3.SuffixOf(term(x), s.t) for x in p]))
    return wrap(z3.SuffixOf(term(p), s.t))


def _char_class(t, kind):
    """isalpha/isalnum/isdigit on a symbolic string (python semantics: non-empty and every char in the class).
    Interpreted exactly on ASCII; for code points >= 128 an uninterpreted predicate with isalpha => isalnum."""
    i = z3.Int("ci!" + kind)
    c = z3.SubString(t, i, 1)
    return z3.And(z3.Length(t) > 0, z3.ForAll([i], z3.Implies(z3.And(i >= 0, i < z3.Length(t)), _one_char(c, kind))))


_UAlpha = z3.Function("UnicodeAlpha", StrSort, z3.BoolSort())
_UAlnum = z3.Function("UnicodeAlnum", StrSort, z3.BoolSort())


def _one_char(c, kind):
    code = z3.StrToCode(c)
    lower = z3.And(code >= 97, code <= 122)
    upper = z3.And(code >= 65, code <= 90)
    digit = z3.And(code >= 48, code <= 57)
    ascii_ = code < 128
    alpha = z3.If(ascii_, z3.Or(lower, upper), _UAlpha(c))
    if kind == "alpha":
        return alpha
    if kind == "digit":
        return z3.And(ascii_, digit)
    return z3.If(ascii_, z3.Or(lower, upper, digit), z3.Or(_UAlpha(c), _UAlnum(c)))


def _str_isalpha(interp, s):
    if z3.is_true(z3.simplify(z3.Length(s.t) == 1)) or getattr(interp, "nofork", False):
        return wrap(z3.And(z3.Length(s.t) == 1, _one_char(s.t, "alpha"))) if getattr(interp, "nofork", False) else wrap(_one_char(s.t, "alpha"))
    return wrap(_char_class(s.t, "alpha"))


def _str_isalnum(interp, s):
    if getattr(interp, "nofork", False):
        return wrap(z3.And(z3.Length(s.t) == 1, _one_char(s.t, "alnum")))
    return wrap(_char_class(s.t, "alnum"))


def _str_isdigit(interp, s):
    if getattr(interp, "nofork", False):
        return wrap(z3.And(z3.Length(s.t) == 1, _one_char(s.t, "digit")))
    return wrap(_char_class(s.t, "digit"))


def _str_join_model(interp, sep, seq):
    """sep.join(seq) for sep == '' and a lazy per-character map of a symbolic string."""
    if isinstance(seq, SSeq) and getattr(seq, "char_map", False) and sep == "":
        ctx = interp.ctx
        r = ctx.const("joined", StrSort)
        i = z3.Int(ctx.fresh("ji"))
        el = seq.at(i)
        et = term(el)
        ctx.assume(z3.Length(r) == seq.len)
        ctx.assume(z3.ForAll([i], z3.Implies(z3.And(i >= 0, i < seq.len), z3.SubString(r, i, 1) == et)))
        # every mapped element is a single character (the map is char -> char)
        return SStr(r)
    if isinstance(seq, (list, tuple)) and all(isinstance(x, (str, SStr)) for x in seq):
        if not seq:
            return ""
        acc = term(seq[0])
        for x in seq[1:]:
            acc = z3.Concat(acc, term(sep), term(x))
        return wrap(acc)
    raise Undecided("str.join over symbolic values")


def _str_replace(interp, s, a, b, *cnt):
    if cnt:
        raise Undecided("str.replace with count")
    raise Undecided("str.replace (replace_all) on symbolic string")


def _seq_append(interp, s, x):
    """list.append on a symbolic-length list created by a loop invariant's havoc (`mutable`): in-place, like CPython"""
    if not getattr(s, "mutable", False):
        raise Undecided("append to a symbolic sequence that is not known to be an unaliased list")
    old_len, old_get = s.len, s.get

    def get(i, old_len=old_len, old_get=old_get):
        if interp.ctx.branch(i == old_len):
            return x
        return old_get(i)
    s.len = z3.simplify(old_len + 1)
    s.get = get
    s._cache = {}
    if not hasattr(s, "appended"):
        s.appended = []
    s.appended.append((old_len, x))  # ghost log, so that an invariant can describe the elements without forking
    return None


def _seq_pop(interp, s, *idx):
    """list.pop() (last element) on a symbolic-length list that is known to be unaliased (`mutable`)"""
    if not getattr(s, "mutable", False):
        raise Undecided("pop on a symbolic sequence that is not known to be an unaliased list")
    if idx:
        raise Undecided("list.pop(index) on a symbolic sequence")
    if not interp.ctx.branch(s.len > 0):
        raise PyRaise(IndexError("pop from empty list"))
    last = s.at(z3.simplify(s.len - 1))
    s.len = z3.simplify(s.len - 1)
    s._cache = {}
    return last


METHODS = {
    (SSeq, "append"): _seq_append, (SSeq, "pop"): _seq_pop, (SSeq, "extend"): _seq_extend,
    (SSet, "difference"): _set_difference, (SSet, "union"): _set_union,
    (SSet, "intersection"): _set_intersection, (SSet, "add"): _set_add, (SSet, "remove"): _set_remove,
    (SSet, "discard"): _set_discard, (SSet, "copy"): _set_copy, (SSet, "update"): _set_update,
    (SSet, "issubset"): _set_issubset, (SSet, "isdisjoint"): _set_isdisjoint,
    (SStr, "startswith"): _str_startswith, (SStr, "endswith"): _str_endswith, (SStr, "replace"): _str_replace,
    (SStr, "isalpha"): _str_isalpha, (SStr, "isalnum"): _str_isalnum, (SStr, "isdigit"): _str_isdigit,
    (SDict, "get"): _sdict_get, (SDict, "__contains__"): _sdict_contains,
    (SMap, "get"): _smap_get, (SMap, "__contains__"): _smap_contains, (SMap, "update"): _smap_update,
}
