"""Scenarios, the property runner, known findings, evidence and the VIOLATION protocol."""
from __future__ import annotations

import json
import multiprocessing as mp
import os
import sys
import time
import traceback

from . import core, extract

VERIF = os.path.dirname(os.path.dirname(os.path.abspath(__file__)))


class Scenario:
    """One verification unit: a real /repo function (or a few) checked against its contract.

    run(ctx) explores one symbolic path; obligations are stated with ctx.check(name, goal, clause).
    functions: [(repo-relative file, qualname)] whose *bodies* this scenario verifies.
    kind: 'deductive' (unbounded, counted as proof) | 'bounded' (stand-in with a stated bound,
          never counted as discharged) | 'evaluation' (ground obligations over a finite registry,
          decided by exhaustive evaluation).
    replay(name, vc_dict) -> optional dict(script=str, fails=bool) building a native replay.
    """

    def __init__(self, name, run, functions=(), kind="deductive", bound=None, replay=None,
                 max_paths=4000, budget_s=600, trusted=(), assumptions=()):
        self.name = name
        self.run = run
        self.functions = list(functions)
        self.kind = kind
        self.bound = bound
        self.replay = replay
        self.max_paths = max_paths
        self.budget_s = budget_s
        self.trusted = list(trusted)
        self.assumptions = list(assumptions)


def _run_one(args):
    modname, idx = args
    import importlib
    sys.setrecursionlimit(20000)
    mod = importlib.import_module(modname)
    sc = mod.SCENARIOS[idx]
    out = {"scenario": sc.name, "kind": sc.kind, "bound": sc.bound, "functions": [], "obligations": {},
           "paths": 0, "undecided": [], "notes": [], "covered": [], "error": None, "solver_s": 0.0,
           "queries": 0, "wall_s": 0.0, "trusted": sc.trusted, "assumptions": sc.assumptions,
           "interpreted": []}
    t0 = time.time()
    try:
        for rel, qn in sc.functions:
            try:
                lo, hi = extract.source_lines(rel, qn)
                out["functions"].append({"file": rel, "qualname": qn, "lines": [lo, hi],
                                         "sha": extract.source_hash(rel, qn)})
            except extract.Missing as e:
                # a NESTED helper (a def inside a function under contract) that is gone while its enclosing function is still there was
                # moved or inlined by a refactoring: the enclosing function is interpreted from the current source with whatever it calls
                # now, so nothing is lost — noted, not undecided.  A missing top-level function or method stays undecided.
                parent = qn.rsplit(".", 1)[0] if "." in qn else None
                optional = False
                if parent:
                    try:
                        import ast as _ast
                        optional = isinstance(extract.find(rel, parent), (_ast.FunctionDef, _ast.AsyncFunctionDef))
                    except extract.Missing:
                        optional = False
                if optional:
                    out["notes"].append(f"nested helper {rel}::{qn} no longer exists inside {parent} (refactored); {parent} is interpreted as it is now")
                else:
                    out["undecided"].append(["<extract>", f"function under contract not found: {e}"])
        if sc.kind == "evaluation":
            res = sc.run(None)
            fx = res.pop("functions", None)
            res["notes"] = out["notes"] + list(res.get("notes", []))
            out.update(res)
            if fx:
                out["functions"] += fx
        else:
            res = core.explore(sc.run, sc.name, max_paths=sc.max_paths, budget_s=sc.budget_s)
            out["paths"] = res.paths
            out["undecided"] += [[str(p), r] for p, r in res.undecided]
            out["notes"] = out["notes"] + list(res.notes)
            out["covered"] = sorted(res.covered)
            out["solver_s"] = res.stats["solver_s"]
            out["queries"] = res.stats["queries"]
            for name, st in res.obligations().items():
                bad = st["first_bad"]
                out["obligations"][name] = {
                    "status": st["status"], "instances": st["instances"], "clause": st["clause"],
                    "ms": round(st["ms"], 1), "backend": "z3",
                    "model": (bad.model if bad is not None else None),
                    "detail": (bad.detail if bad is not None else ""),
                    "path": (bad.path if bad is not None else None),
                }
    except Exception:
        out["error"] = traceback.format_exc()
    out["wall_s"] = time.time() - t0
    return out


def run_modules(modnames, jobs=None, only=None):
    """Run every scenario of the given contract modules in a process pool."""
    import importlib
    tasks = []
    for m in modnames:
        # "package.module:substring" selects the scenarios of that module whose name contains the substring
        m, _, sel = m.partition(":")
        mod = importlib.import_module(m)
        for i, sc in enumerate(mod.SCENARIOS):
            if sel and sel not in sc.name:
                continue
            if only and not any(o in sc.name for o in only):
                continue
            tasks.append((m, i))
    jobs = jobs or min(16, max(1, len(tasks)))
    if jobs == 1 or len(tasks) <= 1:
        return [_run_one(t) for t in tasks]
    ctxm = mp.get_context("fork")
    with ctxm.Pool(jobs, maxtasksperchild=1) as pool:
        return pool.map(_run_one, tasks, chunksize=1)


# ---------------------------------------------------------------------------------------------
# known findings
# ---------------------------------------------------------------------------------------------

def load_known(prop):
    path = os.path.join(VERIF, "known_findings.jsonl")
    finds, fixed = [], []
    if os.path.exists(path):
        for line in open(path):
            line = line.strip()
            if not line or line.startswith("#"):
                continue
            e = json.loads(line)
            # obligation names are globally unique: a finding recorded under one property also explains the same
            # obligation when another property's check includes it (e.g. C03 includes the C05 rule obligations)
            if e.get("property") != prop and e.get("status") == "fixed":
                continue
            (fixed if e.get("status") == "fixed" else finds).append(e)
    return finds, fixed
