"""Symbolic values of the pyvc interpreter.

Concrete Python objects are used as they are.  The classes below wrap z3 terms.  None of them
supports Python's own operators or truth testing: every operation goes through the interpreter
(`interp.binop`, `interp.truth`, ...), so an accidental native use is an engine error, not a
silently wrong answer.
"""
from __future__ import annotations

import z3

Obj = z3.DeclareSort("Obj")
StrSort = z3.StringSort()
StrSet = z3.SetSort(StrSort)
ObjSet = z3.SetSort(Obj)


class Sym:
    t = None

    def __bool__(self):
        raise TypeError(f"native truth test of symbolic value {self!r} (engine bug)")

    def __repr__(self):
        return f"<{type(self).__name__} {self.t}>"

    __hash__ = object.__hash__


class SInt(Sym):
    def __init__(self, t):
        self.t = t


class SBool(Sym):
    def __init__(self, t):
        self.t = t


class SReal(Sym):
    """A Python float treated as a mathematical real (assumption recorded by the scenario)."""

    def __init__(self, t):
        self.t = t


class SFloat(Sym):
    """A Python float with IEEE-754 binary64 semantics (z3 FP sort): sign of zero, NaN, == vs bits."""

    def __init__(self, t):
        self.t = t


FP64 = z3.Float64()


class SStr(Sym):
    def __init__(self, t):
        self.t = t


class SSet(Sym):
    """A Python set object with symbolic contents.  Mutable box: `add`/`remove` update `.t`.

    `oid` identifies the *set object* for the iteration-order model (DESIGN 2.4): the order in which
    the set is iterated is rank(oid, seed, element); every set-building operation creates a new oid.
    """

    _next = [0]

    def __init__(self, t, elem="str"):
        self.t = t
        self.elem = elem
        SSet._next[0] += 1
        self.oid = SSet._next[0]


class SSeq(Sym):
    """Immutable sequence of symbolic length.  `get(i_term)` gives the element at a z3 Int index."""

    def __init__(self, length, get, name="seq", ref=None):
        self.len = length
        self.get = get
        self.name = name
        self.ref = ref
        self.t = ref
        self._cache = {}

    def at(self, i):
        if not isinstance(i, int):
            i = z3.simplify(i)
            if z3.is_int_value(i):
                i = i.as_long()
        key = i if isinstance(i, int) else ("t", i.get_id())
        if key not in self._cache:
            self._cache[key] = (i, self.get(z3.IntVal(i) if isinstance(i, int) else i))
        return self._cache[key][1]

    def __repr__(self):
        return f"<SSeq {self.name} len={self.len}>"


class SObj(Sym):
    """Symbolic heap object of a modelled class; identity = Python identity of this wrapper."""

    _n = [0]

    def __init__(self, pycls, name="o", fields=None, ref=None, lazy=None, cands=None):
        SObj._n[0] += 1
        self.serial = SObj._n[0]
        self.pycls = pycls  # concrete real class, or None while `cands` is undecided
        self.cands = cands  # list of candidate classes (lazy kind)
        self.name = f"{name}#{SObj._n[0]}"
        self.fields = dict(fields or {})
        self.ref = ref if ref is not None else z3.Const(self.name, Obj)
        self.t = self.ref
        self.lazy = lazy  # callable(ctx, obj, attr) -> value, for attributes not yet in fields

    def __repr__(self):
        c = self.pycls.__name__ if self.pycls else "?"
        return f"<SObj {self.name}:{c}>"


class SOpt(Sym):
    """Optional value: None when `isnone` holds, else `value`.  `x is None` does not fork; any other
    use resolves it by forking."""

    def __init__(self, isnone, value):
        self.isnone = isnone
        self.value = value
        self.t = isnone


class Opaque(Sym):
    """Result of an unmodelled call: nothing is known about it."""

    def __init__(self, why):
        self.why = why
        self.t = None

    def __repr__(self):
        return f"<Opaque {self.why}>"


class Closure:
    """An interpreted function: real source (ast.FunctionDef / Lambda) + environment."""

    def __init__(self, node, env, globs, qualname, file=None, defaults=None, kwdefaults=None, self_obj=None):
        self.node = node
        self.env = env
        self.globs = globs
        self.qualname = qualname
        self.file = file
        self.defaults = defaults or []
        self.kwdefaults = kwdefaults or {}
        self.self_obj = self_obj
        self.__name__ = getattr(node, "name", "<lambda>")

    def bind(self, obj):
        c = Closure(self.node, self.env, self.globs, self.qualname, self.file, self.defaults, self.kwdefaults, obj)
        return c

    def __repr__(self):
        return f"<Closure {self.qualname}>"


class BoundModel:
    """A modelled method bound to a symbolic receiver."""

    def __init__(self, fn, recv, name):
        self.fn = fn
        self.recv = recv
        self.name = name

    def __repr__(self):
        return f"<BoundModel {self.name}>"


def is_sym(v):
    return isinstance(v, Sym)


def contains_sym(v, depth=3):
    if isinstance(v, Sym):
        return True
    if depth and isinstance(v, (list, tuple, set, frozenset)):
        return any(contains_sym(x, depth - 1) for x in v)
    if depth and isinstance(v, dict):
        return any(contains_sym(x, depth - 1) for x in v.values()) or any(contains_sym(x, depth - 1) for x in v.keys())
    return False


def wrap(t):
    """z3 term -> symbolic value (or concrete when the term is a literal)."""
    if isinstance(t, (int, bool, str, float)) or t is None:
        return t
    t = z3.simplify(t)
    s = t.sort()
    if s == z3.IntSort():
        if z3.is_int_value(t):
            return t.as_long()
        return SInt(t)
    if s == z3.BoolSort():
        if z3.is_true(t):
            return True
        if z3.is_false(t):
            return False
        return SBool(t)
    if s == StrSort:
        if z3.is_string_value(t):
            return t.as_string()
        return SStr(t)
    if s == z3.RealSort():
        return SReal(t)
    raise TypeError(f"cannot wrap term of sort {s}")


def term(v):
    """value -> z3 term (for ints, bools, strs, reals)."""
    if isinstance(v, bool):
        return z3.BoolVal(v)
    if isinstance(v, int):
        return z3.IntVal(int(v))
    if isinstance(v, str):
        return z3.StringVal(v)
    if isinstance(v, float):
        return z3.RealVal(v)
    if isinstance(v, (SInt, SBool, SStr, SReal)):
        return v.t
    if isinstance(v, SObj):
        return v.ref
    if isinstance(v, SSet):
        return v.t
    raise TypeError(f"no term for {v!r}")
