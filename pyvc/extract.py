"""Extraction of the functions under contract from /repo's *current working tree*, by qualified name.

Nothing is copied into /verif: every run re-reads and re-parses the file.  What extraction drops is
stated in DESIGN 2.1 (decorators are interpreted, annotations and docstrings ignored, logging and
warnings calls are no-ops).
"""
from __future__ import annotations

import ast
import hashlib
import os

REPO = os.environ.get("PYVC_REPO", "/repo")

_cache = {}


class Missing(Exception):
    pass


def relpath(filename):
    filename = os.path.realpath(filename)
    root = os.path.realpath(REPO)
    if filename.startswith(root + os.sep):
        return filename[len(root) + 1:]
    return None


def parse_file(rel):
    path = os.path.join(REPO, rel)
    st = os.stat(path)
    key = (path, st.st_mtime_ns, st.st_size)
    hit = _cache.get(path)
    if hit and hit[0] == key:
        return hit[1], hit[2]
    with open(path, "rb") as f:
        src = f.read()
    tree = ast.parse(src, filename=path)
    _cache[path] = (key, tree, src)
    return tree, src


def find(rel, qualname):
    """Return the FunctionDef/ClassDef node for `qualname` ('Class.method.nested') in file `rel`."""
    try:
        tree, _src = parse_file(rel)
    except (OSError, SyntaxError) as e:
        raise Missing(f"{rel}: {e}")
    parts = [p for p in qualname.split(".") if p != "<locals>"]
    node = tree
    for p in parts:
        found = None
        for child in _defs(node):
            if child.name == p:
                found = child  # last definition wins, as in Python
        if found is None:
            raise Missing(f"{rel}::{qualname}: '{p}' not found")
        node = found
    return node


def _defs(node):
    """Definitions directly inside node's body (also inside if/try/with blocks at that level)."""
    out = []
    stack = list(getattr(node, "body", []))
    while stack:
        n = stack.pop(0)
        if isinstance(n, (ast.FunctionDef, ast.AsyncFunctionDef, ast.ClassDef)):
            out.append(n)
        elif isinstance(n, (ast.If, ast.Try, ast.With, ast.For, ast.While)):
            for fld in ("body", "orelse", "finalbody", "handlers"):
                for c in getattr(n, fld, []) or []:
                    if isinstance(c, ast.ExceptHandler):
                        stack.extend(c.body)
                    else:
                        stack.append(c)
    return out


def source_hash(rel, qualname):
    node = find(rel, qualname)
    _tree, src = parse_file(rel)
    seg = ast.get_source_segment(src.decode("utf8"), node) or ""
    return hashlib.sha256(seg.encode()).hexdigest()[:16]


def source_lines(rel, qualname):
    node = find(rel, qualname)
    return node.lineno, node.end_lineno


def function_from_object(fn):
    """(rel, qualname, node) for a real function object defined under /repo, else None."""
    code = getattr(fn, "__code__", None)
    if code is None:
        return None
    rel = relpath(code.co_filename)
    if rel is None:
        return None
    qn = fn.__qualname__
    try:
        node = find(rel, qn)
    except Missing:
        return None
    # guard against decorators that replaced the function: line must be inside the node
    return rel, qn.replace(".<locals>", ""), node
