"""pyvc core: path exploration by decision replay, path conditions, named obligations.

One `Ctx` is one symbolic path. A *scenario* is a Python callable `scenario(ctx)` that builds
symbolic inputs, runs the interpreter on a real /repo function and states obligations with
`ctx.check`.  `explore` enumerates all feasible paths of the scenario by re-running it with a
growing set of decision prefixes (DART style); nothing of the interpreter state has to be copied.

Verdict of one VC instance:  'proved' (pc /\\ not goal unsat) | 'refuted' (sat, model kept) |
'unknown'.  A named obligation is discharged iff every instance on every path is proved.
"""
from __future__ import annotations

import time
import z3


class PathEnd(Exception):
    """Normal end of a path before the scenario returns (e.g. after an inductive step)."""


class Infeasible(Exception):
    """The path condition became unsatisfiable (assume(False))."""


class Undecided(Exception):
    """The engine cannot interpret something on this path: the function becomes undecided."""


class EngineError(Exception):
    pass


SOLVER_TIMEOUT_MS = 20000
BRANCH_TIMEOUT_MS = 5000


class VC:
    __slots__ = ("name", "clause", "status", "model", "ms", "path", "detail", "backend", "size", "zmodel")

    def __init__(self, name, clause):
        self.name = name
        self.clause = clause
        self.status = None
        self.model = None
        self.ms = 0.0
        self.path = None
        self.detail = ""
        self.backend = "z3"
        self.size = 0
        self.zmodel = None


class Ctx:
    def __init__(self, prefix, stats):
        self.prefix = list(prefix)
        self.trail = []  # decisions taken (ints)
        self.alts = []  # prefixes to explore later
        self.solver = z3.Solver()
        self.solver.set("timeout", SOLVER_TIMEOUT_MS)
        self.pc = []
        self.vcs = []
        self.stats = stats
        self.fresh_n = 0
        self.notes = []  # assumptions recorded on this path (unmodelled calls ...)
        self.ghost = {}  # scenario-specific ghost state
        self.witness = {}  # name -> z3 term, values worth printing from a model
        self.covered = set()

    # ---- naming ------------------------------------------------------------------------
    def fresh(self, base):
        self.fresh_n += 1
        return f"{base}!{self.fresh_n}"

    def int(self, base):
        return z3.Int(self.fresh(base))

    def bool(self, base):
        return z3.Bool(self.fresh(base))

    def const(self, base, sort):
        return z3.Const(self.fresh(base), sort)

    # ---- path condition ----------------------------------------------------------------
    def assume(self, cond):
        if isinstance(cond, bool):
            if not cond:
                raise Infeasible()
            return
        cond = z3.simplify(cond)
        if z3.is_true(cond):
            return
        if z3.is_false(cond):
            raise Infeasible()
        self.pc.append(cond)
        self.solver.add(cond)

    def _sat(self, cond, timeout=BRANCH_TIMEOUT_MS):
        self.solver.push()
        self.solver.set("timeout", timeout)
        self.solver.add(cond)
        t0 = time.time()
        r = self.solver.check()
        self.stats["solver_s"] += time.time() - t0
        self.stats["queries"] += 1
        self.solver.pop()
        self.solver.set("timeout", SOLVER_TIMEOUT_MS)
        return r

    def choose(self, n, label=""):
        """Nondeterministic choice among n alternatives (all are explored)."""
        if n <= 0:
            raise Infeasible()
        i = len(self.trail)
        if i < len(self.prefix):
            d = self.prefix[i]
        else:
            d = 0
            for alt in range(1, n):
                self.alts.append(self.trail + [alt])
        self.trail.append(d)
        return d

    def branch(self, cond):
        """Fork on a boolean condition; returns the concrete truth value on this path."""
        if isinstance(cond, bool):
            return cond
        cond = z3.simplify(cond)
        if z3.is_true(cond):
            return True
        if z3.is_false(cond):
            return False
        i = len(self.trail)
        if i < len(self.prefix):
            d = self.prefix[i]
            self.trail.append(d)
            self.assume(cond if d == 0 else z3.Not(cond))
            return d == 0
        t_ok = self._sat(cond) != z3.unsat
        f_ok = self._sat(z3.Not(cond)) != z3.unsat
        if t_ok and f_ok:
            self.alts.append(self.trail + [1])
            self.trail.append(0)
            self.assume(cond)
            return True
        if t_ok:
            self.trail.append(0)
            self.assume(cond)
            return True
        if f_ok:
            self.trail.append(1)
            self.assume(z3.Not(cond))
            return False
        raise Infeasible()

    # ---- obligations -------------------------------------------------------------------
    def check(self, name, goal, clause=""):
        """State obligation `name`: under the path condition, `goal` holds."""
        vc = VC(name, clause)
        vc.path = list(self.trail)
        self.vcs.append(vc)
        if isinstance(goal, bool):
            goal = z3.BoolVal(goal)
        t0 = time.time()
        self.solver.push()
        self.solver.add(z3.Not(goal))
        vc.size = len(self.solver.sexpr())
        r = self.solver.check()
        if r == z3.unsat:
            vc.status = "proved"
        elif r == z3.sat:
            vc.status = "refuted"
            m = self.solver.model()
            vc.model = {k: str(m.eval(v, model_completion=True)) for k, v in self.witness.items()}
            vc.detail = _short_model(m)
            vc.zmodel = m
        else:
            vc.status = "unknown"
            vc.detail = self.solver.reason_unknown()
        self.solver.pop()
        vc.ms = (time.time() - t0) * 1000
        self.stats["solver_s"] += time.time() - t0
        self.stats["queries"] += 1
        return vc.status == "proved"

    def cover(self, label):
        """Reachability witness: this point was reached on a feasible path."""
        self.covered.add(label)

    def note(self, text):
        if text not in self.notes:
            self.notes.append(text)


def _short_model(m, limit=40):
    out = []
    for d in m.decls()[:limit]:
        try:
            out.append(f"{d.name()}={m[d]}")
        except Exception:  # pragma: no cover
            pass
    return "; ".join(out)[:4000]


class Result:
    def __init__(self, scenario_name):
        self.scenario = scenario_name
        self.paths = 0
        self.vcs = []
        self.notes = []
        self.covered = set()
        self.undecided = []  # (path, reason)
        self.errors = []
        self.stats = {"solver_s": 0.0, "queries": 0}
        self.wall_s = 0.0

    def obligations(self):
        """name -> aggregated status over all instances."""
        agg = {}
        for vc in self.vcs:
            st = agg.get(vc.name)
            if st is None:
                agg[vc.name] = {"status": vc.status, "instances": 1, "clause": vc.clause,
                                "ms": vc.ms, "first_bad": vc if vc.status != "proved" else None}
            else:
                st["instances"] += 1
                st["ms"] += vc.ms
                order = {"proved": 0, "unknown": 1, "refuted": 2}
                if order[vc.status] > order[st["status"]]:
                    st["status"] = vc.status
                    st["first_bad"] = vc
        return agg


def explore(scenario, name=None, max_paths=4000, budget_s=600):
    res = Result(name or getattr(scenario, "__name__", "scenario"))
    t0 = time.time()
    work = [[]]
    while work:
        if res.paths >= max_paths or time.time() - t0 > budget_s:
            res.undecided.append(("<driver>", f"path/time budget exhausted after {res.paths} paths"))
            break
        prefix = work.pop()
        ctx = Ctx(prefix, res.stats)
        try:
            scenario(ctx)
        except (PathEnd, Infeasible):
            pass
        except Undecided as e:
            res.undecided.append((list(ctx.trail), str(e)))
        except RecursionError as e:  # pragma: no cover
            res.undecided.append((list(ctx.trail), "recursion limit: " + str(e)))
        except Exception as e:
            if type(e).__name__ == "PyRaise":
                res.undecided.append((list(ctx.trail), f"interpreted code raised an exception the scenario does not expect: {e}"))
            else:
                raise
        res.paths += 1
        res.vcs.extend(ctx.vcs)
        for n in ctx.notes:
            if n not in res.notes:
                res.notes.append(n)
        res.covered |= ctx.covered
        work.extend(ctx.alts)
    res.wall_s = time.time() - t0
    return res
