"""CLI:  python -m pyvc.check Cxx [--tier quick|thorough] [--only substr]

Exit codes: 0 held (every obligation discharged; known findings printed) · 1 violation
(VIOLATION line printed) · 2 undecided (something neither proved nor refuted) · 3 checker crash.
"""
from __future__ import annotations

import argparse
import importlib
import json
import os
import subprocess
import sys
import time

from . import harness

VERIF = harness.VERIF
REPLAY_PY = os.path.join(VERIF, ".venv", "bin", "python")

ENGINE_TRUST = [
    "pyvc encoder/interpreter (unverified VC generator; mitigations: canary mutants, CPython differential run)",
    "z3 5.1.0 (z3-solver wheel)",
]
PY_ASSUMPTIONS = [
    "Python int = mathematical integer; // and % with floor semantics",
    "dict iteration order = insertion order; set iteration order = arbitrary function of (set object, hash seed)",
    "no monkey-patching / __getattr__ magic on modelled classes; ir.Value/ir.Node equality is identity",
    "termination is not proved (partial correctness)",
    "extraction drops: decorators (interpreted, not executed), annotations, docstrings, logging/warnings/print calls",
]


def write_replay(prop, name, text):
    d = os.path.join(VERIF, "replays", prop)
    os.makedirs(d, exist_ok=True)
    safe = "".join(c if c.isalnum() or c in "._-" else "_" for c in name)
    path = os.path.join(d, safe + ".py")
    with open(path, "w") as f:
        f.write(text)
    return path


def run_replay(path, timeout=600):
    try:
        p = subprocess.run([REPLAY_PY, path], capture_output=True, text=True, timeout=timeout,
                           env={**os.environ, "PYTHONDONTWRITEBYTECODE": "1"})
        return p.returncode, (p.stdout + p.stderr)[-3000:]
    except subprocess.TimeoutExpired:
        return 2, "replay timed out"


def run_canaries(prop):
    """Deliberately broken (and deliberately harmless) variants of /repo, each on a scratch copy under $TMPDIR that is
    removed afterwards: the quick check must report a violation (resp. hold)."""
    import shutil
    import tempfile
    cans = json.load(open(os.path.join(VERIF, "canaries", prop + ".json")))
    # the independently seeded changes of this property double as canaries (expect: violation)
    sd = os.path.join(VERIF, "seeded")
    for d in sorted(os.listdir(sd)) if os.path.isdir(sd) else []:
        if d.startswith(prop + "-"):
            cans.append({"name": "seeded/" + d, "patch": os.path.join(sd, d, "patch.diff"), "expect": "violation"})
    repo = os.environ.get("PYVC_REPO", "/repo")
    out = []
    for c in cans:
        scratch = tempfile.mkdtemp(prefix="pyvc_canary_")
        try:
            shutil.copytree(os.path.join(repo, "onnxscript"), os.path.join(scratch, "onnxscript"), ignore=shutil.ignore_patterns("__pycache__"))
            if c.get("patch"):
                pr = subprocess.run(f"patch -p1 -s -f < {c['patch']}", shell=True, cwd=scratch, capture_output=True, text=True)
                if pr.returncode != 0:
                    out.append({"name": c["name"], "expect": c["expect"], "exit": None, "ok": True, "skipped": "patch no longer applies to the current source"})
                    continue
            else:
                path = os.path.join(scratch, c["file"])
                src = open(path).read()
                if src.count(c["old"]) != 1:
                    out.append({"name": c["name"], "expect": c["expect"], "exit": None, "ok": True, "skipped": "anchor text not found in the current source (the code under the canary changed)"})
                    continue
                open(path, "w").write(src.replace(c["old"], c["new"]))
            env = dict(os.environ, PYVC_REPO=scratch, PYTHONPATH=scratch, VERIF_TIER="quick")
            p = subprocess.run([os.path.join(VERIF, "vcheck"), prop, "--no-evidence", "--tier", "quick"], capture_output=True, text=True, env=env)
            failed = [ln.split()[1] for ln in p.stdout.splitlines() if ln.startswith("FAILED-OBLIGATION")]
            if c["expect"] == "violation":
                ok = p.returncode == 1 and (not c.get("obligation") or any(c["obligation"] in f for f in failed))
            else:
                # a harmless change must never raise an alarm; an entry may allow "undecided" (exit 2) where a refactoring moves a loop
                # away from its ordinal-keyed sidecar invariant
                ok = p.returncode in c.get("expect_exit", [0]) and not any(ln.startswith("VIOLATION") for ln in p.stdout.splitlines())
            out.append({"name": c["name"], "expect": c["expect"], "exit": p.returncode, "ok": ok, "failed_obligations": failed[:4]})
        finally:
            shutil.rmtree(scratch, ignore_errors=True)
    return out


def main(argv=None):
    ap = argparse.ArgumentParser()
    ap.add_argument("prop")
    ap.add_argument("--tier", default=os.environ.get("VERIF_TIER", "quick"))
    ap.add_argument("--only", action="append")
    ap.add_argument("--jobs", type=int, default=None)
    ap.add_argument("--no-evidence", action="store_true")
    args = ap.parse_args(argv)
    prop = args.prop
    seed = int(os.environ.get("VERIF_SEED", "0") or 0)
    t0 = time.time()
    sys.setrecursionlimit(20000)
    try:
        pm = importlib.import_module(f"props.{prop}")
    except Exception:
        import traceback
        traceback.print_exc()
        return 3
    modules = list(pm.MODULES)
    if args.tier == "thorough":
        modules += list(getattr(pm, "THOROUGH_MODULES", []))
    os.environ["PYVC_TIER"] = args.tier
    results = harness.run_modules(modules, jobs=args.jobs, only=args.only)
    finds, fixed = harness.load_known(prop)
    find_by_ob = {e["obligation"]: e for e in finds}

    n_ob = n_dis = 0
    n_bounded = 0
    bounded = []
    undecided, crashes, violations, known_hits = [], [], [], []
    samples = []
    fns = []
    notes, trusted, assumptions = [], list(ENGINE_TRUST), list(PY_ASSUMPTIONS)
    by_backend = {"z3": 0, "cvc5": 0, "evaluation": 0}
    solver_s = 0.0
    paths = 0
    covered = []
    for r in results:
        solver_s += r.get("solver_s", 0.0)
        paths += r.get("paths", 0)
        covered += r.get("covered", [])
        for f in r["functions"]:
            if f not in fns:
                fns.append(f)
        for n in r.get("notes", []):
            if n not in notes:
                notes.append(n)
        for t in r.get("trusted", []):
            if t not in trusted:
                trusted.append(t)
        for a in r.get("assumptions", []):
            if a not in assumptions:
                assumptions.append(a)
        if r["error"]:
            crashes.append((r["scenario"], r["error"]))
            continue
        for u in r["undecided"]:
            undecided.append((r["scenario"], u))
        if not r["obligations"] and not r["undecided"]:
            crashes.append((r["scenario"], "scenario produced zero obligations (vacuity guard)"))
        include = getattr(pm, "INCLUDE", None)
        for name, ob in r["obligations"].items():
            if include is not None and not include(name):
                continue
            ob = dict(ob, scenario=r["scenario"], name=name)
            if r["kind"] == "bounded":
                n_bounded += 1
                bounded.append({"obligation": name, "bound": r["bound"], "status": ob["status"], "instances": ob["instances"]})
            else:
                n_ob += 1
            if ob["status"] == "proved":
                if r["kind"] != "bounded":
                    n_dis += 1
                    by_backend[ob.get("backend", "z3")] = by_backend.get(ob.get("backend", "z3"), 0) + 1
                if len(samples) < 6:
                    samples.append({"obligation": name, "clause": ob["clause"], "result": "proved",
                                    "instances": ob["instances"], "ms": ob["ms"], "kind": r["kind"]})
            elif ob["status"] == "refuted":
                if name in find_by_ob:
                    if name not in {k for k, _ in known_hits}:
                        known_hits.append((name, find_by_ob[name]))
                    # a known finding is reported, not discharged and not an alarm
                    if r["kind"] != "bounded":
                        n_ob -= 1
                elif name not in {v["name"] for v in violations}:
                    violations.append(ob)
            else:
                undecided.append((r["scenario"], [name, "solver: " + str(ob.get("detail"))]))

    # findings that no longer fail: report so the entry can be retired (not an error)
    stale = [e for e in finds if e.get("property") == prop and e["obligation"] not in {k for k, _ in known_hits}] if not args.only else []

    # ---- replay of violations ------------------------------------------------------------
    lines = []
    for ob in violations:
        script = None
        try:
            script = pm.replay(ob)
        except Exception as e:  # replay builder problems never hide the violation
            script = None
            ob["replay_error"] = repr(e)
        header = ("import sys as _sys\n"
                  "def _pyvc_hook(t, v, tb):\n"
                  "    import traceback as _tb\n"
                  "    _tb.print_exception(t, v, tb)\n"
                  "    _sys.exit(3)  # a crash of the replay script is not a reproduced failure\n"
                  "_sys.excepthook = _pyvc_hook\n"
                  f"# Replay for failed obligation {ob['name']}\n# clause: {ob['clause']}\n"
                  f"# solver: z3 sat; model (abridged): {ob.get('detail', '')[:1500]!r}\n"
                  f"# path decisions: {ob.get('path')}\n")
        if script:
            path = write_replay(prop, ob["name"], header + script)
            rc, out = run_replay(path)
            ob["replay_rc"] = rc
            ob["replay_out"] = out[-800:]
            if rc == 1:
                lines.append(f"VIOLATION property={prop} replay={path}")
            else:
                lines.append(f"VIOLATION property={prop} replay={path} no-failing-input-found")
        else:
            path = write_replay(prop, ob["name"], header + "import sys\nprint('no concretisation available for this obligation; see header')\nsys.exit(0)\n")
            lines.append(f"VIOLATION property={prop} replay={path} no-failing-input-found")

    for name, e in known_hits:
        print(f"KNOWN-FINDING: property={prop} {e['what']} [obligation {name}]")
    for e in stale:
        print(f"NOTE: known finding no longer reproduces (entry can be retired): {e['obligation']}")
    for ob in violations:
        print(f"FAILED-OBLIGATION {ob['name']}  ({ob['clause']})")
        if ob.get("replay_out"):
            print("  replay:", ob["replay_out"].strip().replace("\n", "\n  ")[:1200])
    for ln in lines:
        print(ln)
    for sc, u in undecided[:40]:
        print(f"UNDECIDED {sc}: {u}")
    for sc, err in crashes:
        print(f"CHECKER-ERROR {sc}: {err[-1500:]}")

    # ---- thorough tier: engine self-test with the committed canaries (scratch copies; /repo is never written) -----
    canary_report = []
    if args.tier == "thorough" and not args.only:
        if not os.path.exists(os.path.join(VERIF, "canaries", prop + ".json")):
            json.dump([], open(os.path.join(VERIF, "canaries", prop + ".json"), "w"))
        canary_report = run_canaries(prop)
        # Self-test of the machinery on deliberately changed scratch copies.  Its outcome says how far a "held" verdict
        # can be trusted; it is reported (here and in the evidence) but is not a verdict about /repo's current tree, so
        # it does not change the exit code.
        for c in canary_report:
            if c.get("skipped"):
                print(f"SELFTEST {c['name']}: skipped ({c['skipped']})")
            elif c["ok"]:
                print(f"SELFTEST {c['name']}: ok (expected {c['expect']}, exit {c['exit']}) {' '.join(c.get('failed_obligations', [])[:2])}")
            else:
                what = "MISSED (a property-breaking change was not detected)" if c["expect"] == "violation" else "FALSE-ALARM (a property-preserving change was reported)"
                print(f"SELFTEST {c['name']}: {what}; check exited {c['exit']}")
    wall = time.time() - t0
    if not args.no_evidence:
        ev = {
            "property_id": prop, "tier": args.tier, "seed": seed, "level": "proof",
            "coverage": {
                "obligations": n_ob, "discharged": n_dis,
                "checker_cmd": f"./vcheck {prop} --tier {args.tier}",
                "trusted_base": trusted,
                "samples": samples or [{"note": "no obligation discharged"}],
                "functions_under_contract": fns,
                "paths": paths, "by_backend": by_backend, "solver_s": round(solver_s, 2),
                "undecided": [f"{a}: {b}" for a, b in undecided][:50],
                "bounded_checks": bounded,
                "known_findings_hit": [k for k, _ in known_hits],
                "violations": [o["name"] for o in violations],
                "reachability_covers": sorted(set(covered)),
                "unmodelled": notes,
                "extra": getattr(pm, "EVIDENCE_EXTRA", {}),
                "canaries": canary_report,
            },
            "assumptions": assumptions + [f"unchecked: {n}" for n in notes],
            "wall_s": round(wall, 2),
            "violations": len(violations),
        }
        os.makedirs(os.path.join(VERIF, "evidence"), exist_ok=True)
        with open(os.path.join(VERIF, "evidence", f"{prop}.json"), "w") as f:
            json.dump(ev, f, indent=1, default=str)
    print(f"[{prop}] obligations={n_ob} discharged={n_dis} bounded={n_bounded} known={len(known_hits)} "
          f"violations={len(violations)} undecided={len(undecided)} errors={len(crashes)} paths={paths} "
          f"solver={solver_s:.1f}s wall={wall:.1f}s")
    if violations:
        # a refuted obligation (with the solver's model, replayed natively) stands on its own: a scenario that crashed or stayed
        # undecided elsewhere (typically because the changed code no longer has the loop structure a sidecar invariant names) does
        # not take it back.  On the unchanged tree there is neither.
        return 1
    if crashes:
        return 3
    if undecided:
        return 2
    if (n_ob == 0 or n_dis == 0) and not args.only:
        print("CHECKER-ERROR: zero obligations discharged (vacuity guard)")
        return 3
    return 0


if __name__ == "__main__":
    sys.exit(main())
