"""C09 — shape-based simplifications hold for every runtime binding of symbolic dims."""
import re

MODULES = ["contracts.c03_folding", "contracts.c09_expand", "contracts.c05_basic", "contracts.c09_reshape", "contracts.c05_irutils"]
HEAD = "import sys\nsys.path.insert(0, '/verif')\nfrom replay_lib.opt_native import main\n"


# inductive loop invariants of functions under a C09 contract (obligation names: <function>.loop<k>.<init|preserve>.<label>)
LOOP_FUNCTIONS = ("_check_dims_sufficient", "_check_expand_removable", "_compute_broadcast_shape", "size", "TransposeTranspose._apply_transpose")


def INCLUDE(name):
    m = re.match(r"(C\d\d)\.", name)
    if m is not None:
        return m.group(1) == "C09"
    return ".loop" in name


def replay(ob):
    n = ob["name"]
    if n.startswith("C09.ir_utils."):
        return HEAD + "main(['slice_unknown_dims', 'expand_unknown_dims'])\n"
    if "folding.shape." in n:
        return HEAD + "main(['shape_search'])\n"
    if "folding." in n and "any_rank" in n:
        return HEAD + "main(['reshape_abs_search', 'abs_add'])\n"
    if "any_rank" in n or (".loop" in n and n.split(".loop")[0] in LOOP_FUNCTIONS[:3]):
        return HEAD + "main(['expand_search'])\n"
    if "ScatterAllDynamic" in n:
        return HEAD + "main(['scatter_dynamic_shape_attrs'])\n"
    if "expand_removable.strategy" in n and "same_output_dims" in n:
        return HEAD + "main(['expand_unknown_dims', 'expand_rank'])\n"
    if "Flatten2Reshape" in n:
        return HEAD + "main(['flatten_zero'])\n"
    if ".add." in n:
        return HEAD + "main(['abs_add'])\n"
    if "MaterializeReshapeShape" in n:
        return HEAD + "main(['materialize_reshape_zero', 'materialize_reshape_literal_zero', 'materialize_reshape_search'])\n"
    if "expand_removable" in n:
        return HEAD + "main(['expand_rank'])\n"
    return None
