"""C11 — tensor indexing and slicing mean what they mean in NumPy."""
MODULES = ["contracts.c11_slicing", "contracts.c11_eager"]

HEAD = "import sys\nsys.path.insert(0, '/verif')\nfrom replay_lib.c11_native import main\n"


def _region_cases():
    cases = []
    for d in (1, 2, 3, 4):
        for start in range(-d - 3, -d):
            for step in (-1, -2):
                for stop in (None, 0, -d - 1):
                    cases.append(((d,), f"{start}:{'' if stop is None else stop}:{step}", None))
    return cases


def _generic_cases():
    cases = []
    for d in (1, 2, 3, 4):
        rng = [None] + list(range(-d - 1, d + 2))
        for start in rng:
            for stop in rng:
                for step in (None, 1, 2, -1, -2):
                    if step is not None and step < 0 and start is not None and start < -d:
                        continue  # known region, reported separately
                    f = lambda v: "" if v is None else str(v)
                    cases.append(((d,), f"{f(start)}:{f(stop)}:{f(step)}", None))
    return cases[::7]


def replay(ob):
    name = ob["name"]
    if "region_negstep_start_below_minus_d" in name:
        return HEAD + f"main({_region_cases()!r})\n"
    if "tensor_index_dims_lead_the_result" in name:
        return HEAD + "main([((2, 3, 4), '0, :, k', {'k': [1, 0, 3]}), ((2, 3, 4), '-1, 0:2, k', {'k': [1, 0]}), ((2, 3, 4), 'k, :, 0', {'k': [1, 0]})])\n"
    if "after_tensor_index_on_earlier_axis" in name:
        return HEAD + "main([((2, 3, 4), 'k, 2', {'k': 1}), ((2, 3, 4), 'k, -1', {'k': 0})])\n"
    if "after_squeezed_scalar_axes" in name:
        return HEAD + "main([((2, 3, 4, 5, 6), '0, 1, k', {'k': [1, 0]}), ((2, 3, 4, 5, 6), '0:1, 1, k', {'k': [1, 0]})])\n"
    if "same_selection" in name or "scalar_as_slice" in name or "step_forwarded" in name:
        return HEAD + f"main({_generic_cases()!r})\n"
    return None
