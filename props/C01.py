"""C01 — script functions mean the same eagerly, as a graph, and as Python."""
import re

MODULES = ["contracts.c01_analysis", "contracts.c01_converter", "contracts.c11_eager"]


def INCLUDE(name):
    m = re.match(r"(C\d\d)\.", name)
    return m is None or m.group(1) == "C01" or name.startswith("C11.eager")


ANALYSIS_CORPUS = [
    "def f(x, t):\n    y = op.Add(x, B=t * 2.0)\n    return y\n",
    "def f(X, n):\n    x = X\n    for i in range(n):\n        x = X * 3\n    return x\n",
    "def f(X, n, c):\n    x = X\n    while c:\n        x = X * 3\n        c = x < 2\n    return x\n",
    "def f(X, N, M, c):\n    n = N\n    if c:\n        n = M + 1\n        q = X\n    else:\n        n = M + 2\n        q = X + X\n    s = X\n    for i in range(n):\n        s = s + X\n    return s + q\n",
    "def f(X, c):\n    if c:\n        y = X\n    else:\n        y = X + X\n    return y\n",
    "def f(X, n):\n    a = X\n    b = X\n    for i in range(n):\n        a, b = op.Split(a + b)\n        if b:\n            break\n    return a\n",
    "def f(X):\n    y: FLOAT = X + 1\n    z = op.Foo(y, [X, y], axis=k)\n    return z, y\n",
    "def f(X, c):\n    a = X\n    b = X\n    while c:\n        if c:\n            a = b + 1\n            b = a + X\n        else:\n            a = b\n            b = X\n        c = a < b\n    return b\n",
]

LOOP_REPLAY = '''
import sys, os, subprocess, tempfile, textwrap
SRC = textwrap.dedent("""
    import sys
    import numpy as np
    from onnxscript import script, opset18 as op, FLOAT, INT64
    import onnxruntime as ort
    @script(default_opset=op)
    def f(X: FLOAT[1], n: INT64) -> FLOAT[1]:
        a = X + 1.0
        b = X + 2.0
        c = X + 3.0
        d = X + 4.0
        e = X + 5.0
        for i in range(n):
            a = a * 1.0
            b = b * 1.0
            c = c * 1.0
            d = d * 1.0
            e = e * 1.0
        return a * 10000.0 + b * 1000.0 + c * 100.0 + d * 10.0 + e
    X = np.zeros(1, dtype=np.float32); n = np.array(2, dtype=np.int64)
    m = f.to_model_proto()
    g = ort.InferenceSession(m.SerializeToString(), providers=["CPUExecutionProvider"]).run(None, {"X": X, "n": n})[0]
    e = f(X, n)
    import hashlib
    print("RESULT", float(g[0]), float(np.asarray(e)[0]), hashlib.sha256(m.SerializeToString()).hexdigest()[:16])
""")
d = tempfile.mkdtemp()
p = os.path.join(d, "prog.py")
open(p, "w").write(SRC)
bad = 0
digests = set()
for seed in ("0", "1", "2", "3", "7"):
    out = subprocess.run([sys.executable, p], capture_output=True, text=True, env={**os.environ, "PYTHONHASHSEED": seed}).stdout
    line = [l for l in out.splitlines() if l.startswith("RESULT")]
    if not line:
        continue
    _, g, e, dg = line[0].split()
    digests.add(dg)
    if float(g) != 12345.0 or float(e) != 12345.0:
        bad += 1
        print(f"PYTHONHASHSEED={seed}: loop with 5 loop-carried variables: graph returns {g}, eager {e}, Python semantics 12345.0")
if MODE == "determinism" and len(digests) > 1:
    bad += 1
    print("to_model_proto() bytes differ across PYTHONHASHSEED values:", sorted(digests))
sys.exit(1 if bad else 0)
'''


def replay(ob):
    name = ob["name"]
    if name.startswith("C11."):
        from props import C11
        return C11.replay(ob)
    if ".converter.loop" in name or ".converter.if" in name:
        return "MODE = 'alignment'\n" + LOOP_REPLAY
    if ".analysis." in name or name.startswith("AstAnalyzer.") or name.startswith("_used_vars"):
        return (
            "import sys\nsys.path.insert(0, '/verif')\n"
            "from theories.dataflow_exec import check_program\n"
            f"PROGRAMS = {ANALYSIS_CORPUS!r}\n"
            "bad = 0\n"
            "for src in PROGRAMS:\n"
            "    for f in check_program(src):\n"
            "        bad += 1\n"
            "        print('real analysis.py misses a use/definition on:'); print(src); print('  ', f)\n"
            "sys.exit(1 if bad else 0)\n"
        )
    return None
