"""C01 — script functions mean the same eagerly, as a graph, and as Python."""
import re

MODULES = ["contracts.c01_analysis", "contracts.c01_converter", "contracts.c11_eager", "contracts.c01_operators", "contracts.c12_anylen:autocast",
           # anchor: OnnxFunction._to_model_proto — called functions collected, opset imports merged (contract shared with C02)
           "contracts.c02_modelproto:to_model_proto", "contracts.c01_calling", "contracts.c01_assign"]


def INCLUDE(name):
    m = re.match(r"(C\d\d)\.", name)
    return m is None or m.group(1) == "C01" or name.startswith("C11.eager") or name.startswith("C02.to_model_proto.")


ANALYSIS_CORPUS = [
    "def f(x, t):\n    y = op.Add(x, B=t * 2.0)\n    return y\n",
    "def f(X, n):\n    x = X\n    for i in range(n):\n        x = X * 3\n    return x\n",
    "def f(X, n, c):\n    x = X\n    while c:\n        x = X * 3\n        c = x < 2\n    return x\n",
    "def f(X, N, M, c):\n    n = N\n    if c:\n        n = M + 1\n        q = X\n    else:\n        n = M + 2\n        q = X + X\n    s = X\n    for i in range(n):\n        s = s + X\n    return s + q\n",
    "def f(X, c):\n    if c:\n        y = X\n    else:\n        y = X + X\n    return y\n",
    "def f(X, n):\n    a = X\n    b = X\n    for i in range(n):\n        a, b = op.Split(a + b)\n        if b:\n            break\n    return a\n",
    "def f(X):\n    y: FLOAT = X + 1\n    z = op.Foo(y, [X, y], axis=k)\n    return z, y\n",
    "def f(X, c):\n    a = X\n    b = X\n    while c:\n        if c:\n            a = b + 1\n            b = a + X\n        else:\n            a = b\n            b = X\n        c = a < b\n    return b\n",
]

LOOP_REPLAY = '''
import sys, os, subprocess, tempfile, textwrap
SRC = textwrap.dedent("""
    import sys
    import numpy as np
    from onnxscript import script, opset18 as op, FLOAT, INT64
    import onnxruntime as ort
    @script(default_opset=op)
    def f(X: FLOAT[1], n: INT64) -> FLOAT[1]:
        a = X + 1.0
        b = X + 2.0
        c = X + 3.0
        d = X + 4.0
        e = X + 5.0
        for i in range(n):
            a = a * 1.0
            b = b * 1.0
            c = c * 1.0
            d = d * 1.0
            e = e * 1.0
        return a * 10000.0 + b * 1000.0 + c * 100.0 + d * 10.0 + e
    X = np.zeros(1, dtype=np.float32); n = np.array(2, dtype=np.int64)
    m = f.to_model_proto()
    g = ort.InferenceSession(m.SerializeToString(), providers=["CPUExecutionProvider"]).run(None, {"X": X, "n": n})[0]
    e = f(X, n)
    import hashlib
    print("RESULT", float(g[0]), float(np.asarray(e)[0]), hashlib.sha256(m.SerializeToString()).hexdigest()[:16])
""")
d = tempfile.mkdtemp()
p = os.path.join(d, "prog.py")
open(p, "w").write(SRC)
bad = 0
digests = set()
for seed in ("0", "1", "2", "3", "7"):
    out = subprocess.run([sys.executable, p], capture_output=True, text=True, env={**os.environ, "PYTHONHASHSEED": seed}).stdout
    line = [l for l in out.splitlines() if l.startswith("RESULT")]
    if not line:
        continue
    _, g, e, dg = line[0].split()
    digests.add(dg)
    if float(g) != 12345.0 or float(e) != 12345.0:
        bad += 1
        print(f"PYTHONHASHSEED={seed}: loop with 5 loop-carried variables: graph returns {g}, eager {e}, Python semantics 12345.0")
if MODE == "determinism" and len(digests) > 1:
    bad += 1
    print("to_model_proto() bytes differ across PYTHONHASHSEED values:", sorted(digests))
sys.exit(1 if bad else 0)
'''


OPERATOR_REPLAY = '''
import sys
import numpy as np
from onnxscript import script, FLOAT, INT64
from onnxscript import opset18 as op
CASE = %r

def run_graph(f, args):
    m = f.to_model_proto()
    try:
        import onnxruntime as ort
        s = ort.InferenceSession(m.SerializeToString(), providers=["CPUExecutionProvider"])
        return s.run(None, {i.name: a for i, a in zip(m.graph.input, args)})[0]
    except ImportError:
        from onnx.reference import ReferenceEvaluator
        return ReferenceEvaluator(m).run(None, {i.name: a for i, a in zip(m.graph.input, args)})[0]

xf = np.array([-7.5, 5.5, 7.0], dtype=np.float32); yf = np.array([2.0, 2.0, -3.0], dtype=np.float32)
xi = np.array([-7, 5, 7], dtype=np.int64); yi = np.array([2, 2, -3], dtype=np.int64)
dt, _x, opsym, rk = CASE.split()
x = xf if dt == "float32" else xi
ann = "FLOAT" if dt == "float32" else "INT64"
rhs = {"tensor": "y", "int": "2", "float": "2.5"}[rk]
if rk == "tensor":
    src = f"@script(default_opset=op)\\ndef f(x: {ann}[None], y: {ann}[None]):\\n    return x {opsym} y\\n"
    args = (x, yf if dt == "float32" else yi)
else:
    src = f"@script(default_opset=op)\\ndef f(x: {ann}[None]):\\n    return x {opsym} {rhs}\\n"
    args = (x,)
import tempfile, importlib.util, os
d = tempfile.mkdtemp()
path = os.path.join(d, "opcase.py")
open(path, "w").write("from onnxscript import script, FLOAT, INT64\\nfrom onnxscript import opset18 as op\\n" + src)
spec = importlib.util.spec_from_file_location("opcase", path); mod = importlib.util.module_from_spec(spec); sys.modules["opcase"] = mod; spec.loader.exec_module(mod)
f = mod.f
try:
    e = np.asarray(f(*args))
    es = e.tolist()
except Exception as ex:
    e, es = None, f"raises {type(ex).__name__}"
try:
    g = np.asarray(run_graph(f, args))
    gs = g.tolist()
except Exception as ex:
    g, gs = None, f"fails at run time ({type(ex).__name__}: {str(ex).splitlines()[0][:100]})"
same = e is not None and g is not None and e.shape == g.shape and np.array_equal(e, g)
if not same:
    print(f"{CASE} with x={x.tolist()}: eager gives {es}, the converted graph gives {gs}")
    sys.exit(1)
sys.exit(0)
'''


PARAM_SHADOWS_GLOBAL = '''
import sys, os, tempfile, importlib.util
import numpy as np
src = """
from onnxscript import script, FLOAT, BOOL
from onnxscript import opset18 as op
c = True

@script(default_opset=op)
def f(X: FLOAT[2], c: BOOL) -> FLOAT[2]:
    if c:
        y = X + 1.0
    else:
        y = X - 1.0
    return y
"""
d = tempfile.mkdtemp(); path = os.path.join(d, "psg_case.py"); open(path, "w").write(src)
spec = importlib.util.spec_from_file_location("psg_case", path); mod = importlib.util.module_from_spec(spec); sys.modules["psg_case"] = mod; spec.loader.exec_module(mod)
import onnxruntime as ort
m = mod.f.to_model_proto()
sess = ort.InferenceSession(m.SerializeToString(), providers=["CPUExecutionProvider"])
x = np.array([1, 2], np.float32)
bad = 0
for cv in (True, False):
    eager = np.asarray(mod.f(x, np.array(cv)))
    graph = sess.run(None, {"X": x, "c": np.array(cv)})[0]
    plain = x + 1.0 if cv else x - 1.0
    if not (np.array_equal(eager, graph) and np.array_equal(graph, plain)):
        print(f"f(X, c={cv}) with a module global c = True: eager {eager.tolist()}, graph {graph.tolist()}, plain Python {plain.tolist()}")
        bad += 1
sys.exit(1 if bad else 0)
'''


KEYWORD_INPUT = '''
import sys, os, tempfile, importlib.util
import numpy as np
src = """
from typing import Optional
from onnxscript import script, FLOAT
from onnxscript import opset18 as op

@script(default_opset=op)
def clip3(x: FLOAT[3], lo: Optional[FLOAT] = None, hi: Optional[FLOAT] = None) -> FLOAT[3]:
    return op.Clip(x, lo, hi)

@script(default_opset=op)
def f(X: FLOAT[3], H: FLOAT) -> FLOAT[3]:
    return clip3(X, hi=H)
"""
d = tempfile.mkdtemp(); path = os.path.join(d, "kw_case.py"); open(path, "w").write(src)
spec = importlib.util.spec_from_file_location("kw_case", path); mod = importlib.util.module_from_spec(spec); sys.modules["kw_case"] = mod; spec.loader.exec_module(mod)
import onnxruntime as ort
x = np.array([-1, 1, 3], np.float32); h = np.array(2.0, np.float32)
eager = np.asarray(mod.f(x, h))
m = mod.f.to_model_proto()
graph = ort.InferenceSession(m.SerializeToString(), providers=["CPUExecutionProvider"]).run(None, {"X": x, "H": h})[0]
plain = np.minimum(x, h)
if not (np.array_equal(eager, graph) and np.array_equal(graph, plain)):
    print(f"clip3(X, hi=H) with lo omitted: call node {[(n.op_type, list(n.input)) for n in m.graph.node]}; eager {eager.tolist()}, graph {graph.tolist()}, plain Python {plain.tolist()}")
    sys.exit(1)
sys.exit(0)
'''


PARALLEL_ASSIGN = '''
# bounded search replay on the REAL converter: parallel assignments whose right-hand sides read the targets (all rotations of up to 3
# variables), eager / graph (onnxruntime) / plain Python
import itertools, sys
import numpy as np
import onnxruntime as ort
from onnxscript import script, FLOAT
from onnxscript import opset18 as op
bad = 0
names = ["x", "y", "z"]
for n in (2, 3):
    for perm in itertools.permutations(range(n)):
        lhs = ", ".join(names[:n]); rhs = ", ".join(f"{names[p]} + {names[(p + 1) % n]}" if k == n - 1 else names[p] for k, p in enumerate(perm))
        src = (f"def f(a: FLOAT[2], b: FLOAT[2]) -> FLOAT[2]:\\n    x = a * 1.0\\n    y = b * 2.0\\n    z = a + b\\n    {lhs} = {rhs}\\n"
               f"    return x * 100.0 + y * 10.0 + z\\n")
        g = {"FLOAT": FLOAT, "op": op}
        import linecache, tempfile, os
        d = tempfile.mkdtemp(); path = os.path.join(d, "prog.py"); open(path, "w").write("from onnxscript import FLOAT\\nfrom onnxscript import opset18 as op\\n" + src)
        import importlib.util
        spec = importlib.util.spec_from_file_location("prog", path); mod = importlib.util.module_from_spec(spec); sys.modules["prog"] = mod; spec.loader.exec_module(mod)
        try:
            fn = script(default_opset=op)(mod.f)
        except Exception as e:
            print(f"`{lhs} = {rhs}` refused at decoration time ({type(e).__name__}): allowed"); continue
        a = np.array([1, 2], dtype=np.float32); b = np.array([3, 4], dtype=np.float32)
        py = mod.f(a, b)
        eager = np.asarray(fn(a, b))
        graph = ort.InferenceSession(fn.to_model_proto().SerializeToString()).run(None, {"a": a, "b": b})[0]
        if not (np.array_equal(py, graph) and np.array_equal(py, eager)):
            print(f"`{lhs} = {rhs}`: plain Python {py.tolist()}, eager {eager.tolist()}, graph {graph.tolist()}"); bad += 1
sys.exit(1 if bad else 0)
'''


DUP_OUTPUTS = '''
# two variables bound to ONE value inside an if-branch / a loop body, both live afterwards: eager / graph (onnxruntime) / plain Python
import sys
import numpy as np
import onnx, onnxruntime as ort
from onnxscript import script, FLOAT, BOOL, INT64
from onnxscript import opset18 as op
@script(default_opset=op)
def in_branch(x: FLOAT[2], c: BOOL) -> FLOAT[2]:
    if c:
        y = x + x
        z = y
    else:
        y = x * 3.0
        z = x * 5.0
    return y + z * 10.0
@script(default_opset=op)
def in_loop(x: FLOAT[2], n: INT64) -> FLOAT[2]:
    a = x * 1.0
    b = x * 2.0
    for i in range(n):
        a = a + x
        b = a
    return a + b * 10.0
bad = 0
x = np.array([1, 2], np.float32)
for fn, extra, name in ((in_branch, np.array(True), "c"), (in_branch, np.array(False), "c"), (in_loop, np.array(0, np.int64), "n"), (in_loop, np.array(2, np.int64), "n")):
    m = fn.to_model_proto()
    eager = np.asarray(fn(x, extra))
    try:
        onnx.checker.check_model(m, full_check=True)
        graph = ort.InferenceSession(m.SerializeToString()).run(None, {"x": x, name: extra})[0]
    except Exception as e:
        print(f"{fn.name}({name}={extra}): the emitted model is rejected: {str(e).splitlines()[0][:160]}"); bad += 1; continue
    if not np.array_equal(graph, eager):
        subs = [[o.name for o in a.g.output] for nd in m.graph.node for a in nd.attribute if a.g.output]
        print(f"{fn.name}({name}={extra}): graph {graph.tolist()}, eager {eager.tolist()}; subgraph outputs {subs}"); bad += 1
sys.exit(1 if bad else 0)
'''


ATTR_PROMOTE = '''
# two attribute parameters of one kind used as tensor operands in one graph: the model that calls the function proto vs eager mode
import sys
import numpy as np
import onnx, onnxruntime as ort
from onnx import helper, TensorProto
from onnxscript import script, FLOAT
from onnxscript import opset18 as op
from onnxscript.values import Opset
local = Opset("local.test", 1)
@script(local, default_opset=op)
def affine(x, alpha: float = 2.0, beta: float = 3.0, flag: bool = True, n: int = 4):
    y = x * alpha + beta
    z = op.Where(flag, y, y * 0.0)
    return z + op.Cast(n, to=1)
fp = affine.to_function_proto()
g = helper.make_graph([helper.make_node("affine", ["x"], ["y"], domain="local.test", alpha=5.0, beta=7.0, flag=1, n=9)], "g",
                      [helper.make_tensor_value_info("x", TensorProto.FLOAT, [2])], [helper.make_tensor_value_info("y", TensorProto.FLOAT, [2])])
m = helper.make_model(g, functions=[fp], opset_imports=[helper.make_opsetid("", 18), helper.make_opsetid("local.test", 1)], ir_version=9)
x = np.array([1, 2], np.float32)
graph = ort.InferenceSession(m.SerializeToString()).run(None, {"x": x})[0]
eager = np.asarray(affine(x, alpha=5.0, beta=7.0, flag=True, n=9))
want = x * 5.0 + 7.0 + 9.0
print("graph", graph.tolist(), "eager", eager.tolist(), "python", want.tolist())
sys.exit(0 if np.array_equal(graph, want) and np.array_equal(eager, want) else 1)
'''


def replay(ob):
    name = ob["name"]
    if ".converter.attribute_parameter." in name:
        return ATTR_PROMOTE
    if "outputs_are_pairwise_distinct_values" in name:
        return DUP_OUTPUTS
    if ".converter.assign." in name or name.startswith("Converter._translate_assign_stmt.loop"):
        return PARALLEL_ASSIGN
    if name.startswith("C01.calling."):
        return KEYWORD_INPUT
    if "constant_if.name_is_not_a_parameter" in name:
        return PARAM_SHADOWS_GLOBAL
    if "eager.eval_op" in name:
        from props import C17
        return C17.EVAL_OP_HISTORY
    if name.startswith("C02.to_model_proto."):
        from props import C02
        return C02.replay(ob)
    if name.startswith("cast_inputs.loop"):
        from props import C12
        return C12.PROMOTE_REPLAY
    if name.startswith("C01.operators.converter_and_eager") and "[" in name:
        return OPERATOR_REPLAY % name[name.index("[") + 1:-1]
    if name.startswith("C11."):
        from props import C11
        return C11.replay(ob)
    if ".converter.loop" in name or ".converter.if" in name:
        return "MODE = 'alignment'\n" + LOOP_REPLAY
    if ".analysis." in name or name.startswith("AstAnalyzer.") or name.startswith("_used_vars"):
        return (
            "import sys\nsys.path.insert(0, '/verif')\n"
            "from theories.dataflow_exec import check_program\n"
            f"PROGRAMS = {ANALYSIS_CORPUS!r}\n"
            "bad = 0\n"
            "for src in PROGRAMS:\n"
            "    for f in check_program(src):\n"
            "        bad += 1\n"
            "        print('real analysis.py misses a use/definition on:'); print(src); print('  ', f)\n"
            "sys.exit(1 if bad else 0)\n"
        )
    return None
