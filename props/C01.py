"""C01 — script functions mean the same eagerly, as a graph, and as Python."""
MODULES = ["contracts.c01_analysis"]

ANALYSIS_CORPUS = [
    "def f(x, t):\n    y = op.Add(x, B=t * 2.0)\n    return y\n",
    "def f(X, n):\n    x = X\n    for i in range(n):\n        x = X * 3\n    return x\n",
    "def f(X, n, c):\n    x = X\n    while c:\n        x = X * 3\n        c = x < 2\n    return x\n",
    "def f(X, N, M, c):\n    n = N\n    if c:\n        n = M + 1\n        q = X\n    else:\n        n = M + 2\n        q = X + X\n    s = X\n    for i in range(n):\n        s = s + X\n    return s + q\n",
    "def f(X, c):\n    if c:\n        y = X\n    else:\n        y = X + X\n    return y\n",
    "def f(X, n):\n    a = X\n    b = X\n    for i in range(n):\n        a, b = op.Split(a + b)\n        if b:\n            break\n    return a\n",
    "def f(X):\n    y: FLOAT = X + 1\n    z = op.Foo(y, [X, y], axis=k)\n    return z, y\n",
]


def replay(ob):
    name = ob["name"]
    if ".analysis." in name or name.startswith("AstAnalyzer.") or name.startswith("_used_vars"):
        return (
            "import sys\nsys.path.insert(0, '/verif')\n"
            "from theories.dataflow_exec import check_program\n"
            f"PROGRAMS = {ANALYSIS_CORPUS!r}\n"
            "bad = 0\n"
            "for src in PROGRAMS:\n"
            "    for f in check_program(src):\n"
            "        bad += 1\n"
            "        print('real analysis.py misses a use/definition on:'); print(src); print('  ', f)\n"
            "sys.exit(1 if bad else 0)\n"
        )
    return None
