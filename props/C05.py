"""C05 — shipped rewrite rules preserve semantics wherever they fire."""
MODULES = ["contracts.c05_rules", "contracts.c05_batchnorm", "contracts.c05_basic", "contracts.c05_casts", "contracts.c09_reshape", "contracts.c06_matcher:match_constant", "contracts.c05_conv", "contracts.c05_gemm", "contracts.c05_matmul_reshape",
           # helpers the rule conditions rest on (anchors: _ir_utils.same_shape / same_dim; _pattern_ir Constant incl. its commuted clones)
           "contracts.c09_expand:C09.ir_utils", "contracts.c06_matcher:pattern_ir.clone", "contracts.c05_irutils"]
HEAD = "import sys\nsys.path.insert(0, '/verif')\nfrom replay_lib.opt_native import main\n"
EVIDENCE_EXTRA = {"rules_not_under_contract": "all rules except _fuse_relus_clips (4), _min_max_to_clip (4), _no_op (pattern constants), _remove_expand_before_binary_op, _basic_rules.TransposeTranspose, _fuse_batchnorm (Conv, Gemm); rules.fusion and _fuse_hardswish replace subgraphs by compound operators whose only definition is a function body or an ORT kernel"}


def INCLUDE(name):
    # the literal-matching contract of the matcher decides C05's 'value only approximately equal / broadcast shapes' clause too
    import re
    if ".loop" in name and not re.match(r"C\d\d\.", name):
        return True   # inductive loop invariants of functions under a C05 contract (TransposeTranspose._apply_transpose ...)
    return (name.startswith("C05.") or name.startswith("C06.matcher.match_constant") or name.startswith("C09.ir_utils.")
            or name.startswith("C06.pattern_ir.clone.constant"))


def replay(ob):
    if "rules.SlicesSplit" in ob["name"]:
        return "import sys\nsys.path.insert(0, '/verif')\nfrom replay_lib.opt_native import main\nmain(['slices_split'])\n"
    n = ob["name"]
    if n.startswith("C09.ir_utils."):
        return HEAD + "main(['slice_unknown_dims', 'expand_unknown_dims'])\n"
    if n.startswith("C06.pattern_ir.clone"):
        return HEAD + "main(['commuted_literal_tolerance'])\n"
    if "ScatterAllDynamic" in n:
        return HEAD + "main(['scatter_dynamic_shape_attrs'])\n"
    if "C06.matcher.match_constant" in n:
        return HEAD + "main(['literal_rank', 'add_eps'])\n"
    if "ScatterAllStatic.fires_only_for_indices" in n or "ScatterAllStatic.check_decides" in n:
        return HEAD + "main(['scatter_permuted'])\n"
    if "NormalizePadFormatConv" in n:
        return HEAD + "main(['conv_auto_pad_dilations'])\n"
    if "ConvAffineFusion" in n or "AffineConvFusion" in n:
        return HEAD + "main(['conv_affine_shapes'])\n"
    if "FuseConvPad" in n:
        return HEAD + "main(['ovr_pad_conv'])\n"
    if "cast_constant_of_shape" in n:
        return HEAD + "main(['cast_constant_of_shape'])\n"
    if "reshape_matmul_reshape" in n:
        return HEAD + "main(['reshape_matmul_reshape'])\n"
    if "MatMulAddToGemm" in n:
        return HEAD + "main(['matmul_add_gemm_bias'])\n"
    if "rules.CastCast" in n:
        return HEAD + "main(['cast_cast'])\n"
    if "UnsqueezeUnsqueeze.does_not_fire" in n:
        return HEAD + "main(['ovr_unsqueeze'])\n"
    if "collapse_slice.does_not_fire" in n:
        return HEAD + "main(['ovr_slice'])\n"
    if "ScatterAllStatic.does_not_fire" in n:
        return HEAD + "main(['ovr_scatter'])\n"
    if "RemoveOptionalBias" in n and "overridable" in n:
        return HEAD + "main(['ovr_bias'])\n"
    if "ExpandIdentity.does_not_fire" in n:
        return HEAD + "main(['ovr_expand'])\n"
    if "pattern_constant.not_matched" in n:
        return HEAD + "main(['ovr_addzero'])\n"
    if "does_not_fire_on_an_overridable_initializer" in n:
        return HEAD + "main(['ovr_minmax'])\n"
    if "ScatterAllStatic.fires_only_without_a_reduction" in n:
        return HEAD + "main(['scatter_reduction'])\n"
    if "HardSwishFusionFromHardSigmoid" in n:
        return HEAD + "main(['hardswish_tolerance'])\n"
    if "FuseBatchNorm" in n:
        return HEAD + "main(['batchnorm'])\n"
    if "FuseSuccessiveClip." in n and "raises" not in n:
        return HEAD + "main(['clip_clip'])\n"
    if "FuseSuccessiveReluClip" in n and "raises" not in n:
        return HEAD + "main(['relu_clip'])\n"
    if "same_output_shape_as_the_min_max_chain" in n:
        return HEAD + "main(['min_max_shape'])\n"
    if "no_op" in n:
        return HEAD + "main(['add_eps'])\n"
    if "rewrite_never_raises" in n:
        return HEAD + "main(['clip_no_type'])\n"
    return None
