"""C13 — ONNX -> Python -> ONNX round trip (naming/typing layer)."""
MODULES = ["contracts.c13_export"]

COLLIDE = '''
import sys
import numpy as np, onnx
from onnx import helper, TensorProto
from onnxscript.backend import onnx_export
x = helper.make_tensor_value_info("x", TensorProto.FLOAT, [2])
y = helper.make_tensor_value_info("y", TensorProto.FLOAT, [2])
g = helper.make_graph([helper.make_node("Relu", ["x"], ["a.b"]), helper.make_node("Neg", ["x"], ["a_b"]),
                       helper.make_node("Add", ["a.b", "a_b"], ["y"])], "g", [x], [y])
m = helper.make_model(g, opset_imports=[helper.make_opsetid("", 18)], ir_version=9)
onnx.checker.check_model(m)
code = onnx_export.export2python(m)
import tempfile, os, importlib.util
d = tempfile.mkdtemp(); pth = os.path.join(d, "exported_mod.py")
open(pth, "w").write(code)
spec = importlib.util.spec_from_file_location("exported_mod", pth)
mod = importlib.util.module_from_spec(spec); sys.modules["exported_mod"] = mod
try:
    spec.loader.exec_module(mod)
except Exception as e:
    print("exported text does not execute:", repr(e)[:200]); sys.exit(0)
fns = [v for v in vars(mod).values() if hasattr(v, "to_model_proto")]
from onnx.reference import ReferenceEvaluator
X = np.array([1.0, -2.0], dtype=np.float32)
want = ReferenceEvaluator(m).run(None, {"x": X})[0]
got = ReferenceEvaluator(fns[-1].to_model_proto()).run(None, {"x": X})[0]
if not np.allclose(want, got):
    print("values 'a.b' and 'a_b' both become the Python variable a_b: original model gives", want.tolist(), "re-imported script gives", got.tolist())
    sys.exit(1)
sys.exit(0)
'''


POW = r'''
import sys, os, tempfile, importlib.util
import numpy as np, onnx
from onnx import helper, TensorProto, numpy_helper
from onnx.reference import ReferenceEvaluator
import onnxscript
c = helper.make_node("Constant", [], ["c"], value=numpy_helper.from_array(np.array(-2.0, dtype=np.float32), "c"))
g = helper.make_graph([c, helper.make_node("Pow", ["c", "x"], ["y"])], "g", [helper.make_tensor_value_info("x", TensorProto.FLOAT, [2])],
                      [helper.make_tensor_value_info("y", TensorProto.FLOAT, [2])])
m = helper.make_model(g, opset_imports=[helper.make_opsetid("", 18)], ir_version=9)
onnx.checker.check_model(m)
code = onnxscript.proto2python(m, use_operators=True, inline_const=True)
line = [l for l in code.splitlines() if "**" in l]
d = tempfile.mkdtemp(); path = os.path.join(d, "pow_case.py"); open(path, "w").write(code)
spec = importlib.util.spec_from_file_location("pow_case", path); mod = importlib.util.module_from_spec(spec); sys.modules["pow_case"] = mod; spec.loader.exec_module(mod)
fn = [v for v in vars(mod).values() if isinstance(v, onnxscript.OnnxFunction)][-1]
x = np.array([2.0, 3.0], dtype=np.float32)
a = ReferenceEvaluator(m).run(None, {"x": x})[0]
b = ReferenceEvaluator(fn.to_model_proto()).run(None, {"x": x})[0]
if not np.allclose(a, b):
    print(f"Pow(-2.0, x) exported as {line[0].strip()!r}: original {a.tolist()} round-tripped {b.tolist()}")
    sys.exit(1)
sys.exit(0)
'''

OPS_ONLY = r'''
import sys, os, tempfile, importlib.util
import numpy as np, onnx, onnxscript
from onnx import helper, TensorProto
g = helper.make_graph([helper.make_node("Add", ["x", "x"], ["y"])], "g", [helper.make_tensor_value_info("x", TensorProto.FLOAT, [2])], [helper.make_tensor_value_info("y", TensorProto.FLOAT, [2])])
m = helper.make_model(g, opset_imports=[helper.make_opsetid("", 18)], ir_version=9)
code = onnxscript.proto2python(m, use_operators=True)
d = tempfile.mkdtemp(); path = os.path.join(d, "ops_only_case.py"); open(path, "w").write(code)
spec = importlib.util.spec_from_file_location("ops_only_case", path); mod = importlib.util.module_from_spec(spec); sys.modules["ops_only_case"] = mod
try:
    spec.loader.exec_module(mod)
except Exception as e:
    print("the script exported with use_operators=True for y = Add(x, x) does not compile:", type(e).__name__, str(e)[:160])
    sys.exit(1)
sys.exit(0)
'''

RENAME_SIG = r'''
import sys, os, tempfile, importlib.util
import numpy as np, onnx, onnxscript
from onnx import helper, TensorProto
g = helper.make_graph([helper.make_node("Relu", ["x"], ["t"]), helper.make_node("Neg", ["t"], ["y"])], "g", [helper.make_tensor_value_info("x", TensorProto.FLOAT, [2])],
                      [helper.make_tensor_value_info("y", TensorProto.FLOAT, [2])])
m = helper.make_model(g, opset_imports=[helper.make_opsetid("", 18)], ir_version=9)
code = onnxscript.proto2python(m, rename=True)
d = tempfile.mkdtemp(); path = os.path.join(d, "rename_case.py"); open(path, "w").write(code)
spec = importlib.util.spec_from_file_location("rename_case", path); mod = importlib.util.module_from_spec(spec); sys.modules["rename_case"] = mod
try:
    spec.loader.exec_module(mod)
except Exception as e:
    sig = [l for l in code.splitlines() if l.startswith("def ")][0]
    print(f"proto2python(model, rename=True) emits {sig!r} with a body over other names; loading it fails:", type(e).__name__, str(e).splitlines()[0][:140])
    sys.exit(1)
sys.exit(0)
'''

LOOP_MODEL = r'''
import sys, os, tempfile, importlib.util
import numpy as np, onnx, onnxscript
from onnxscript import script, FLOAT, INT64
from onnxscript import opset18 as op
import onnxruntime as ort
def run(m, feeds):
    return ort.InferenceSession(m.SerializeToString(), providers=['CPUExecutionProvider']).run(None, feeds)[0]

@script(default_opset=op)
def summ(x: FLOAT[2], n: INT64) -> FLOAT[2]:
    acc = x
    for i in range(n):
        acc = acc + x
    return acc
m = summ.to_model_proto()
try:
    code = onnxscript.proto2python(m)
except Exception as e:
    print("proto2python(model with a for loop) raises", type(e).__name__, str(e)[:100]); sys.exit(1)
d = tempfile.mkdtemp(); path = os.path.join(d, "loop_case.py"); open(path, "w").write(code)
spec = importlib.util.spec_from_file_location("loop_case", path); mod = importlib.util.module_from_spec(spec); sys.modules["loop_case"] = mod
try:
    spec.loader.exec_module(mod)
except Exception as e:
    print(code); print("exported script does not load:", type(e).__name__, str(e).splitlines()[0][:200]); sys.exit(1)
fn = [v for v in vars(mod).values() if isinstance(v, onnxscript.OnnxFunction)][-1]
x = np.array([1.0, 2.0], dtype=np.float32); n = np.array(3, dtype=np.int64)
a = run(m, {"x": x, "n": n})
m2 = fn.to_model_proto()
b = run(m2, {m2.graph.input[0].name: x, m2.graph.input[1].name: n})
print(a, b)
sys.exit(0 if np.allclose(a, b) else 1)
'''

LOOP_BREAK = r'''
import sys, os, tempfile, importlib.util
import numpy as np, onnx, onnxscript
from onnxscript import script, FLOAT
from onnxscript import opset18 as op
@script(default_opset=op)
def brk(x: FLOAT[2]) -> FLOAT[2]:
    acc = x
    for i in range(5):
        acc = acc + x
        c = op.ReduceSum(acc, keepdims=0) > 20.0
        if c:
            break
    return acc
m = brk.to_model_proto()
code = onnxscript.proto2python(m)
d = tempfile.mkdtemp(); path = os.path.join(d, "brk_case.py"); open(path, "w").write(code)
spec = importlib.util.spec_from_file_location("brk_case", path); mod = importlib.util.module_from_spec(spec); sys.modules["brk_case"] = mod
try:
    spec.loader.exec_module(mod)
except Exception as e:
    print("a script function with `for ... : ...; if c: break` converts to a model, but the source proto2python returns for that model does not load:",
          type(e).__name__, str(e).splitlines()[0][:170])
    sys.exit(1)
sys.exit(0)
'''

INLINE_LOOP = r'''
import sys, os, tempfile, importlib.util
import numpy as np, onnx, onnxscript
from onnxscript import script, FLOAT
from onnxscript import opset18 as op
@script(default_opset=op)
def const_bound(x: FLOAT[2]) -> FLOAT[2]:
    acc = x
    for i in range(3):
        acc = acc + x
    return acc
m = const_bound.to_model_proto()
code = onnxscript.proto2python(m, inline_const=True)
d = tempfile.mkdtemp(); path = os.path.join(d, "il_case.py"); open(path, "w").write(code)
spec = importlib.util.spec_from_file_location("il_case", path); mod = importlib.util.module_from_spec(spec); sys.modules["il_case"] = mod
try:
    spec.loader.exec_module(mod)
except Exception as e:
    print("proto2python(model with `for i in range(3)`, inline_const=True): the exported script does not load:", type(e).__name__, str(e).splitlines()[0][:140])
    sys.exit(1)
sys.exit(0)
'''

ATTR_NONFINITE = r'''
import sys, os, tempfile, importlib.util
import numpy as np, onnx, onnxscript
from onnx import helper, TensorProto
g = helper.make_graph([helper.make_node("Constant", [], ["c"], value_float=float("inf")), helper.make_node("Min", ["x", "c"], ["y"])], "g",
                      [helper.make_tensor_value_info("x", TensorProto.FLOAT, [2])], [helper.make_tensor_value_info("y", TensorProto.FLOAT, [2])])
m = helper.make_model(g, opset_imports=[helper.make_opsetid("", 18)], ir_version=9)
code = onnxscript.proto2python(m)
d = tempfile.mkdtemp(); path = os.path.join(d, "nonfinite_case.py"); open(path, "w").write(code)
spec = importlib.util.spec_from_file_location("nonfinite_case", path); mod = importlib.util.module_from_spec(spec); sys.modules["nonfinite_case"] = mod
try:
    spec.loader.exec_module(mod)
except Exception as e:
    line = [l.strip() for l in code.splitlines() if "Constant" in l][0]
    print(f"Constant(value_float=inf) is exported as {line!r}; loading the script fails:", type(e).__name__, str(e).splitlines()[0][:140])
    sys.exit(1)
sys.exit(0)
'''

OPTIONS_REPLAY = "import runpy, sys\nsys.argv = ['c13_native']\nrunpy.run_path('/verif/replay_lib/c13_native.py', run_name='__main__')\n"


LOOP_PROTOCOL_REPLAY = "import runpy, sys\nsys.argv = ['c13_loops']\nrunpy.run_path('/verif/replay_lib/c13_loops.py', run_name='__main__')\n"


def replay(ob):
    if "const_repr.literal_text" in ob["name"] and "[0]" in ob["name"]:
        return LOOP_PROTOCOL_REPLAY.replace("c13_loops", "c13_empty_constant")
    if "local_functions." in ob["name"]:
        return LOOP_PROTOCOL_REPLAY.replace("c13_loops", "c13_local_functions")
    if "assigned_simultaneously" in ob["name"]:
        return LOOP_PROTOCOL_REPLAY.replace("c13_loops", "c13_loop_swap")
    if "attribute_text.evaluates" in ob["name"] and "dtype=object" in ob["name"]:
        return LOOP_PROTOCOL_REPLAY.replace("c13_loops", "c13_strings")
    if "loop.protocol." in ob["name"]:
        return LOOP_PROTOCOL_REPLAY
    if "function.values_and_attribute" in ob["name"]:
        return LOOP_PROTOCOL_REPLAY.replace("c13_loops", "c13_function")
    if "graph_text." in ob["name"] or "initializer.assigned_under" in ob["name"]:
        return OPTIONS_REPLAY
    if "attribute_text.evaluates" in ob["name"]:
        return ATTR_NONFINITE
    if "loop.break_is_printed" in ob["name"]:
        return LOOP_BREAK
    if "loop.header_reads_values" in ob["name"]:
        return INLINE_LOOP
    if "name_remapping_scope" in ob["name"]:
        return LOOP_MODEL
    if "graph_signature.parameters" in ob["name"]:
        return RENAME_SIG
    if "operator_text.parses" in ob["name"]:
        return POW
    if "decorator.names_the_imported" in ob["name"]:
        return OPS_ONLY
    if "distinct_names_stay_distinct" in ob["name"]:
        return COLLIDE
    case = (ob.get("model") or {}).get("case")
    if case:
        return f"import sys\nprint({case!r})\nsys.exit(1)\n"
    return None
