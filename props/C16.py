"""C16 — every registered torch_lib overload binds to its ATen schema."""
MODULES = ["contracts.c16_registry"]
EVIDENCE_EXTRA = {"exhaustive_part": "C16.registry.* obligations enumerate every function returned by get_torchlib_ops()"}


def replay(ob):
    case = (ob.get("model") or {}).get("case")
    if case:
        return ("import sys\n"
                f"print('ground obligation {ob['name']} fails on the real registry:')\n"
                f"print({case!r})\n"
                "sys.exit(1)\n")
    m = ob.get("model") or {}
    if "check_names" in ob["name"] and m.get("name") is not None:
        return ("import sys\nfrom onnxscript.function_libs.torch_lib import registration\n"
                f"name = {m['name']}\n"
                "import re\n"
                "spec = re.fullmatch(r'[A-Za-z0-9_]+::[A-Za-z0-9_]+(\\.[A-Za-z0-9._]+)?', name) is not None and not name.endswith('.default')\n"
                "try:\n    registration._check_and_normalize_names(name); acc = True\nexcept ValueError:\n    acc = False\n"
                "print('name', repr(name), 'accepted' if acc else 'rejected', 'but well-formed is', spec)\n"
                "sys.exit(1 if acc != spec else 0)\n")
    return None
