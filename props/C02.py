"""C02 — every emitted proto is well-formed; bad programs are refused."""
import re

MODULES = ["contracts.c02_wellformed", "contracts.c01_converter", "contracts.c02_modelproto", "contracts.c11_slicing:subscript_scopes"]


def INCLUDE(name):
    m = re.match(r"(C\d\d)\.", name)
    return (m is not None and m.group(1) == "C02") or name.startswith("Converter._generate_unique_name")


NESTED = '''
import sys
import numpy as np, onnx
from onnxscript import script, graph, opset18 as op, FLOAT
@script(default_opset=op)
def f(X: FLOAT["N"]) -> FLOAT["N"]:
    t = X + 1.0
    @graph()
    def body(acc: FLOAT, t: FLOAT):
        s = acc + t
        return s, s
    total, scanned = op.Scan(op.Constant(value_float=0.0), t, body=body, num_scan_inputs=1)
    return scanned + t
m = f.to_model_proto()
outer = {o for n in m.graph.node for o in n.output} | {i.name for i in m.graph.input}
bad = 0
for n in m.graph.node:
    for a in n.attribute:
        if a.type == onnx.AttributeProto.GRAPH:
            inner = [i.name for i in a.g.input] + [o for nn in a.g.node for o in nn.output]
            clash = sorted(set(inner) & outer)
            if clash:
                bad += 1
                print("subgraph of", n.op_type, "redefines outer value name(s)", clash)
sys.exit(1 if bad else 0)
'''


MODELPROTO = '''
import sys, os, tempfile, importlib.util
src = """
from onnxscript import script, FLOAT, BOOL
from onnxscript import opset18 as op
from onnxscript.values import Opset
custom = Opset("my.custom", 3)

@script(custom)
def helper(x):
    return op.Add(x, x)

@script(default_opset=op)
def top_level(x: FLOAT[None]) -> FLOAT[None]:
    return helper(x)

@script(default_opset=op)
def in_branch(x: FLOAT[None], c: BOOL) -> FLOAT[None]:
    if c:
        y = helper(x)
    else:
        y = op.Identity(x)
    return y

@script(default_opset=op)
def in_loop(x: FLOAT[None]) -> FLOAT[None]:
    acc = x
    for i in range(3):
        acc = helper(acc)
    return acc

d1 = Opset("dom.one", 1)
d2 = Opset("dom.two", 1)

@script(d1, default_opset=op)
def F(x):
    return op.Add(x, op.Constant(value_float=1.0))

F1 = F

@script(d2, default_opset=op)
def F(x):
    return op.Mul(x, op.Constant(value_float=10.0))

F2 = F

@script(default_opset=op)
def same_name_two_domains(x: FLOAT[None]) -> FLOAT[None]:
    return F1(x) + F2(x)
"""
d = tempfile.mkdtemp(); path = os.path.join(d, "mp_case.py"); open(path, "w").write(src)
spec = importlib.util.spec_from_file_location("mp_case", path); mod = importlib.util.module_from_spec(spec); sys.modules["mp_case"] = mod; spec.loader.exec_module(mod)
import onnx
bad = 0
for name in ("top_level", "in_branch", "in_loop", "same_name_two_domains"):
    m = getattr(mod, name).to_model_proto()
    def calls(g):
        for n in g.node:
            if n.domain not in ("", "ai.onnx"):
                yield (n.domain, n.op_type)
            for a in n.attribute:
                if a.HasField("g"):
                    yield from calls(a.g)
    have = {(f.domain, f.name) for f in m.functions}
    absent = sorted(set(calls(m.graph)) - have)
    if absent:
        print(f"{name}: the graph calls {absent} but the model only carries the functions {sorted(have)}")
        bad += 1
        continue
    doms = [o.domain for o in m.opset_import]
    fdoms = sorted({f.domain for f in m.functions})
    missing = [d for d in fdoms if d not in doms]
    if missing or len(doms) != len(set(doms)):
        print(f"{name}: model functions live in domains {fdoms} but opset_import = {doms}")
        bad += 1
        continue
    try:
        onnx.checker.check_model(m)
    except Exception as e:
        print(f"{name}: checker rejects the model: {str(e).splitlines()[0][:150]}")
        bad += 1
sys.exit(1 if bad else 0)
'''


NESTED_RET = '''
import sys, os, tempfile, importlib.util
src = """
from typing import Tuple
from onnxscript import script, FLOAT
from onnxscript import opset18 as op

@script(default_opset=op)
def untyped_body(x: FLOAT["N"]) -> FLOAT["N"]:
    def body(s, a):
        t = s + a
        return t, t
    total, cum = op.Scan(op.Constant(value_float=0.0), x, body=body, num_scan_inputs=1)
    return cum

def typed_body():
    @script(default_opset=op)
    def f(x: FLOAT["N"]) -> FLOAT["N"]:
        def body(s: FLOAT, a: FLOAT) -> Tuple[FLOAT, FLOAT]:
            t = s + a
            return t, t
        total, cum = op.Scan(op.Constant(value_float=0.0), x, body=body, num_scan_inputs=1)
        return cum
    return f
"""
d = tempfile.mkdtemp(); path = os.path.join(d, "nr_case.py"); open(path, "w").write(src)
spec = importlib.util.spec_from_file_location("nr_case", path); mod = importlib.util.module_from_spec(spec); sys.modules["nr_case"] = mod; spec.loader.exec_module(mod)
import onnx
bad = 0
m = mod.untyped_body.to_model_proto()
try:
    onnx.checker.check_model(m, full_check=True)
except Exception as e:
    print("a function annotated `-> FLOAT[N]` that defines an un-annotated nested Scan body: the model output has no type; checker:", str(e).splitlines()[0][:150])
    bad += 1
try:
    mod.typed_body().to_model_proto()
except Exception as e:
    print("a function annotated `-> FLOAT[N]` with a nested body annotated `-> Tuple[FLOAT, FLOAT]` is refused:", str(e).splitlines()[0][:220])
    bad += 1
sys.exit(1 if bad else 0)
'''


RETURN_ALIAS = '''
import sys, os, tempfile, importlib.util
src = """
from onnxscript import script, FLOAT
from onnxscript import opset18 as op

@script(default_opset=op)
def rebound(x: FLOAT["N"]) -> FLOAT["N"]:
    y = x
    x = x + 1.0
    return y

@script(default_opset=op)
def nested(x: FLOAT["N"]) -> FLOAT["N"]:
    def body(s, a):
        t = s + a
        return t, a
    total, same = op.Scan(op.Constant(value_float=0.0), x, body=body, num_scan_inputs=1)
    return same

from onnxscript import graph, INT64, BOOL

@script(default_opset=op)
def outer_value(x: FLOAT[2], n: INT64) -> FLOAT[2]:
    t = x + 1.0
    @graph()
    def body(i: INT64, cond: BOOL, a: FLOAT[2]) -> (BOOL, FLOAT[2]):
        return cond, t
    c = op.Cast(op.Constant(value_int=1), to=9)
    r = op.Loop(n, c, x, body=body)
    return r
"""
d = tempfile.mkdtemp(); path = os.path.join(d, "ra_case.py"); open(path, "w").write(src)
spec = importlib.util.spec_from_file_location("ra_case", path); mod = importlib.util.module_from_spec(spec); sys.modules["ra_case"] = mod; spec.loader.exec_module(mod)
bad = 0
def graphs(g):
    yield g
    for n in g.node:
        for a in n.attribute:
            if a.HasField("g"):
                yield from graphs(a.g)
for name in ("rebound", "nested", "outer_value"):
    m = getattr(mod, name).to_model_proto()
    for g in graphs(m.graph):
        ins = {i.name for i in g.input}
        direct = [o.name for o in g.output if o.name in ins]
        if direct:
            print(f"{name}: graph {g.name!r} returns its input(s) {direct} directly as output(s)")
            bad += 1
        produced = {o for n in g.node for o in n.output} | {i.name for i in g.initializer}
        foreign = [o.name for o in g.output if o.name not in produced and o.name not in ins]
        if foreign:
            print(f"{name}: graph {g.name!r} has output(s) {foreign} that no node of that graph produces (a value of the enclosing function)")
            bad += 1
sys.exit(1 if bad else 0)
'''


SCOPE_DOMAIN = '''
import sys, os, tempfile, importlib.util
src = """
from onnxscript import script, FLOAT, BOOL
from onnxscript import opset18 as op
from onnxscript.values import Opset
custom = Opset("my.custom", 3)

@script(default_opset=op)
def in_branch(x: FLOAT["N"], c: BOOL) -> FLOAT["N"]:
    if c:
        y = custom.Foo(x)
    else:
        y = op.Identity(x)
    return y

@script(default_opset=op)
def in_loop(x: FLOAT["N"]) -> FLOAT["N"]:
    acc = x
    for i in range(3):
        acc = custom.Foo(acc)
    return acc
"""
d = tempfile.mkdtemp(); path = os.path.join(d, "sd_case.py"); open(path, "w").write(src)
spec = importlib.util.spec_from_file_location("sd_case", path); mod = importlib.util.module_from_spec(spec); sys.modules["sd_case"] = mod; spec.loader.exec_module(mod)
import onnx
bad = 0
for name in ("in_branch", "in_loop"):
    f = getattr(mod, name)
    fdoms = [o.domain for o in f.to_function_proto().opset_import]
    mdoms = [o.domain for o in f.to_model_proto().opset_import]
    if "my.custom" not in fdoms or "my.custom" not in mdoms:
        print(f"{name}: my.custom.Foo is used inside a control-flow body, but the function imports {fdoms} and the model imports {mdoms}")
        bad += 1
sys.exit(1 if bad else 0)
'''


MIXED_OPSETS = '''
import sys, os, tempfile, importlib.util
src = """
from onnxscript import script, FLOAT
from onnxscript import opset12, opset18
from onnxscript.values import Opset
local = Opset("local.fn", 1)

@script(local, default_opset=opset18)
def twice(x):
    return opset18.Add(x, x)

@script(default_opset=opset12)
def main_fn(X: FLOAT[2]) -> FLOAT[2]:
    return twice(opset12.Relu(X))
"""
d = tempfile.mkdtemp(); path = os.path.join(d, "mo_case.py"); open(path, "w").write(src)
spec = importlib.util.spec_from_file_location("mo_case", path); mod = importlib.util.module_from_spec(spec); sys.modules["mo_case"] = mod; spec.loader.exec_module(mod)
import onnx
m = mod.main_fn.to_model_proto()
vers = {o.domain: o.version for o in m.opset_import}
fvers = {f.name: {o.domain: o.version for o in f.opset_import} for f in m.functions}
try:
    onnx.checker.check_model(m)
except Exception as e:
    print(f"accepted script (main graph written against opset 12, called function against opset 18): model imports {vers}, function imports {fvers}; onnx.checker: {str(e).splitlines()[0][:200]}")
    sys.exit(1)
sys.exit(0)
'''


SUBSCRIPT_SCOPES = '''
# the same slice used inside an if-branch / a loop body and again outside (or in the sibling branch): checker + onnxruntime vs eager
import sys
import numpy as np
import onnx, onnxruntime as ort
from onnxscript import script, FLOAT, BOOL, INT64
from onnxscript import opset18 as op
@script(default_opset=op)
def branch_then_outside(x: FLOAT[4], c: BOOL) -> FLOAT[2]:
    if c:
        y = x[1:3]
    else:
        y = x[0:2] * 2.0
    z = x[1:3]
    return y + z
@script(default_opset=op)
def both_branches(x: FLOAT[4], c: BOOL) -> FLOAT[2]:
    if c:
        y = x[1:3]
    else:
        y = x[1:3] * 2.0
    return y
@script(default_opset=op)
def loop_then_outside(x: FLOAT[4], n: INT64) -> FLOAT[2]:
    acc = x[0:2]
    for i in range(n):
        acc = acc + x[1:3]
    return acc + x[1:3]
bad = 0
x = np.array([1, 2, 3, 4], np.float32)
for fn, extra, name in ((branch_then_outside, np.array(True), "c"), (branch_then_outside, np.array(False), "c"), (both_branches, np.array(False), "c"),
                        (loop_then_outside, np.array(2, np.int64), "n")):
    m = fn.to_model_proto()
    eager = np.asarray(fn(x, extra))
    try:
        onnx.checker.check_model(m, full_check=True)
        graph = ort.InferenceSession(m.SerializeToString()).run(None, {"x": x, name: extra})[0]
    except Exception as e:
        print(f"{fn.name}({name}={extra}): the emitted model is rejected: {str(e).splitlines()[0][:200]}"); bad += 1; continue
    if not np.array_equal(graph, eager):
        print(f"{fn.name}({name}={extra}): graph {graph.tolist()}, eager {eager.tolist()}"); bad += 1
sys.exit(1 if bad else 0)
'''


def replay(ob):
    if "subscript.operands_are_defined_in_the_graph" in ob["name"]:
        return SUBSCRIPT_SCOPES
    if "outputs_are_pairwise_distinct_values" in ob["name"]:
        from props import C01
        return C01.DUP_OUTPUTS
    if "functions_use_the_default_domain_at_the_version" in ob["name"]:
        return MIXED_OPSETS
    if "to_model_proto.default_domain_version" in ob["name"] or "main_graph_imports_keep_their_versions" in ob["name"]:
        return "import runpy, sys\nsys.argv = ['c01_opsets']\nrunpy.run_path('/verif/replay_lib/c01_opsets.py', run_name='__main__')\n"
    if "scope.domains_used_inside_a_block" in ob["name"]:
        return SCOPE_DOMAIN
    if "return.no_graph_input_returned_directly" in ob["name"] or "return.outputs_produced_in_this_graph" in ob["name"]:
        return RETURN_ALIAS
    if "nested_def.declared_return_types" in ob["name"]:
        return NESTED_RET
    if "to_model_proto" in ob["name"] or "get_called_functions" in ob["name"]:
        return MODELPROTO
    if "signature" in ob["name"]:
        return NESTED
    return None
