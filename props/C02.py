"""C02 — every emitted proto is well-formed; bad programs are refused."""
import re

MODULES = ["contracts.c02_wellformed", "contracts.c01_converter"]


def INCLUDE(name):
    m = re.match(r"(C\d\d)\.", name)
    return (m is not None and m.group(1) == "C02") or name.startswith("Converter._generate_unique_name")


NESTED = '''
import sys
import numpy as np, onnx
from onnxscript import script, graph, opset18 as op, FLOAT
@script(default_opset=op)
def f(X: FLOAT["N"]) -> FLOAT["N"]:
    t = X + 1.0
    @graph()
    def body(acc: FLOAT, t: FLOAT):
        s = acc + t
        return s, s
    total, scanned = op.Scan(op.Constant(value_float=0.0), t, body=body, num_scan_inputs=1)
    return scanned + t
m = f.to_model_proto()
outer = {o for n in m.graph.node for o in n.output} | {i.name for i in m.graph.input}
bad = 0
for n in m.graph.node:
    for a in n.attribute:
        if a.type == onnx.AttributeProto.GRAPH:
            inner = [i.name for i in a.g.input] + [o for nn in a.g.node for o in nn.output]
            clash = sorted(set(inner) & outer)
            if clash:
                bad += 1
                print("subgraph of", n.op_type, "redefines outer value name(s)", clash)
sys.exit(1 if bad else 0)
'''


def replay(ob):
    if "signature" in ob["name"]:
        return NESTED
    return None
