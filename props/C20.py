"""C20 — saving with external data."""
MODULES = ["contracts.c20_save"]

REPLAY = '''
import sys, os, tempfile
import numpy as np
import onnx_ir as ir
from onnxscript._framework_apis import torch_2_5
bad = 0
def mk(uninit):
    w = ir.Value(name="w", shape=ir.Shape([2, 2]), type=ir.TensorType(ir.DataType.FLOAT),
                 const_value=None if uninit else ir.tensor(np.arange(4, dtype=np.float32).reshape(2, 2), name="w"))
    x = ir.Value(name="x", shape=ir.Shape([2, 2]), type=ir.TensorType(ir.DataType.FLOAT))
    n = ir.node("Add", [x, w])
    n.outputs[0].name = "y"; n.outputs[0].shape = ir.Shape([2, 2]); n.outputs[0].type = ir.TensorType(ir.DataType.FLOAT)
    g = ir.Graph([x], [n.outputs[0]], nodes=[n], initializers=[w], opset_imports={"": 18}, name="g")
    return ir.Model(g, ir_version=10)
d = tempfile.mkdtemp()
# refusal before writing anything
m = mk(True)
p = os.path.join(d, "sub", "m.onnx"); os.makedirs(os.path.dirname(p))
try:
    torch_2_5.save_model_with_external_data(m, p)
    print("uninitialized initializer not refused"); bad += 1
except ValueError:
    pass
except Exception as e:
    print("refusal is not a ValueError:", repr(e)); bad += 1
if os.listdir(os.path.dirname(p)):
    print("files written although the model was refused:", os.listdir(os.path.dirname(p))); bad += 1
# success: sibling data file, model untouched
m = mk(False)
t_before = m.graph.initializers["w"].const_value
torch_2_5.save_model_with_external_data(m, p)
files = sorted(os.listdir(os.path.dirname(p)))
if files != ["m.onnx", "m.onnx.data"]:
    print("expected model file and sibling data file, found", files); bad += 1
if m.graph.initializers["w"].const_value is not t_before:
    print("in-memory initializer tensor was replaced"); bad += 1
else:
    try:
        if not np.array_equal(t_before.numpy(), np.arange(4, dtype=np.float32).reshape(2, 2)): bad += 1; print("tensor data changed")
    except Exception as e:
        print("tensor unreadable after save:", repr(e)); bad += 1
if bad == 0 and files == ["m.onnx", "m.onnx.data"]:
    m2 = ir.load(p)
    if not np.array_equal(m2.graph.initializers["w"].const_value.numpy(), np.arange(4, dtype=np.float32).reshape(2, 2)):
        print("loaded data differs"); bad += 1
sys.exit(1 if bad else 0)
'''


def replay(ob):
    return REPLAY
