"""C18 — GraphBuilder / nn.Module naming."""
# BuilderBase.call_op partitions its arguments with param_manipulation.separate_input_attributes_from_arguments (contract shared with C01)
MODULES = ["contracts.c18_builder", "contracts.c12_autocast", "contracts.c01_calling:separate", "contracts.c18_nn_tree"]


def INCLUDE(name):
    return name.startswith("C18.") or name.startswith("C12.builder") or name.startswith("C01.calling.separate")

SUB = '''
import sys
import onnx_ir as ir
from onnxscript._internal import builder
g = ir.Graph(inputs=[], outputs=[], nodes=[], opset_imports={"": 21}, name="g")
b = builder.GraphBuilder(g)
x = b.input("x", dtype=ir.DataType.FLOAT, shape=[2])
y = b.op.Add(x, x)
def body(op, a):
    return op.Add(a, a)
sub = b.subgraph(body, [ir.Value(name="a", type=ir.TensorType(ir.DataType.FLOAT), shape=ir.Shape([2]))],
                 [ir.Value(name="o", type=ir.TensorType(ir.DataType.FLOAT), shape=ir.Shape([2]))])
outer_vals = {v.name for n in g for v in n.outputs}
outer_nodes = {n.name for n in g}
inner_vals = {v.name for n in sub for v in n.outputs}
inner_nodes = {n.name for n in sub}
bad = 0
if outer_vals & inner_vals:
    bad += 1; print("value name(s) used both in the main graph and in its subgraph:", sorted(outer_vals & inner_vals))
if outer_nodes & inner_nodes:
    bad += 1; print("node name(s) used both in the main graph and in its subgraph:", sorted(outer_nodes & inner_nodes))
sys.exit(1 if bad else 0)
'''

EXPLICIT = '''
import sys
import onnx_ir as ir
import onnxscript.nn as nn
from onnxscript._internal import builder
class Lin(nn.Module):
    def __init__(self, name=None):
        super().__init__(name)
        self.weight = nn.Parameter([2, 2], name="w_explicit")
    def forward(self, op, x):
        return op.MatMul(x, self.weight)
class Net(nn.Module):
    def __init__(self):
        super().__init__("net")
        self.fc = Lin(name="dense")
    def forward(self, op, x):
        return self.fc(op, x)
g = ir.Graph(inputs=[], outputs=[], nodes=[], opset_imports={"": 21}, name="g")
b = builder.GraphBuilder(g)
x = b.input("x", dtype=ir.DataType.FLOAT, shape=[2, 2])
net = Net()
net(b.op, x)
inits = sorted(g.initializers)
keys = sorted("net." + k for k in net.state_dict())
if inits != keys:
    print("initializer names", inits, "!= root name + state_dict keys", keys)
    sys.exit(1)
sys.exit(0)
'''


IN_BODY = '''
import sys
import onnx_ir as ir
from onnxscript import nn
from onnxscript._internal import builder as B

class Lin(nn.Module):
    def __init__(self, name=None):
        super().__init__(name)
        self.weight = nn.Parameter([2, 2])
    def forward(self, op, x):
        return op.MatMul(x, self.weight)

class Net(nn.Module):
    def __init__(self):
        super().__init__("net")
        self.fc1 = Lin()
        self.fc2 = Lin()
    def forward(self, op, x):
        def body(op2, xi):
            return self.fc2(op2, self.fc1(op2, xi))
        xi = ir.Value(name="xi", type=ir.TensorType(ir.DataType.FLOAT), shape=ir.Shape([2, 2]))
        yo = ir.Value(name="yo", type=ir.TensorType(ir.DataType.FLOAT), shape=ir.Shape([2, 2]))
        op.builder.subgraph(body, [xi], [yo], name="body")
        return op.Identity(x)

graph = ir.Graph([], [], nodes=[], opset_imports={"": 21}, name="main")
gb = B.GraphBuilder(graph)
net = Net()
x = gb.input("x", ir.DataType.FLOAT, [2, 2])
net(gb.op, x)
got = sorted(graph.initializers)
want = sorted("net." + k for k in net.state_dict())
if got != want:
    print(f"modules called inside a control-flow body: initializers {got} but root name + state_dict keys {want}")
    sys.exit(1)
sys.exit(0)
'''


INLINE_LITERAL = r'''
import sys
import numpy as np
import onnx_ir as ir
from onnxscript import script, FLOAT
from onnxscript import opset21 as op
from onnxscript._internal import builder as B

@script(default_opset=op)
def addmul(a: FLOAT[2], b: FLOAT[2]) -> FLOAT[2]:
    return (a + b) * b

def build(literal):
    g = ir.Graph([], [], nodes=[], opset_imports={"": 21}, name="main")
    gb = B.GraphBuilder(g)
    x = gb.input("x", ir.DataType.FLOAT, [2])
    y = gb.call_inline(addmul, x, [1.0, 2.0] if literal else x)
    y.name = "y"; y.type = ir.TensorType(ir.DataType.FLOAT); y.shape = ir.Shape([2])
    g.outputs.append(y)
    return ir.to_proto(ir.Model(g, ir_version=10))
import onnxruntime as ort
x = np.array([1.0, 2.0], dtype=np.float32)
want = ort.InferenceSession(build(False).SerializeToString(), providers=["CPUExecutionProvider"]).run(None, {"x": x})[0]
try:
    got = ort.InferenceSession(build(True).SerializeToString(), providers=["CPUExecutionProvider"]).run(None, {"x": x})[0]
except Exception as e:
    print("call_inline(addmul, x, [1.0, 2.0]) with a Python literal operand fails:", type(e).__name__, str(e).splitlines()[0][:150], "— with a tensor operand it gives", want.tolist())
    sys.exit(1)
sys.exit(0 if np.allclose(want, got) else 1)
'''

CONTAINERS = '''
import sys
import numpy as np
import onnx_ir as ir
from onnxscript import nn
from onnxscript._internal import builder
class Leaf(nn.Module):
    def __init__(self, name=None):
        super().__init__(name)
        self.w = nn.Parameter([2], data=ir.tensor(np.ones(2, np.float32)))
    def forward(self, op, x):
        return op.Add(x, self.w)
class Plain(nn.Module):
    def forward(self, op, x):
        return op.Relu(x)
bad = 0
for container in ("Sequential", "ModuleList"):
    for order in ("constructor", "append after attach", "append before attach"):
        for leaf_name in (None, "fc_custom"):
            class Root(nn.Module):
                def __init__(self):
                    super().__init__("model")
                    mk = (lambda ms: nn.Sequential(*ms)) if container == "Sequential" else (lambda ms: nn.ModuleList(ms))
                    if order == "constructor":
                        self.seq = mk([Plain(), Leaf(name=leaf_name)])
                    elif order == "append after attach":
                        self.seq = mk([Plain()])
                        self.seq.append(Leaf(name=leaf_name))
                    else:
                        s = mk([Plain()])
                        s.append(Leaf(name=leaf_name))
                        self.seq = s
                def forward(self, op, x):
                    if container == "Sequential":
                        return self.seq(op, x)
                    for m in self.seq:
                        x = m(op, x)
                    return x
            root = Root()
            x = ir.Value(name="x", shape=ir.Shape([2]), type=ir.TensorType(ir.DataType.FLOAT))
            g = ir.Graph([x], [], nodes=[], opset_imports={"": 18}, name="g")
            root(builder.GraphBuilder(g).op, x)
            want = sorted("model." + k for k in root.state_dict())
            if sorted(g.initializers) != want:
                print(f"{container}, {order}, child name {leaf_name!r}: initializers {sorted(g.initializers)} but state_dict keys {sorted(root.state_dict())}")
                bad += 1
sys.exit(1 if bad else 0)
'''


PARTITION_HISTORY = '''
import sys
import numpy as np
import onnx
import onnx_ir as ir
from onnxscript._internal import builder as _builder
def trace(opset):
    graph = ir.Graph(name=f"prog{opset}", inputs=[], outputs=[], nodes=[], opset_imports={"": opset})
    gb = _builder.GraphBuilder(graph)
    op = gb.op
    x = gb.input("x", ir.DataType.FLOAT, [2, 3])
    m = op.ReduceMean(x, [1], keepdims=0) if opset >= 18 else op.ReduceMean(x, axes=[1], keepdims=0)
    gb.add_output(m, "y")
    m.type = ir.TensorType(ir.DataType.FLOAT); m.shape = ir.Shape([2])
    return graph
bad = 0
for opset in (17, 23, 17):
    try:
        g = trace(opset)
        node = next(n for n in g if n.op_type == "ReduceMean")
        onnx.checker.check_model(ir.to_proto(ir.Model(g, ir_version=9)), full_check=True)
    except Exception as e:
        print(f"opset {opset} program traced after the other opset: {type(e).__name__}: {str(e).splitlines()[0][:200]}")
        bad += 1
sys.exit(1 if bad else 0)
'''


NESTED_SCOPE = '''
import sys
import numpy as np
import onnx_ir as ir
from onnxscript import nn
from onnxscript._internal import builder
from onnxscript._internal.builder import GraphBuilder
def val(name):
    return ir.Value(name=name, shape=ir.Shape([1, 4]), type=ir.TensorType(ir.DataType.FLOAT))
class Linear(nn.Module):
    def __init__(self):
        super().__init__()
        self.weight = nn.Parameter([4, 4], data=ir.tensor(np.eye(4, dtype=np.float32)))
    def forward(self, op, x):
        return op.MatMul(x, self.weight)
class Block(nn.Module):
    def __init__(self):
        super().__init__()
        self.proj = Linear()
    def forward(self, op, x, flag):
        t = op.builder.subgraph(lambda op: self.proj(op, x), inputs=[], outputs=[val("p")], name="inner_then")
        e = op.builder.subgraph(lambda op: op.Neg(x), inputs=[], outputs=[val("n")], name="inner_else")
        return op.If(flag, then_branch=t, else_branch=e)
class Model(nn.Module):
    def __init__(self):
        super().__init__("model")
        self.block = Block()
    def forward(self, op, x, c1, c2):
        t = op.builder.subgraph(lambda op: self.block(op, x, c2), inputs=[], outputs=[val("b")], name="outer_then")
        e = op.builder.subgraph(lambda op: op.Abs(x), inputs=[], outputs=[val("a")], name="outer_else")
        return op.If(c1, then_branch=t, else_branch=e)
m = Model()
x = val("x")
c1 = ir.Value(name="c1", shape=ir.Shape([]), type=ir.TensorType(ir.DataType.BOOL)); c2 = ir.Value(name="c2", shape=ir.Shape([]), type=ir.TensorType(ir.DataType.BOOL))
g = ir.Graph([x, c1, c2], [], nodes=[], opset_imports={"": 18}, name="g")
m(GraphBuilder(g).op, x, c1, c2)
want = sorted("model." + k for k in m.state_dict())
if sorted(g.initializers) != want:
    print("module called two subgraph levels down: initializers", sorted(g.initializers), "but state_dict keys", sorted(m.state_dict()))
    sys.exit(1)
sys.exit(0)
'''


INLINE_REPLAY = "import runpy, sys\nsys.argv = ['c18_inline']\nrunpy.run_path('/verif/replay_lib/c18_inline.py', run_name='__main__')\n"


NN_NATIVE = '''
# the nn / builder scenarios of contracts/c18_nn_tree.py are native: they run the REAL classes; re-run them and print what fails
import sys
sys.path.insert(0, "/verif")
from contracts import c18_nn_tree as T
bad = 0
for fn in (T.s_nn_tree, T.s_builder_graph_io, T.s_nn_histories):
    for name, ob in fn(None)["obligations"].items():
        if ob["status"] != "proved":
            print(name, "-", str(ob.get("detail"))[:300]); bad += 1
sys.exit(1 if bad else 0)
'''


def replay(ob):
    if ob["name"].startswith(("C18.nn.tree.", "C18.nn.module_list.a_slice", "C18.nn.module_list.getitem", "C18.nn.load_state_dict.", "C18.nn.subgraph.modules_called", "C18.builder.input.",
                              "C18.builder.initializer.registered", "C18.builder.subgraph.", "C18.builder.add_output.", "C18.builder.names_are_unique_across")):
        return NN_NATIVE
    if ob["name"].startswith("C01.calling."):
        from props import C01
        return C01.KEYWORD_INPUT
    if "inliner.instantiate" in ob["name"]:
        return INLINE_REPLAY
    n = ob["name"]
    if "C18.builder.build_graph." in n:
        return NESTED_SCOPE
    if "C18.builder.partition." in n:
        return PARTITION_HISTORY
    if "C18.nn.sequential." in n or "C18.nn.module_list." in n:
        return CONTAINERS
    if "call_inline.operands_are_promoted" in n:
        return INLINE_LITERAL
    if "module_called_in_a_subgraph_body" in n:
        return IN_BODY
    if "subgraph" in n:
        return SUB
    if "with_explicit_names" in n:
        return EXPLICIT
    return None
