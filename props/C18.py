"""C18 — GraphBuilder / nn.Module naming."""
MODULES = ["contracts.c18_builder", "contracts.c12_autocast"]


def INCLUDE(name):
    return name.startswith("C18.") or name.startswith("C12.builder")

SUB = '''
import sys
import onnx_ir as ir
from onnxscript._internal import builder
g = ir.Graph(inputs=[], outputs=[], nodes=[], opset_imports={"": 21}, name="g")
b = builder.GraphBuilder(g)
x = b.input("x", dtype=ir.DataType.FLOAT, shape=[2])
y = b.op.Add(x, x)
def body(op, a):
    return op.Add(a, a)
sub = b.subgraph(body, [ir.Value(name="a", type=ir.TensorType(ir.DataType.FLOAT), shape=ir.Shape([2]))],
                 [ir.Value(name="o", type=ir.TensorType(ir.DataType.FLOAT), shape=ir.Shape([2]))])
outer_vals = {v.name for n in g for v in n.outputs}
outer_nodes = {n.name for n in g}
inner_vals = {v.name for n in sub for v in n.outputs}
inner_nodes = {n.name for n in sub}
bad = 0
if outer_vals & inner_vals:
    bad += 1; print("value name(s) used both in the main graph and in its subgraph:", sorted(outer_vals & inner_vals))
if outer_nodes & inner_nodes:
    bad += 1; print("node name(s) used both in the main graph and in its subgraph:", sorted(outer_nodes & inner_nodes))
sys.exit(1 if bad else 0)
'''

EXPLICIT = '''
import sys
import onnx_ir as ir
import onnxscript.nn as nn
from onnxscript._internal import builder
class Lin(nn.Module):
    def __init__(self, name=None):
        super().__init__(name)
        self.weight = nn.Parameter([2, 2], name="w_explicit")
    def forward(self, op, x):
        return op.MatMul(x, self.weight)
class Net(nn.Module):
    def __init__(self):
        super().__init__("net")
        self.fc = Lin(name="dense")
    def forward(self, op, x):
        return self.fc(op, x)
g = ir.Graph(inputs=[], outputs=[], nodes=[], opset_imports={"": 21}, name="g")
b = builder.GraphBuilder(g)
x = b.input("x", dtype=ir.DataType.FLOAT, shape=[2, 2])
net = Net()
net(b.op, x)
inits = sorted(g.initializers)
keys = sorted("net." + k for k in net.state_dict())
if inits != keys:
    print("initializer names", inits, "!= root name + state_dict keys", keys)
    sys.exit(1)
sys.exit(0)
'''


IN_BODY = '''
import sys
import onnx_ir as ir
from onnxscript import nn
from onnxscript._internal import builder as B

class Lin(nn.Module):
    def __init__(self, name=None):
        super().__init__(name)
        self.weight = nn.Parameter([2, 2])
    def forward(self, op, x):
        return op.MatMul(x, self.weight)

class Net(nn.Module):
    def __init__(self):
        super().__init__("net")
        self.fc1 = Lin()
        self.fc2 = Lin()
    def forward(self, op, x):
        def body(op2, xi):
            return self.fc2(op2, self.fc1(op2, xi))
        xi = ir.Value(name="xi", type=ir.TensorType(ir.DataType.FLOAT), shape=ir.Shape([2, 2]))
        yo = ir.Value(name="yo", type=ir.TensorType(ir.DataType.FLOAT), shape=ir.Shape([2, 2]))
        op.builder.subgraph(body, [xi], [yo], name="body")
        return op.Identity(x)

graph = ir.Graph([], [], nodes=[], opset_imports={"": 21}, name="main")
gb = B.GraphBuilder(graph)
net = Net()
x = gb.input("x", ir.DataType.FLOAT, [2, 2])
net(gb.op, x)
got = sorted(graph.initializers)
want = sorted("net." + k for k in net.state_dict())
if got != want:
    print(f"modules called inside a control-flow body: initializers {got} but root name + state_dict keys {want}")
    sys.exit(1)
sys.exit(0)
'''


def replay(ob):
    n = ob["name"]
    if "module_called_in_a_subgraph_body" in n:
        return IN_BODY
    if "subgraph" in n:
        return SUB
    if "with_explicit_names" in n:
        return EXPLICIT
    return None
