"""C03 — optimize() never changes what a model computes (kernel obligations; large assumed part)."""
import re

MODULES = ["contracts.c03_folding", "contracts.c04_process", "contracts.c05_rules"]


def INCLUDE(name):
    m = re.match(r"(C\d\d)\.", name)
    return m is not None and m.group(1) in ("C03", "C09", "C05")


def replay(ob):
    from props import C05, C09
    return C09.replay(ob) or C05.replay(ob)
