"""C03 — optimize() never changes what a model computes (kernel obligations; large assumed part)."""
import re

MODULES = ["contracts.c03_folding", "contracts.c04_process"]


def INCLUDE(name):
    m = re.match(r"(C\d\d)\.", name)
    return m is not None and m.group(1) in ("C03", "C09")


def replay(ob):
    from props import C09
    return C09.replay(ob)
