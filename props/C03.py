"""C03 — optimize() never changes what a model computes (kernel obligations; large assumed part)."""
import re

MODULES = ["contracts.c03_folding", "contracts.c04_process", "contracts.c05_rules", "contracts.c05_batchnorm", "contracts.c05_basic"]


def INCLUDE(name):
    m = re.match(r"(C\d\d)\.", name)
    if m is None:   # inductive loop invariants of functions under a C03 contract
        return ".loop" in name   # every loop invariant of the scenario modules this check runs
    # inlining a constant-condition If must keep every branch initializer (contract filed under C04: move_initializers)
    return m.group(1) in ("C03", "C09", "C05") or name.startswith("C04.folding.move_initializers.")


def replay(ob):
    from props import C05, C09
    if "folding.split_to_sequence." in ob["name"]:
        return "import sys\nsys.path.insert(0, '/verif')\nfrom replay_lib.opt_native import main\nmain(['split_to_sequence_keepdims'])\n"
    if "predates_the_implemented_semantics" in ob["name"]:
        return "import sys\nsys.path.insert(0, '/verif')\nfrom replay_lib.opt_native import main\nmain(['softmax_old_opset'])\n"
    if "unresolved_attribute_reference" in ob["name"]:
        return "import sys\nsys.path.insert(0, '/verif')\nfrom replay_lib.opt_native import main\nmain(['attr_ref'])\n"
    if "process_node.any_inputs" in ob["name"] or "process_node.loop" in ob["name"]:
        return "import sys\nsys.path.insert(0, '/verif')\nfrom replay_lib.opt_native import main\nmain(['nondeterministic', 'initializer', 'attr_ref'])\n"
    if "evaluation_only_behind_all_guards" in ob["name"]:
        return "import sys\nsys.path.insert(0, '/verif')\nfrom replay_lib.opt_native import main\nmain(['nondeterministic', 'initializer'])\n"
    return C09.replay(ob) or C05.replay(ob)
