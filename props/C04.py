"""C04 — optimize() is total on valid models; result valid, same interface."""
import re

MODULES = ["contracts.c03_folding", "contracts.c04_process", "contracts.c07_rewrite", "contracts.c05_rules", "contracts.c05_batchnorm", "contracts.c05_basic", "contracts.c04_pipeline", "contracts.c09_expand:any rank"]
HEAD = "import sys\nsys.path.insert(0, '/verif')\nfrom replay_lib.opt_native import main\n"


def INCLUDE(name):
    m = re.match(r"(C\d\d)\.", name)
    return (m is not None and m.group(1) == "C04") or name.startswith("FoldConstantsPass.process_node.loop") or name.startswith("C07.update_opset_imports") or name.startswith("C07.apply.existing_initializer") or name.startswith("C07.try_rewrite.opset_imports") or name.startswith("C07.apply_to_model.namefix")


def replay(ob):
    n = ob["name"]
    if "do_inference" in n:
        return HEAD + "main(['initializer_shape_inference', 'initializer'])\n"
    if "process_node.never_raises_when_an_initializer" in n or "process_node.an_existing_initializer" in n or "process_node.the_folded_value_is_registered" in n:
        return HEAD + "main(['two_ifs_same_name'])\n"
    if "ScatterAllDynamic.check_never_raises" in n:
        return HEAD + "main(['scatter_dynamic_axis_range'])\n"
    if "optimize_ir.value_names_are_unique" in n:
        return HEAD + "main(['pipeline_names'])\n"
    if ".gather." in n:
        return HEAD + "main(['gather'])\n"
    if "none_for_graph_inputs" in n or "process_node.any_inputs" in n or "process_node.loop" in n:
        return HEAD + "main(['initializer'])\n"
    if "split_to_sequence" in n:
        return HEAD + "main(['split'])\n"
    if "ScatterAllStatic.check_never_raises" in n:
        return HEAD + "main(['scatter_symbolic_dim'])\n"
    if "rewrite_never_raises" in n:
        return HEAD + "main(['clip_no_type'])\n"
    if "existing_initializer" in n:
        from props.C07 import CLASH
        return CLASH
    return None
