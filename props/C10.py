"""C10 — opset version conversion."""
MODULES = ["contracts.c10_version", "contracts.c15_wrappers"]
from props.C15 import CONVERT  # noqa: E402

RAISED = '''
import sys
import numpy as np, onnx
from onnx import helper, TensorProto
from onnx.reference import ReferenceEvaluator
import onnx_ir as ir
import onnxscript.version_converter as vc
x = helper.make_tensor_value_info("x", TensorProto.FLOAT, None)
y = helper.make_tensor_value_info("y", TensorProto.FLOAT, None)
sc = helper.make_tensor("scale", TensorProto.FLOAT, [2], [1.0, 2.0])
bi = helper.make_tensor("bias", TensorProto.FLOAT, [2], [0.5, -0.5])
g = helper.make_graph([helper.make_node("GroupNormalization", ["x", "scale", "bias"], ["y"], num_groups=2)], "g", [x], [y], [sc, bi])
m = helper.make_model(g, opset_imports=[helper.make_opsetid("", 20)], ir_version=9)
X = np.arange(24, dtype=np.float32).reshape(2, 4, 3)
r0 = ReferenceEvaluator(m).run(None, {"x": X})[0]
mi = ir.from_proto(m)
vc.convert_version(mi, 21)
declared = mi.opset_imports.get("")
bad = 0
try:
    r1 = ReferenceEvaluator(ir.to_proto(mi)).run(None, {"x": X})[0]
    same = np.allclose(r0, r1)
except Exception as e:
    same = False
    r1 = repr(e)[:160]
if declared == 21 and not same:
    bad = 1
    print("GroupNormalization(opset 20, per-group scale, x without shape): the adapter raised and was skipped, yet the model now declares opset", declared,
          "and no longer computes what it did:", r1)
sys.exit(bad)
'''

REPLACED = '''
import sys
import onnx
from onnx import helper, TensorProto
import onnx_ir as ir
import onnxscript.version_converter as vc
x = helper.make_tensor_value_info("x", TensorProto.FLOAT, [1, 4, 1])
y = helper.make_tensor_value_info("y", TensorProto.FLOAT, None)
g = helper.make_graph([helper.make_node("DFT", ["x"], ["y"], axis=1)], "g", [x], [y])
m = helper.make_model(g, opset_imports=[helper.make_opsetid("", 19)], ir_version=9)
mi = ir.from_proto(m)
vc.convert_version(mi, 21)
vs = [(n.op_type, n.version) for n in mi.graph]
bad = [v for v in vs if v[1] not in (21, None)]
if bad:
    print("model declares", dict(mi.opset_imports), "but the nodes that replaced DFT-19 carry versions", vs)
sys.exit(1 if bad else 0)
'''


def replay(ob):
    if "dft_19_20.an_absent_axis_attribute" in ob["name"]:
        return "import runpy, sys\nsys.argv = ['c10_dft']\nrunpy.run_path('/verif/replay_lib/c10_dft_default_axis.py', run_name='__main__')\n"
    n = ob["name"]
    if "when_an_adapter_raised" in n:
        return RAISED
    if "when_a_node_was_replaced" in n:
        return REPLACED
    if "convert_version.proto_form" in n:
        return CONVERT
    return None
