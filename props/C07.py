"""C07 — applying a rewrite replaces only the match."""
# the removability guard of the matcher (_valid_to_replace) decides which instances a removing rule may touch: 'all other
# nodes, values ... are untouched' and 'apply_to_model returns' depend on it
MODULES = ["contracts.c07_rewrite", "contracts.c06_matcher:valid_to_replace", "contracts.c06_state:get_replacement", "contracts.c06_state:rule_set"]

CLASH = '''
import sys
import numpy as np, onnx
import onnx_ir as ir
from onnxscript.rewriter import pattern as orp
from onnx.reference import ReferenceEvaluator
def pat(op, x): return op.Relu(x)
def repl(op, x, **_):
    c = op.initializer(ir.tensor(np.array([5.0], dtype=np.float32)), name="w")
    return op.Mul(x, c)
rule = orp.RewriteRule(pat, repl)
x = ir.Value(name="x", type=ir.TensorType(ir.DataType.FLOAT), shape=ir.Shape([1]))
w = ir.Value(name="w", type=ir.TensorType(ir.DataType.FLOAT), shape=ir.Shape([1]), const_value=ir.tensor(np.array([1.0], dtype=np.float32), name="w"))
r = ir.node("Relu", [x]); a = ir.node("Add", [r.outputs[0], w])
a.outputs[0].name = "y"; a.outputs[0].type = ir.TensorType(ir.DataType.FLOAT); a.outputs[0].shape = ir.Shape([1])
g = ir.Graph([x], [a.outputs[0]], nodes=[r, a], initializers=[w], opset_imports={"": 18}, name="g")
m = ir.Model(g, ir_version=9)
X = np.array([2.0], dtype=np.float32)
count = rule.apply_to_model(m)
p = ir.to_proto(m)
bad = 0
try:
    onnx.checker.check_model(p)
    after = ReferenceEvaluator(p).run(None, {"x": X})[0]
    if not np.allclose(after, X * 5 + 1):
        bad = 1; print("after the rewrite the model computes", after, "instead of", X * 5 + 1)
except Exception as e:
    bad = 1
    print("the replacement's initializer 'w' replaced the existing initializer 'w' that Add still uses; the rewritten model is invalid:", repr(e)[:200])
sys.exit(bad)
'''


ASFN = '''
import sys
import onnx
from onnx import helper, TensorProto
from onnxscript.rewriter import pattern
import onnxscript.rewriter as rw
def target(op, x, y):
    return op.Relu(op.Add(x, y))
def repl(op, x, y):
    return op.AddRelu(x, y, _domain="some.domain")
rule = pattern.RewriteRule(target, repl, as_function=True)
def vi(n, s): return helper.make_tensor_value_info(n, TensorProto.FLOAT, s)
then_g = helper.make_graph([helper.make_node("Add", ["x", "x"], ["t"]), helper.make_node("Relu", ["t"], ["o1"])], "then", [], [vi("o1", [2])])
else_g = helper.make_graph([helper.make_node("Identity", ["x"], ["o2"])], "else", [], [vi("o2", [2])])
g = helper.make_graph([helper.make_node("If", ["c"], ["y"], then_branch=then_g, else_branch=else_g)], "g",
                      [vi("x", [2]), helper.make_tensor_value_info("c", TensorProto.BOOL, [])], [vi("y", [2])])
m = helper.make_model(g, opset_imports=[helper.make_opsetid("", 18)], ir_version=9)
onnx.checker.check_model(m)
o = rw.rewrite(m, pattern_rewrite_rules=[rule])
bad = 0
for f in o.functions:
    used = {n.domain for n in f.node}
    have = {i.domain for i in f.opset_import}
    if not used <= have:
        print(f"function {f.domain}::{f.name} extracted from a match inside an If branch uses domains {sorted(used)} but imports {sorted(have)}")
        bad += 1
try:
    onnx.checker.check_model(o)
except Exception as e:
    print("checker rejects the rewritten model:", str(e).splitlines()[0][:150])
    bad += 1
sys.exit(1 if bad else 0)
'''


NOT_REMOVABLE = '''
import sys
import onnx, onnx_ir as ir, numpy as np
from onnx import helper, TensorProto
from onnxscript.rewriter import pattern as orp
def pat(op, x): return op.Transpose(op.Transpose(x, perm=[1, 0]), perm=[1, 0])
def rep(op, x, **_): return op.Identity(x)
rule = orp.RewriteRule(pat, rep)
vi = helper.make_tensor_value_info
g = helper.make_graph([helper.make_node("Transpose", ["a"], ["ta"], perm=[1, 0]), helper.make_node("Transpose", ["ta"], ["ya"], perm=[1, 0]),
                       helper.make_node("Transpose", ["b"], ["tb"], perm=[1, 0]), helper.make_node("Transpose", ["tb"], ["yb"], perm=[1, 0])], "g",
                      [vi("a", TensorProto.FLOAT, [2, 3]), vi("b", TensorProto.FLOAT, [2, 3])],
                      [vi("ya", TensorProto.FLOAT, [2, 3]), vi("yb", TensorProto.FLOAT, [2, 3]), vi("tb", TensorProto.FLOAT, [3, 2])])
m = ir.serde.deserialize_model(helper.make_model(g, opset_imports=[helper.make_opsetid("", 18)], ir_version=9))
try:
    n = rule.apply_to_model(m)
    onnx.checker.check_model(ir.serde.serialize_model(m))
except Exception as e:
    print("Transpose(Transpose(x)) -> Identity on a model where one intermediate is also a graph output:", type(e).__name__, str(e)[:200])
    sys.exit(1)
ops = [x.op_type for x in m.graph]
if n != 1 or ops.count("Transpose") != 2:
    print("expected exactly the removable chain to be rewritten; applied", n, "nodes", ops)
    sys.exit(1)
sys.exit(0)
'''


def INCLUDE(name):
    return name.startswith("C07.") or name.startswith("C06.matcher.valid_to_replace") or name.startswith("_valid_to_replace.loop")


def replay(ob):
    if "valid_to_replace" in ob["name"]:
        return NOT_REMOVABLE
    if "as_function.function_imports" in ob["name"]:
        return ASFN
    if "existing_initializer_with_the_same_name" in ob["name"]:
        return CLASH
    return None
