"""C07 — applying a rewrite replaces only the match."""
MODULES = ["contracts.c07_rewrite"]

CLASH = '''
import sys
import numpy as np, onnx
import onnx_ir as ir
from onnxscript.rewriter import pattern as orp
from onnx.reference import ReferenceEvaluator
def pat(op, x): return op.Relu(x)
def repl(op, x, **_):
    c = op.initializer(ir.tensor(np.array([5.0], dtype=np.float32)), name="w")
    return op.Mul(x, c)
rule = orp.RewriteRule(pat, repl)
x = ir.Value(name="x", type=ir.TensorType(ir.DataType.FLOAT), shape=ir.Shape([1]))
w = ir.Value(name="w", type=ir.TensorType(ir.DataType.FLOAT), shape=ir.Shape([1]), const_value=ir.tensor(np.array([1.0], dtype=np.float32), name="w"))
r = ir.node("Relu", [x]); a = ir.node("Add", [r.outputs[0], w])
a.outputs[0].name = "y"; a.outputs[0].type = ir.TensorType(ir.DataType.FLOAT); a.outputs[0].shape = ir.Shape([1])
g = ir.Graph([x], [a.outputs[0]], nodes=[r, a], initializers=[w], opset_imports={"": 18}, name="g")
m = ir.Model(g, ir_version=9)
X = np.array([2.0], dtype=np.float32)
count = rule.apply_to_model(m)
p = ir.to_proto(m)
bad = 0
try:
    onnx.checker.check_model(p)
    after = ReferenceEvaluator(p).run(None, {"x": X})[0]
    if not np.allclose(after, X * 5 + 1):
        bad = 1; print("after the rewrite the model computes", after, "instead of", X * 5 + 1)
except Exception as e:
    bad = 1
    print("the replacement's initializer 'w' replaced the existing initializer 'w' that Add still uses; the rewritten model is invalid:", repr(e)[:200])
sys.exit(bad)
'''


def replay(ob):
    if "existing_initializer_with_the_same_name" in ob["name"]:
        return CLASH
    return None
