"""C06 — the pattern matcher: local contracts."""
MODULES = ["contracts.c06_matcher", "contracts.c06_state"]

MERGE = '''
import sys
import onnx_ir as ir
from onnxscript.rewriter import pattern as orp
from onnxscript import ir as oir
def never(context, node): return False
def pat(op, x):
    a = op.Relu(x, _check=never)
    b = op.Relu(op.Neg(x))
    return op.Abs(orp.OrValue([a, b]))
def repl(op, x, **_): return op.Identity(x)
rule = orp.RewriteRule(pat, repl)
x = ir.Value(name="x", type=ir.TensorType(ir.DataType.FLOAT), shape=ir.Shape([2]))
r = ir.node("Relu", [x]); a = ir.node("Abs", [r.outputs[0]])
a.outputs[0].name = "y"
g = ir.Graph([x], [a.outputs[0]], nodes=[r, a], opset_imports={"": 18}, name="g")
m = ir.Model(g, ir_version=9)
count = rule.apply_to_model(m)
if count:
    print("rule applied", count, "time(s) although the node-level _check of the matched alternative always vetoes")
    sys.exit(1)
sys.exit(0)
'''


CLONE_OR = '''
import sys
from onnxscript.rewriter import pattern
def target(op, x, y):
    a = op.Relu(x)
    b = op.Add(x, y)
    return op.Mul(pattern.OrValue([op.Add(a, y), op.Add(b, op.Add(x, y))]), y)
def repl(op, x, y):
    return op.Identity(x)
rule = pattern.RewriteRule(target, repl)
try:
    rs = pattern.RewriteRuleSet([rule], commute=True)
except Exception as e:
    print("RewriteRuleSet([rule], commute=True) with an untagged OrValue in the pattern raises", type(e).__name__ + ":", e)
    sys.exit(1)
sys.exit(0)
'''


FEWER_OUTPUTS = '''
import sys
import onnx_ir as ir
from onnxscript.rewriter._rewrite_rule import RewriteRule
def pat(op, x):
    a, b = op.Split(x, _outputs=2)
    return op.Neg(a)
def rep(op, x, **_):
    return op.Abs(x)
x = ir.Value(name="x", shape=ir.Shape([4]), type=ir.TensorType(ir.DataType.FLOAT))
sp = ir.Node("", "Split", [x], num_outputs=1, attributes=[ir.AttrInt64("num_outputs", 1)]); sp.outputs[0].name = "s0"
ng = ir.Node("", "Neg", [sp.outputs[0]]); ng.outputs[0].name = "y"
g = ir.Graph([x], [ng.outputs[0]], nodes=[sp, ng], opset_imports={"": 18}, name="g")
m = ir.Model(g, ir_version=10)
rule = RewriteRule(pat, rep)
r = rule._matcher.match(m, g, ng, verbose=0)
bad = 0
if r:
    print("pattern 'a, b = Split(x); Neg(a)' against a Split with ONE output: match() reports success, outputs bound:", r.outputs)
    bad = 1
try:
    n = rule.apply_to_model(m)
except Exception as e:
    print("apply_to_model raises", type(e).__name__ + ":", e)
    bad = 1
sys.exit(bad)
'''


LIST_CONST = '''
import sys, math
import numpy as np
import onnx_ir as ir
from onnxscript.rewriter import pattern as orp
def run(pvals, rel, ab, cvals):
    def pat(op, x):
        return op.Add(x, orp.Constant(list(pvals), rel_tol=rel, abs_tol=ab))
    def rep(op, x, **_):
        return op.Identity(x)
    rule = orp.RewriteRule(pat, rep)
    x = ir.Value(name="x", type=ir.TensorType(ir.DataType.FLOAT), shape=ir.Shape([len(cvals)]))
    c = ir.Value(name="c", type=ir.TensorType(ir.DataType.DOUBLE), shape=ir.Shape([len(cvals)]), const_value=ir.tensor(np.array(cvals, dtype=np.float64), name="c"))
    n = ir.Node("", "Add", [x, c]); n.outputs[0].name = "y"
    g = ir.Graph([x], [n.outputs[0]], nodes=[n], initializers=[c], opset_imports={"": 18}, name="g")
    return rule.apply_to_model(ir.Model(g, ir_version=10)) > 0
bad = 0
for pvals, rel, ab, cvals in (([1.0, 2.0], 0.1, 0.05, [1.12, 2.0]), ([1.0, 2.0], 0.5, 0.0, [1.9, 2.0]), ([1e-3, 1.0], 1e-5, 1e-8, [1e-3 + 1.7e-8, 1.0]),
                              ([1.0, 2.0], 1e-5, 1e-8, [1.0, 2.0]), ([1.0, 2.0], 1e-5, 1e-8, [1.0, 2.1])):
    want = all(math.isclose(c, p, rel_tol=rel, abs_tol=ab) for c, p in zip(cvals, pvals))
    got = run(pvals, rel, ab, cvals)
    if got != want:
        print(f"Constant({pvals}, rel_tol={rel}, abs_tol={ab}) against {cvals}: matched={got}, stated tolerance says {want}")
        bad += 1
sys.exit(1 if bad else 0)
'''


STATE_SEARCH = '''
# bounded search replay on the REAL MatchResult: random sequences of enter / bind / bind_value / bind_node / abandon / merge against an
# independent reference (a stack of plain dicts with the documented meaning)
import random, sys
from onnxscript.rewriter import _basics
class P:  # stands for a ValuePattern / NodePattern
    def __init__(self, name=None): self.name = name
rng = random.Random(0)
bad = 0
for trial in range(3000):
    m = _basics.MatchResult()
    ref = [dict(b={}, v={}, n={}, nodes=[], ok=True)]
    pats = [P() for _ in range(3)]; npats = [P() for _ in range(3)]
    log = []
    for step in range(rng.randint(1, 12)):
        op = rng.choice(["enter", "bind", "bind_value", "bind_node", "abandon", "merge", "lookup"])
        if not ref[-1]["ok"] and op not in ("abandon",):
            continue
        log.append(op)
        if op == "enter":
            m.enter_new_match(); ref.append(dict(b={}, v={}, n={}, nodes=[], ok=True))
        elif op in ("bind", "bind_value"):
            key = rng.choice("xyz") if op == "bind" else rng.choice(pats); val = rng.randint(0, 2); tab = "b" if op == "bind" else "v"
            got = m.bind(key, val) if op == "bind" else m.bind_value(key, val)
            hit = [r[tab][key] for r in ref if key in r[tab]]
            if hit: want = hit[0] == val
            else: ref[-1][tab][key] = val; want = True
            if not want: ref[-1]["ok"] = False
            if got != want or bool(m) != ref[-1]["ok"]:
                print("trial", trial, log, ":", op, "returned", got, "match ok", bool(m), "- expected", want, ref[-1]["ok"]); bad += 1; break
        elif op == "bind_node":
            pn = rng.choice(npats); nd = rng.randint(0, 5)
            m.bind_node(pn, nd); ref[-1]["n"][pn] = nd; ref[-1]["nodes"].append(nd)
        elif op == "lookup":
            pn = rng.choice(npats); hit = [r["n"][pn] for r in ref if pn in r["n"]]
            got = m.lookup_node(pn)
            if (got is None) != (not hit) or (hit and got not in hit):
                print("trial", trial, log, ": lookup_node gives", got, "bindings on the stack:", hit); bad += 1; break
        elif len(ref) >= 2 and op == "abandon":
            m.abandon_current_match(); ref.pop()
        elif len(ref) >= 2 and op == "merge" and ref[-2]["ok"]:
            m.merge_current_match(); c = ref.pop()
            ref[-1]["b"].update(c["b"]); ref[-1]["v"].update(c["v"]); ref[-1]["n"].update(c["n"]); ref[-1]["nodes"] += c["nodes"]
        cur = m._partial_matches[-1]
        if len(m._partial_matches) != len(ref) or any(
                (dict(pm.bindings), dict(pm.value_bindings), dict(pm.node_bindings), list(pm.nodes)) != (r["b"], r["v"], r["n"], r["nodes"])
                for pm, r in zip(m._partial_matches, ref)):
            print("trial", trial, log, ": state differs from the reference:",
                  [(dict(pm.bindings), len(pm.value_bindings), len(pm.node_bindings), list(pm.nodes)) for pm in m._partial_matches], "vs",
                  [(r["b"], len(r["v"]), len(r["n"]), r["nodes"]) for r in ref]); bad += 1; break
    if bad >= 3: break
sys.exit(1 if bad else 0)
'''


CHECKS_SEARCH = '''
# bounded search replay on the REAL rewriter: a rule Abs(Relu(x)) -> Identity(x) whose node-level check, value-level check and condition
# function answer in each documented way; the rule may fire only if all of them accept
import itertools, sys
import onnx_ir as ir
from onnxscript.rewriter import pattern as orp, _basics
def answers():
    def raising(*a, **k): raise _basics.MatchFailureError("no")
    def failed(*a, **k):
        r = _basics.MatchResult(); r.fail("no"); return r
    return {"True": lambda *a, **k: True, "False": lambda *a, **k: False, "None": lambda *a, **k: None, "failed MatchResult": failed, "raises": raising, "absent": None}
bad = 0
A = answers()
for (nn, nf), (vn, vf), (cn, cf) in itertools.product(A.items(), A.items(), [(k, v) for k, v in A.items() if v is not None]):
    seen = []
    def cond(context, x, extra=None, **_):
        seen.append(extra)
        return cf(context)
    def pat(op, x, extra):
        kw = {"_check": nf} if nf is not None else {}
        r = op.Relu(x, **kw)
        return op.Abs(r)
    def pat_opt(op, x):
        kw = {"_check": nf} if nf is not None else {}
        r = op.Relu(x, **kw)
        return op.Abs(r)
    def repl(op, x, **_): return op.Identity(x)
    xv = orp.Var("x", check=vf) if vf is not None else orp.Var("x")
    gp = orp._to_graph_pattern(pat_opt) if False else None
    x = ir.Value(name="x", type=ir.TensorType(ir.DataType.FLOAT), shape=ir.Shape([2]))
    r = ir.node("Relu", [x]); a = ir.node("Abs", [r.outputs[0]]); a.outputs[0].name = "y"
    g = ir.Graph([x], [a.outputs[0]], nodes=[r, a], opset_imports={"": 18}, name="g")
    m = ir.Model(g, ir_version=9)
    def pat2(op, x):
        kw = {"_check": nf} if nf is not None else {}
        return op.Abs(op.Relu(x, **kw))
    rule = orp.RewriteRule(pat2, repl, lambda context, x, **_: cf(context))
    try:
        n = rule.apply_to_model(m)
    except Exception as e:
        print(f"node check {nn}, condition {cn}: apply_to_model raises {type(e).__name__}: {e}"); bad += 1; continue
    want = 1 if (nf is None or nn == "True") and cn == "True" else 0
    if n != want:
        print(f"node-level check answers {nn}, condition function answers {cn}: rule applied {n} time(s), expected {want}"); bad += 1
sys.exit(1 if bad else 0)
'''


OUTPUT_ORDER = '''
import sys
import onnx_ir as ir
from onnxscript.rewriter import pattern as orp
def pat(op, x):
    s0, s1 = op.Split(x, _outputs=2)
    return s1, s0
def rep(op, x, **_):
    return op.Neg(x), op.Abs(x)
rule = orp.RewriteRule(pat, rep)
x = ir.Value(name="x", type=ir.TensorType(ir.DataType.FLOAT), shape=ir.Shape([4]))
sp = ir.Node("", "Split", [x], num_outputs=2, attributes=[ir.AttrInt64("num_outputs", 2)]); sp.outputs[0].name, sp.outputs[1].name = "s0", "s1"
r0 = ir.node("Relu", [sp.outputs[0]]); r0.outputs[0].name = "y0"
r1 = ir.node("Sigmoid", [sp.outputs[1]]); r1.outputs[0].name = "y1"
g = ir.Graph([x], [r0.outputs[0], r1.outputs[0]], nodes=[sp, r0, r1], opset_imports={"": 18}, name="g")
m = ir.Model(g, ir_version=10)
n = rule.apply_to_model(m)
prod = {nd.op_type: nd.inputs[0].producer().op_type for nd in g if nd.op_type in ("Relu", "Sigmoid")}
print("applied", n, prod)
ok = n == 1 and prod == {"Relu": "Abs", "Sigmoid": "Neg"}
if not ok:
    print("pattern returns (s1, s0), replacement (Neg(x), Abs(x)): the consumer of s0 (Relu) must read Abs, the consumer of s1 (Sigmoid) Neg; got", prod)
sys.exit(0 if ok else 1)
'''


def replay(ob):
    if "get_output_values" in ob["name"]:
        return OUTPUT_ORDER
    if "a_variable_used_twice_binds_one_value_in_every_commuted_variant" in ob["name"] or "a_value_pattern_used_twice" in ob["name"] or "clone.keeps_check_and_optionality" in ob["name"]:
        from contracts import c06_state
        return c06_state.ANON_TWICE
    if ob["name"].startswith("C06.pattern.match.") or ob["name"].startswith("Pattern.match.loop"):
        return CHECKS_SEARCH
    if ".any_depth." in ob["name"] or (".loop" in ob["name"] and ob["name"].startswith("MatchResult.")):
        return STATE_SEARCH
    if "valid_to_replace" in ob["name"]:
        from props import C07
        return C07.NOT_REMOVABLE
    if "match_constant.list" in ob["name"]:
        return LIST_CONST
    if "a_false_result_is_recorded_as_a_failed_match" in ob["name"]:
        return FEWER_OUTPUTS
    if "clone.or_pattern" in ob["name"]:
        return CLONE_OR
    if "merge.keeps_node_bindings" in ob["name"] or "merge.keeps_value_bindings" in ob["name"]:
        return MERGE
    return None
