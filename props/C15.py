"""C15 — a ModelProto and an IR model are treated alike."""
MODULES = ["contracts.c15_wrappers"]

CONVERT = '''
import sys
import onnx
from onnx import helper, TensorProto
import onnxscript.version_converter as vc
import onnx_ir as ir
x = helper.make_tensor_value_info("x", TensorProto.FLOAT, [2])
y = helper.make_tensor_value_info("y", TensorProto.FLOAT, [2])
g = helper.make_graph([helper.make_node("Relu", ["x"], ["y"])], "g", [x], [y])
m = helper.make_model(g, opset_imports=[helper.make_opsetid("", 18)], producer_name="p")
ref = ir.from_proto(m)
vc.convert_version(ref, 21)
want = ir.to_proto(ref)
vc.convert_version(m, 21)
bad = 0
for f in ("ir_version", "opset_import", "producer_name", "graph", "functions", "metadata_props"):
    a, b = getattr(m, f), getattr(want, f)
    if (list(a) != list(b)) if f in ("opset_import", "functions", "metadata_props") else (a != b):
        bad += 1
        print(f"convert_version(ModelProto, 21): field {f} of the proto = {str(a).strip()!r} but serialization of the converted IR model has {str(b).strip()!r}")
sys.exit(1 if bad else 0)
'''


def replay(ob):
    if "convert_version" in ob["name"]:
        return CONVERT
    return None
