"""C15 — a ModelProto and an IR model are treated alike."""
# the fallback path of convert_version (initializer payloads must survive it) has its contract in c10_version
MODULES = ["contracts.c15_wrappers", "contracts.c10_version:requires_inline", "contracts.c10_version:call_onnx_api", "contracts.c04_process:move_initializers", "contracts.c15_native"]


def INCLUDE(name):
    return name.startswith("C15.") or name.startswith("C10.pass.fallback") or name.startswith("C10.c_api")

CONVERT = '''
import sys
import onnx
from onnx import helper, TensorProto
import onnxscript.version_converter as vc
import onnx_ir as ir
x = helper.make_tensor_value_info("x", TensorProto.FLOAT, [2])
y = helper.make_tensor_value_info("y", TensorProto.FLOAT, [2])
g = helper.make_graph([helper.make_node("Relu", ["x"], ["y"])], "g", [x], [y])
m = helper.make_model(g, opset_imports=[helper.make_opsetid("", 18)], producer_name="p")
ref = ir.from_proto(m)
vc.convert_version(ref, 21)
want = ir.to_proto(ref)
vc.convert_version(m, 21)
bad = 0
for f in ("ir_version", "opset_import", "producer_name", "graph", "functions", "metadata_props"):
    a, b = getattr(m, f), getattr(want, f)
    if (list(a) != list(b)) if f in ("opset_import", "functions", "metadata_props") else (a != b):
        bad += 1
        print(f"convert_version(ModelProto, 21): field {f} of the proto = {str(a).strip()!r} but serialization of the converted IR model has {str(b).strip()!r}")
sys.exit(1 if bad else 0)
'''


GENERIC = r"""
import sys, itertools
import onnx
from onnx import helper, TensorProto
import onnx_ir as ir
import onnxscript.optimizer as opt
API = %r

def model():
    x = helper.make_tensor_value_info("x", TensorProto.FLOAT, [2])
    y = helper.make_tensor_value_info("y", TensorProto.FLOAT, [2])
    f = helper.make_function("local", "F", ["a"], ["b"], [helper.make_node("Relu", ["a"], ["b"])],
                             [helper.make_opsetid("", 18)])
    unused = helper.make_function("local", "Unused", ["a"], ["b"], [helper.make_node("Abs", ["a"], ["b"])],
                             [helper.make_opsetid("", 18)])
    c = helper.make_node("Constant", [], ["c"], value=helper.make_tensor("c", TensorProto.FLOAT, [2], [1.0, 2.0]))
    c2 = helper.make_node("Add", ["c", "c"], ["c2"])
    dead = helper.make_node("Neg", ["x"], ["dead"])
    n1 = helper.make_node("F", ["x"], ["t"], domain="local")
    n2 = helper.make_node("Add", ["t", "c2"], ["y"])
    g = helper.make_graph([c, c2, dead, n1, n2], "g", [x], [y])
    return helper.make_model(g, opset_imports=[helper.make_opsetid("", 18), helper.make_opsetid("local", 1)],
                             functions=[f, unused], producer_name="p")

def variants():
    if API == "optimizer.optimize":
        for inline, shp, stop, n, lim in itertools.product([True, False], [True, False], [True, False], [0, 1, 2], [0, 1024]):
            yield dict(num_iterations=n, onnx_shape_inference=shp, stop_if_no_change=stop, inline=inline,
                       input_size_limit=lim, output_size_limit=lim)
    elif API == "optimizer.fold_constants":
        for shp, lim in itertools.product([True, False], [0, 1, 1024]):
            yield dict(onnx_shape_inference=shp, input_size_limit=lim, output_size_limit=lim)
    else:
        yield {}

fn = {"optimizer.optimize": opt.optimize, "optimizer.fold_constants": opt.fold_constants,
      "optimizer.remove_unused_nodes": opt.remove_unused_nodes,
      "optimizer.remove_unused_functions": opt.remove_unused_functions}[API]
functional = API == "optimizer.optimize"
bad = 0
for kw in variants():
    ref = ir.serde.deserialize_model(model())
    r = fn(ref, **kw)
    want = ir.serde.serialize_model(ref)
    p = model()
    r = fn(p, **kw)
    got = r if functional else p
    if got.SerializeToString(deterministic=True) != want.SerializeToString(deterministic=True):
        bad += 1
        print(f"{API}(**{kw}): the ModelProto form differs from the serialization of the IR form")
        for f in ("ir_version", "opset_import", "producer_name", "graph", "functions", "metadata_props"):
            if str(getattr(got, f)) != str(getattr(want, f)):
                print("   field", f, "differs")
        break
sys.exit(1 if bad else 0)
"""


REPLACE_FUNCTIONS = '''
import sys
import onnx
from onnx import helper, TensorProto
from onnxscript.utils import replace
vi = helper.make_tensor_value_info
g = helper.make_graph([helper.make_node("CustomOp1", ["x"], ["t"], domain="local"), helper.make_node("OtherOp", ["t"], ["y"], domain="local")], "g",
                      [vi("x", TensorProto.FLOAT, [2])], [vi("y", TensorProto.FLOAT, [2])])
m = helper.make_model(g, opset_imports=[helper.make_opsetid("", 18), helper.make_opsetid("local", 2)], ir_version=9)
f = helper.make_function("local", "CustomOp1", ["a"], ["b"], [helper.make_node("Relu", ["a"], ["b"])], opset_imports=[helper.make_opsetid("", 18)])
before = m.SerializeToString()
r = replace.replace_functions(m, [f])
bad = 0
if m.SerializeToString() != before:
    print("replace_functions modified its argument"); bad = 1
doms = {o.domain for o in r.opset_import}
used = {n.domain for n in r.graph.node}
if not used <= doms:
    print("nodes of the result use domains", sorted(used), "but the opset imports are", sorted(doms)); bad = 1
sys.exit(bad)
'''


RENAMED_INITIALIZER = r"""
import sys
import numpy as np
import onnx
from onnx import helper, TensorProto, numpy_helper
import onnxruntime as ort
import onnxscript.optimizer


def run(model, x):
    so = ort.SessionOptions()
    so.graph_optimization_level = ort.GraphOptimizationLevel.ORT_DISABLE_ALL
    so.log_severity_level = 3
    return ort.InferenceSession(model.SerializeToString(), so, providers=['CPUExecutionProvider']).run(None, {'x': x})[0]


# If(const true) whose then-branch owns an initializer 'w'; the main graph has another initializer 'w': inlining the branch moves the
# branch initializer to the main graph under the name 'w_1' by renaming the ir.Value in place
then_g = helper.make_graph([helper.make_node("Add", ["x", "w"], ["t"])], "then", [], [helper.make_tensor_value_info("t", TensorProto.FLOAT, [2])],
                           initializer=[numpy_helper.from_array(np.array([1, 2], np.float32), "w")])
else_g = helper.make_graph([helper.make_node("Identity", ["x"], ["e"])], "else", [], [helper.make_tensor_value_info("e", TensorProto.FLOAT, [2])])
g = helper.make_graph([helper.make_node("Constant", [], ["c"], value=numpy_helper.from_array(np.array(True), "c")),
                       helper.make_node("If", ["c"], ["y0"], then_branch=then_g, else_branch=else_g),
                       helper.make_node("Mul", ["y0", "w"], ["y"])], "g",
                      [helper.make_tensor_value_info("x", TensorProto.FLOAT, [2])], [helper.make_tensor_value_info("y", TensorProto.FLOAT, [2])],
                      initializer=[numpy_helper.from_array(np.array([3, 4], np.float32), "w")])
m = helper.make_model(g, opset_imports=[helper.make_opsetid("", 18)], ir_version=9)
onnx.checker.check_model(m)
x = np.array([10, 20], np.float32)
before_bytes = m.SerializeToString()
before_out = run(m, x)
onnxscript.optimizer.optimize(m)          # functional variant: returns a new proto
bad = 0
if m.SerializeToString() != before_bytes:
    names = [[i.name for i in a.g.initializer] for a in m.graph.node[1].attribute]
    after_out = run(m, x)
    print(f"optimize(ModelProto) wrote its ARGUMENT: the then-branch initializer 'w' is now named {names}; the argument computed "
          f"{before_out.tolist()} before the call and computes {after_out.tolist()} after it")
    bad = 1
sys.exit(bad)
"""


def replay(ob):
    if ob["name"].startswith("C15.native."):
        from contracts import c15_native
        return c15_native.NATIVE
    if "renamed_initializer" in ob["name"]:
        return RENAMED_INITIALIZER
    if "replace_functions" in ob["name"]:
        return REPLACE_FUNCTIONS
    if ob["name"].startswith("C10."):
        from props import C10
        return C10.replay(ob)
    if "convert_version" in ob["name"]:
        return CONVERT
    for api in ("optimizer.optimize", "optimizer.fold_constants", "optimizer.remove_unused_nodes", "optimizer.remove_unused_functions"):
        if f"C15.{api}." in ob["name"]:
            return GENERIC % api
    return None
