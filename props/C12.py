"""C12 — Python literals are promoted identically by converter, eager mode and builder."""
import re

MODULES = ["contracts.c12_autocast", "contracts.c01_operators", "contracts.c12_anylen"]


def INCLUDE(name):
    m = re.match(r"(C\d\d)\.", name)
    return m is None or m.group(1) == "C12"


CACHE_REPLAY = '''
import sys, struct
import numpy as np
import onnx_ir as ir
from onnxscript._internal import builder
g = ir.Graph(inputs=[], outputs=[], nodes=[], opset_imports={"": 21}, name="g")
b = builder.GraphBuilder(g)
bad = 0
pairs = [(0.0, -0.0), (-0.0, 0.0), (0, -0.0), ([0.0], [-0.0]), (-0.0, 0), (1, 1.0), (True, 1), (2.5, 2.5)]
for dtype in (ir.DataType.FLOAT, ir.DataType.DOUBLE, None):
    for v1, v2 in pairs:
        r1 = b._get_or_create_constant(v1, dtype)
        r2 = b._get_or_create_constant(v2, dtype)
        want = ir.tensor(v2, dtype=dtype if dtype is not None else None).numpy() if not isinstance(v2, list) else ir.tensor(list(v2), dtype=dtype).numpy()
        got = r2.const_value.numpy()
        if got.dtype != want.dtype or got.tobytes() != want.tobytes():
            bad += 1
            print(f"constant {v2!r} (dtype {dtype}) requested after {v1!r}: got tensor {got!r} bytes {got.tobytes().hex()} but a fresh tensor would be {want!r} bytes {want.tobytes().hex()}")
sys.exit(1 if bad else 0)
'''


MIXED_REPLAY = '''
import sys
import onnx_ir as ir
from onnxscript._internal import builder as B
bad = 0
for scalar, seq in ((0.0, [0, 1]), (1.0, [1, 1]), (-0.0, [0, -1])):
    for order in (0, 1):
        g = ir.Graph([], [], nodes=[], opset_imports={"": 21}, name="main")
        gb = B.GraphBuilder(g)
        x = gb.input("x", ir.DataType.FLOAT, [2])
        first, second = (scalar, seq) if order == 0 else (seq, scalar)
        a = gb.op.Add(x, first)
        b = gb.op.Add(x, second)
        got = b.producer().inputs[1].const_value.numpy().tolist()
        want = [float(v) for v in second] if isinstance(second, list) else float(second)
        if got != want:
            print(f"Add(x, {first!r}) then Add(x, {second!r}): the second literal became the tensor {got!r} (cache hit on the first), expected {want!r}")
            bad += 1
sys.exit(1 if bad else 0)
'''


PROMOTE_REPLAY = "import sys\nsys.path.insert(0, '/verif')\nfrom replay_lib.c12_native import main\nmain()\n"


NAN_TWICE = '''
import sys
import onnx_ir as ir
from onnxscript._internal import builder
bad = 0
for lits in ((float("nan"), float("nan")), (float("inf"), float("inf")), (0.0, -0.0), (1, True)):
    g = ir.Graph([], [], nodes=[], opset_imports={"": 18}, name="g")
    x = ir.Value(name="x", type=ir.TensorType(ir.DataType.FLOAT), shape=ir.Shape([2])); g.inputs.append(x)
    op = builder.GraphBuilder(g).op
    try:
        op.Mul(op.Add(x, lits[0]), lits[1])
    except Exception as e:
        print(f"op.Mul(op.Add(x, {lits[0]!r}), {lits[1]!r}) in one GraphBuilder raises {type(e).__name__}: {str(e)[:100]}"); bad += 1
sys.exit(1 if bad else 0)
'''


def replay(ob):
    if ob["name"].startswith("C12.value."):
        from contracts import c12_autocast
        return c12_autocast.LITERAL_VALUE
    if "requesting_two_literals_never_raises" in ob["name"]:
        return NAN_TWICE
    if "any_length" in ob["name"] or "cast_inputs.loop" in ob["name"]:
        return PROMOTE_REPLAY
    if "constant_cache.mixed" in ob["name"]:
        return MIXED_REPLAY
    if "constant_cache" in ob["name"]:
        return CACHE_REPLAY
    return None
