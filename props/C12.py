"""C12 — Python literals are promoted identically by converter, eager mode and builder."""
MODULES = ["contracts.c12_autocast"]

CACHE_REPLAY = '''
import sys, struct
import numpy as np
import onnx_ir as ir
from onnxscript._internal import builder
g = ir.Graph(inputs=[], outputs=[], nodes=[], opset_imports={"": 21}, name="g")
b = builder.GraphBuilder(g)
bad = 0
pairs = [(0.0, -0.0), (-0.0, 0.0), (0, -0.0), ([0.0], [-0.0]), (-0.0, 0), (1, 1.0), (True, 1), (2.5, 2.5)]
for dtype in (ir.DataType.FLOAT, ir.DataType.DOUBLE, None):
    for v1, v2 in pairs:
        r1 = b._get_or_create_constant(v1, dtype)
        r2 = b._get_or_create_constant(v2, dtype)
        want = ir.tensor(v2, dtype=dtype if dtype is not None else None).numpy() if not isinstance(v2, list) else ir.tensor(list(v2), dtype=dtype).numpy()
        got = r2.const_value.numpy()
        if got.dtype != want.dtype or got.tobytes() != want.tobytes():
            bad += 1
            print(f"constant {v2!r} (dtype {dtype}) requested after {v1!r}: got tensor {got!r} bytes {got.tobytes().hex()} but a fresh tensor would be {want!r} bytes {want.tobytes().hex()}")
sys.exit(1 if bad else 0)
'''


def replay(ob):
    if "constant_cache" in ob["name"]:
        return CACHE_REPLAY
    return None
