"""C14 — deterministic, history-independent results."""
import re

MODULES = ["contracts.c14_state", "contracts.c01_converter", "contracts.c04_process", "contracts.c02_modelproto"]


def INCLUDE(name):
    m = re.match(r"(C\d\d)\.", name)
    return m is not None and m.group(1) == "C14"


PB = '''
import sys
from onnxscript.rewriter import _pattern_ir
before = _pattern_ir._pattern_builder
def bad_pattern(op, x):
    return 1 / 0
try:
    _pattern_ir._to_graph_pattern(bad_pattern)
except ZeroDivisionError:
    pass
after = _pattern_ir._pattern_builder
if after is not before:
    print("after a pattern constructor raised, the module-global pattern builder is still", after, "instead of", before)
    sys.exit(1)
sys.exit(0)
'''


SNAPSHOT = '''
import sys, os, tempfile, importlib.util
src = """
import numpy as np
from onnxscript import script, FLOAT
from onnxscript import opset18 as op
W = np.array([1.0, 2.0], dtype=np.float32)
V = np.array([1.0, 2.0], dtype=np.float32)

@script(default_opset=op)
def attr(x: FLOAT[2]) -> FLOAT[2]:
    return x + op.Constant(value=W)

@script(default_opset=op)
def operand(x: FLOAT[2]) -> FLOAT[2]:
    return x + V
"""
d = tempfile.mkdtemp(); path = os.path.join(d, "snap_case.py"); open(path, "w").write(src)
spec = importlib.util.spec_from_file_location("snap_case", path); mod = importlib.util.module_from_spec(spec); sys.modules["snap_case"] = mod; spec.loader.exec_module(mod)
import onnx
def consts(m):
    return [onnx.numpy_helper.to_array(n.attribute[0].t).tolist() for n in m.graph.node if n.op_type == "Constant" and n.attribute[0].HasField("t")]
bad = 0
for name, arr in (("attr", mod.W), ("operand", mod.V)):
    f = getattr(mod, name)
    before = consts(f.to_model_proto())
    arr[0] = 100.0
    after = consts(f.to_model_proto())
    if before != after:
        print(f"{name}: constants in the proto were {before}; after mutating the global array in place they are {after}")
        bad += 1
sys.exit(1 if bad else 0)
'''


EAGER_GLOBALS = '''
import sys, os, tempfile, importlib.util
import numpy as np
src = """
from onnxscript import script, FLOAT
from onnxscript import opset18 as op
ALPHA = 2.0

@script(default_opset=op)
def f(x: FLOAT[2]) -> FLOAT[2]:
    return x * ALPHA
"""
d = tempfile.mkdtemp(); path = os.path.join(d, "eg_case.py"); open(path, "w").write(src)
spec = importlib.util.spec_from_file_location("eg_case", path); mod = importlib.util.module_from_spec(spec); sys.modules["eg_case"] = mod; spec.loader.exec_module(mod)
from onnx.reference import ReferenceEvaluator
x = np.array([1.0, 2.0], dtype=np.float32)
e1 = np.asarray(mod.f(x)).tolist()
g1 = ReferenceEvaluator(mod.f.to_model_proto()).run(None, {"x": x})[0].tolist()
mod.ALPHA = 10.0
e2 = np.asarray(mod.f(x)).tolist()
g2 = ReferenceEvaluator(mod.f.to_model_proto()).run(None, {"x": x})[0].tolist()
if e1 != e2 or g1 != g2:
    print(f"after rebinding the global ALPHA = 10.0: eager call {e1} -> {e2}, graph {g1} -> {g2}")
    sys.exit(1)
sys.exit(0)
'''


GRAPH_PATTERN = '''
import sys, os, subprocess
prog = """
from onnxscript.rewriter import _pattern_ir as P
x = P.Var('x')
ns = [P.NodePattern('', f'Op{i}', [x], {}, [f'o{i}'], allow_other_attributes=None, allow_other_inputs=None) for i in range(4)]
gp = P.GraphPattern([x], [n.outputs[0] for n in ns], ns)
print([str(n.op) for n in gp.output_nodes])
"""
seen = {}
for seed in range(12):
    env = dict(os.environ, PYTHONHASHSEED=str(seed))
    out = subprocess.run([sys.executable, "-c", prog], env=env, capture_output=True, text=True)
    if out.returncode != 0:
        print(out.stderr[-2000:]); sys.exit(3)
    seen.setdefault(out.stdout.strip(), []).append(seed)
want = str([f"Op{i}" for i in range(4)])
if set(seen) != {want}:
    print("GraphPattern.output_nodes for outputs (Op0, Op1, Op2, Op3) under PYTHONHASHSEED 0..11:", seen)
    sys.exit(1)
sys.exit(0)
'''


PROVENANCE = '''
import sys, os, subprocess
prog = """
import hashlib, numpy as np, onnx_ir as ir
from onnxscript import optimizer
names = ['alpha', 'beta', 'gamma', 'delta', 'eps', 'zeta']
consts = [ir.Value(name=n, const_value=ir.tensor(np.array([float(i)], dtype=np.float32), name=n), shape=ir.Shape([1]), type=ir.TensorType(ir.DataType.FLOAT)) for i, n in enumerate(names)]
nodes, acc = [], consts[0]
for i, c in enumerate(consts[1:]):
    nd = ir.Node('', 'Add', [acc, c], name=f'add{i}'); nd.outputs[0].name = f's{i}'; nodes.append(nd); acc = nd.outputs[0]
x = ir.Value(name='x', shape=ir.Shape([1]), type=ir.TensorType(ir.DataType.FLOAT))
fin = ir.Node('', 'Mul', [x, acc], name='mul'); fin.outputs[0].name = 'y'; nodes.append(fin)
g = ir.Graph([x], [fin.outputs[0]], nodes=nodes, initializers=consts, opset_imports={'': 18}, name='g')
m = ir.Model(g, ir_version=10)
optimizer.fold_constants(m)
print(hashlib.sha256(ir.serde.serialize_model(m).SerializeToString()).hexdigest(),
      [dict(v.metadata_props) for v in m.graph.initializers.values() if v.metadata_props][:1])
"""
seen = {}
for seed in range(10):
    out = subprocess.run([sys.executable, "-c", prog], env=dict(os.environ, PYTHONHASHSEED=str(seed)), capture_output=True, text=True)
    if out.returncode != 0:
        print(out.stderr[-2000:]); sys.exit(3)
    seen.setdefault(out.stdout.strip(), []).append(seed)
if len(seen) != 1:
    print("fold_constants of one model, serialized, differs between PYTHONHASHSEED values:")
    for k, v in seen.items():
        print("  seeds", v, "->", k[:300])
    sys.exit(1)
sys.exit(0)
'''


TO_MODEL_PROTO = '''
import sys, os, tempfile, importlib.util
src = """
from onnxscript import script, FLOAT
from onnxscript import opset18 as op
deco = script(default_opset=op)

@deco
def square(x: FLOAT[2]) -> FLOAT[2]:
    return x * x

@deco
def cube(x: FLOAT[2]) -> FLOAT[2]:
    return x * x * x
"""
d = tempfile.mkdtemp(); path = os.path.join(d, "tmp_case.py"); open(path, "w").write(src)
spec = importlib.util.spec_from_file_location("tmp_case", path); mod = importlib.util.module_from_spec(spec); sys.modules["tmp_case"] = mod; spec.loader.exec_module(mod)
fresh_sq = mod.square.to_model_proto().SerializeToString()
fresh_cu = mod.cube.to_model_proto().SerializeToString()
kw0 = dict(mod.square.kwargs)
mod.square.to_model_proto(ir_version=7, producer_name="history")
bad = 0
if mod.square.to_model_proto().SerializeToString() != fresh_sq:
    print("square.to_model_proto() differs after an earlier call with options (ir_version=7, producer_name='history')"); bad += 1
if mod.cube.to_model_proto().SerializeToString() != fresh_cu:
    print("cube.to_model_proto() differs after square.to_model_proto(ir_version=7, ...)"); bad += 1
if dict(mod.square.kwargs) != kw0:
    print("square.kwargs changed:", kw0, "->", dict(mod.square.kwargs)); bad += 1
sys.exit(1 if bad else 0)
'''


EVALUATOR_HISTORY = r'''
import subprocess, sys, hashlib
PROG = r"""
import sys
import numpy as np, onnx
from onnx import helper, TensorProto, numpy_helper
import onnxscript.optimizer
def squeeze_model(opset):
    c = helper.make_node("Constant", [], ["c"], value=numpy_helper.from_array(np.zeros((1, 2, 3, 1), np.float32), "c"))
    if opset >= 13:
        ax = helper.make_node("Constant", [], ["ax"], value=numpy_helper.from_array(np.array([0], np.int64), "ax"))
        nodes = [c, ax, helper.make_node("Squeeze", ["c", "ax"], ["s"])]
    else:
        nodes = [c, helper.make_node("Squeeze", ["c"], ["s"], axes=[0])]
    nodes.append(helper.make_node("Add", ["s", "x"], ["y"]))
    g = helper.make_graph(nodes, "g", [helper.make_tensor_value_info("x", TensorProto.FLOAT, [1])], [helper.make_tensor_value_info("y", TensorProto.FLOAT, None)])
    return helper.make_model(g, opset_imports=[helper.make_opsetid("", opset)], ir_version=8)
history = [int(a) for a in sys.argv[1:]]
for v in history[:-1]:
    onnxscript.optimizer.optimize(squeeze_model(v))
out = onnxscript.optimizer.optimize(squeeze_model(history[-1]))
import hashlib
print(hashlib.sha256(out.SerializeToString()).hexdigest(), [list(i.dims) for i in out.graph.initializer])
"""
def run(*versions):
    return subprocess.run([sys.executable, "-c", PROG] + [str(v) for v in versions], capture_output=True, text=True).stdout.strip().splitlines()[-1]
fresh = run(11)
after = run(18, 13, 11)
if fresh != after:
    print(f"optimize() of an opset-11 model (Squeeze with an axes attribute): fresh process -> {fresh}; after optimizing opset-18 and opset-13 models in the same process -> {after}")
    sys.exit(1)
sys.exit(0)
'''


def replay(ob):
    if "reference_evaluator" in ob["name"]:
        return EVALUATOR_HISTORY
    if "C14.to_model_proto." in ob["name"]:
        return TO_MODEL_PROTO
    if "C14.folding.provenance" in ob["name"]:
        return PROVENANCE
    if "C14.graph_pattern.output_nodes" in ob["name"]:
        return GRAPH_PATTERN
    if "C14.eager.executed_function_reads_globals" in ob["name"]:
        return EAGER_GLOBALS
    if "snapshot_of_the_script_time_constant" in ob["name"]:
        return SNAPSHOT
    n = ob["name"]
    if "pattern_builder" in n:
        return PB
    if ".converter.if" in n or ".converter.loop" in n:
        from props.C01 import LOOP_REPLAY
        return "MODE = 'determinism'\n" + LOOP_REPLAY
    case = (ob.get("model") or {}).get("case")
    if case:
        return f"import sys\nprint({case!r})\nsys.exit(1)\n"
    return None
