"""C14 — deterministic, history-independent results."""
import re

MODULES = ["contracts.c14_state", "contracts.c01_converter", "contracts.c04_process", "contracts.c02_modelproto"]


def INCLUDE(name):
    m = re.match(r"(C\d\d)\.", name)
    return m is not None and m.group(1) == "C14"


PB = '''
import sys
from onnxscript.rewriter import _pattern_ir
before = _pattern_ir._pattern_builder
def bad_pattern(op, x):
    return 1 / 0
try:
    _pattern_ir._to_graph_pattern(bad_pattern)
except ZeroDivisionError:
    pass
after = _pattern_ir._pattern_builder
if after is not before:
    print("after a pattern constructor raised, the module-global pattern builder is still", after, "instead of", before)
    sys.exit(1)
sys.exit(0)
'''


def replay(ob):
    n = ob["name"]
    if "pattern_builder" in n:
        return PB
    if ".converter.if" in n or ".converter.loop" in n:
        from props.C01 import LOOP_REPLAY
        return "MODE = 'determinism'\n" + LOOP_REPLAY
    case = (ob.get("model") or {}).get("case")
    if case:
        return f"import sys\nprint({case!r})\nsys.exit(1)\n"
    return None
