"""C17 — generated opset classes mirror the ONNX operator schemas."""
# Op.__call__ -> BaseEvaluator.eval_op: the eager call of a generated method (contract shared with C01)
MODULES = ["contracts.c17_opsets", "contracts.c01_operators:eval_op"]
EVIDENCE_EXTRA = {"exhaustive": True}


PREP = """
import sys, itertools
from onnxscript._internal import values
from onnxscript import opset18
bad = 0
for n in range(5):
    for pat in itertools.product([None, 1, 0, False, 0.0], repeat=n):
        items = [object() if p == 1 and p is not False and not isinstance(p, float) and p != 0 else p for p in pat]
        want = list(items)
        while want and want[-1] is None: want.pop()
        got = opset18._prepare_inputs(None, *items)
        if len(got) != len(want) or any(a is not b for a, b in zip(got, want)):
            bad += 1; print('_prepare_inputs', pat, '->', got)
sys.exit(1 if bad else 0)
"""


EVAL_OP_HISTORY = r"""
import subprocess, sys
PROG = '''
import sys
import numpy as np
from onnxscript import opset7, opset15, tensor
xi = tensor.Tensor(np.array([4, 9], dtype=np.int32))
xf = tensor.Tensor(np.array([4, 9], dtype=np.float32))
if sys.argv[1] == "history":
    opset7.Pow(xf, xf)        # an older version of the same operator (one type variable for both operands), evaluated first
# Pow-12+: the exponent has its own type variable, so the float literal 0.5 is NOT cast to the int32 of the base
print(np.asarray(opset15.Pow(xi, 0.5).value).tolist())
'''


def run(mode):
    return subprocess.run([sys.executable, "-c", PROG, mode], capture_output=True, text=True).stdout.strip().splitlines()[-1]


fresh, after = run("fresh"), run("history")
if fresh != after:
    print(f"opset15.Pow(int32 [4, 9], 0.5) = {fresh} in a fresh process and {after} after opset7.Pow was evaluated by the same evaluator")
    sys.exit(1)
sys.exit(0)
"""


def replay(ob):
    if "eval_op" in ob["name"]:
        return EVAL_OP_HISTORY
    if "prepare_inputs" in ob["name"]:
        return PREP
    case = (ob.get("model") or {}).get("case", "")
    return ("import sys\n"
            f"print('ground obligation {ob['name']} fails on the real registry/classes:')\n"
            f"print({case!r})\n"
            "sys.exit(1)\n")
