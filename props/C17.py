"""C17 — generated opset classes mirror the ONNX operator schemas."""
MODULES = ["contracts.c17_opsets"]
EVIDENCE_EXTRA = {"exhaustive": True}


PREP = """
import sys, itertools
from onnxscript._internal import values
from onnxscript import opset18
bad = 0
for n in range(5):
    for pat in itertools.product([None, 1, 0, False, 0.0], repeat=n):
        items = [object() if p == 1 and p is not False and not isinstance(p, float) and p != 0 else p for p in pat]
        want = list(items)
        while want and want[-1] is None: want.pop()
        got = opset18._prepare_inputs(None, *items)
        if len(got) != len(want) or any(a is not b for a, b in zip(got, want)):
            bad += 1; print('_prepare_inputs', pat, '->', got)
sys.exit(1 if bad else 0)
"""


def replay(ob):
    if "prepare_inputs" in ob["name"]:
        return PREP
    case = (ob.get("model") or {}).get("case", "")
    return ("import sys\n"
            f"print('ground obligation {ob['name']} fails on the real registry/classes:')\n"
            f"print({case!r})\n"
            "sys.exit(1)\n")
