"""C17 — generated opset classes mirror the ONNX operator schemas."""
MODULES = ["contracts.c17_opsets"]
EVIDENCE_EXTRA = {"exhaustive": True}


PREP = """
import sys, itertools
from onnxscript._internal import values
from onnxscript import opset18
bad = 0
for n in range(6):
    for pat in itertools.product([None, 1], repeat=n):
        items = [None if p is None else object() for p in pat]
        want = list(items)
        while want and want[-1] is None: want.pop()
        got = opset18._prepare_inputs(None, *items)
        if len(got) != len(want) or any(a is not b for a, b in zip(got, want)):
            bad += 1; print('_prepare_inputs', pat, '->', [None if g is None else 'x' for g in got])
sys.exit(1 if bad else 0)
"""


def replay(ob):
    if "prepare_inputs" in ob["name"]:
        return PREP
    case = (ob.get("model") or {}).get("case", "")
    return ("import sys\n"
            f"print('ground obligation {ob['name']} fails on the real registry/classes:')\n"
            f"print({case!r})\n"
            "sys.exit(1)\n")
