#!/bin/sh
# Builds the overlay interpreter: python 3.12 (the repo's interpreter) + z3/cvc5/jsonschema wheels
# from the offline wheelhouse + a .pth that makes /venv's site-packages (onnx, onnx_ir, numpy, torch,
# the editable /repo) importable. Offline; idempotent.
set -e
cd "$(dirname "$0")"
if [ ! -x .venv/bin/python ] || ! .venv/bin/python -c "import z3, jsonschema, onnx_ir" 2>/dev/null; then
  rm -rf .venv
  /venv/bin/python -m venv .venv
  .venv/bin/python -m pip install -q --no-index --find-links /opt/veriftools/wheels z3-solver cvc5 jsonschema
  echo "import site; site.addsitedir('/venv/lib/python3.12/site-packages')" > .venv/lib/python3.12/site-packages/_repo_overlay.pth
fi
.venv/bin/python -c "import z3, jsonschema, onnx_ir, onnxscript; print('setup ok: z3', z3.get_version_string())"
