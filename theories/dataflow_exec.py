"""Executable reading of theories/dataflow.py over real `ast` trees (replay oracle for the
analysis.py obligations).  Written from the same table as dataflow.py, independently of /repo."""
from __future__ import annotations

import ast

ALL = None  # marker for 'kills everything'


def uses(e):
    if e is None:
        return set()
    if isinstance(e, ast.Name):
        return {e.id}
    if isinstance(e, ast.Call):
        r = set()
        for a in e.args:
            r |= uses(a)
        for k in e.keywords:
            r |= uses(k.value)
        return r
    r = set()
    for c in ast.iter_child_nodes(e):
        if isinstance(c, ast.expr):
            r |= uses(c)
        elif isinstance(c, (ast.keyword,)):
            r |= uses(c.value)
        elif isinstance(c, ast.comprehension):
            r |= uses(c.iter)
    return r


def lhs(t):
    if isinstance(t, ast.Tuple):
        return {x.id for x in t.elts}
    return {t.id}


def is_doc(s):
    return isinstance(s, ast.Expr) and isinstance(s.value, ast.Constant) and isinstance(s.value.value, str)


def is_print(s):
    return (isinstance(s, ast.Expr) and isinstance(s.value, ast.Call) and isinstance(s.value.func, ast.Name)
            and s.value.func.id == "print")


def gen_kill(s, cc):
    """(Gen, Kill) of statement s; Kill may be ALL.  cc: dict If-node -> True/False for constant conditions."""
    if isinstance(s, ast.Assign):
        return uses(s.value), lhs(s.targets[0])
    if isinstance(s, ast.AnnAssign):
        return uses(s.value), lhs(s.target)
    if isinstance(s, ast.Return):
        return uses(s.value), ALL
    if isinstance(s, ast.If):
        c = cc.get(s)
        g1, k1 = gen_kill_block(s.body, cc)
        g2, k2 = gen_kill_block(s.orelse, cc)
        if c is None:
            if k1 is ALL:
                k = k2
            elif k2 is ALL:
                k = k1
            else:
                k = k1 & k2
            return g1 | g2 | uses(s.test), k
        return (g1, k1) if c else (g2, k2)
    if isinstance(s, ast.For):
        g, _k = gen_kill_block(s.body, cc)
        i = {s.target.id}
        return (g - i) | uses(s.iter), i
    if isinstance(s, ast.While):
        g, _k = gen_kill_block(s.body, cc)
        return g | uses(s.test), set()
    if isinstance(s, (ast.Break, ast.FunctionDef)) or is_doc(s) or is_print(s):
        return set(), set()
    raise ValueError(f"unsupported {type(s).__name__}")


def gen_kill_block(block, cc):
    g, k = set(), set()
    for s in reversed(block):
        gs, ks = gen_kill(s, cc)
        if ks is ALL:
            g, k = set(gs), ALL
        else:
            g = gs | (g - ks)
            k = ALL if k is ALL else (k | ks)
    return g, k


def live(s, L, cc):
    g, k = gen_kill(s, cc)
    return set(g) if k is ALL else g | (set(L) - k)


def check_program(src, globals_=None):
    """Run the real AstAnalyzer on `src` and compare with the spec.  Returns list of failures."""
    from onnxscript._internal import analysis
    fun = ast.parse(src).body[0]
    an = analysis.AstAnalyzer(fun, lambda node, msg: msg, globals_)
    cc = {}
    for n in ast.walk(fun):
        if isinstance(n, ast.If):
            c = an.constant_if_condition(n)
            if c is not None:
                cc[n] = c
    failures = []

    def visit_block(block):
        for s in block:
            lo = an.live_out(s)
            li = an.live_in(s)
            if lo is None or li is None:
                continue
            want = live(s, lo, cc)
            if not want <= li:
                failures.append({"line": s.lineno, "stmt": ast.unparse(s).splitlines()[0], "live_out": sorted(lo),
                                 "live_in": sorted(li), "missing": sorted(want - li)})
            for fld in ("body", "orelse"):
                sub = getattr(s, fld, None)
                if isinstance(sub, list) and not isinstance(s, ast.FunctionDef):
                    visit_block(sub)
    visit_block(fun.body)
    # _used_vars on every expression statement value
    for n in ast.walk(fun):
        if isinstance(n, (ast.Assign, ast.Return)) and n.value is not None:
            got = analysis._used_vars(n.value)
            want = uses(n.value)
            if not want <= got:
                failures.append({"line": n.lineno, "expr": ast.unparse(n.value), "_used_vars": sorted(got),
                                 "missing": sorted(want - got)})
    return failures
