"""ONNX Cast between numeric element types as bit-precise z3 terms (z3 FloatingPoint / BitVec theories), written from the
ONNX operator documentation (Cast-13..21) and IEEE 754, independently of /repo.

  float -> float : round to nearest, ties to even (IEEE convertFormat); NaN -> NaN, overflow -> +-inf
  int   -> float : round to nearest, ties to even (IEEE convertFromInt)
  float -> int   : truncation toward zero; the result is UNSPECIFIED when the truncated value is out of range or the
                   input is NaN/inf (`defined` is False there and the caller must not compare)
  int   -> int   : two's-complement wrap-around
  x -> bool      : x != 0;   bool -> x : 0 / 1

A value of a type is a pair (kind, term): FP term for float types, BitVec for integers, Bool for BOOL.
Types outside NUMERIC (strings, 4-bit and 8-bit floats) have no model here: `sort_of` returns None.
"""
from __future__ import annotations

import z3

# name -> ("fp", ebits, sbits) | ("int", bits, signed) | ("bool",)
NUMERIC = {
    "DOUBLE": ("fp", 11, 53), "FLOAT": ("fp", 8, 24), "FLOAT16": ("fp", 5, 11), "BFLOAT16": ("fp", 8, 8),
    "INT8": ("int", 8, True), "INT16": ("int", 16, True), "INT32": ("int", 32, True), "INT64": ("int", 64, True),
    "UINT8": ("int", 8, False), "UINT16": ("int", 16, False), "UINT32": ("int", 32, False), "UINT64": ("int", 64, False),
    "BOOL": ("bool",),
}
RNE = z3.RNE()
RTZ = z3.RTZ()


def symbolic(name, tname):
    k = NUMERIC[tname]
    if k[0] == "fp":
        return z3.FP(name, z3.FPSort(k[1], k[2]))
    if k[0] == "int":
        return z3.BitVec(name, k[1])
    return z3.Bool(name)


def cast(v, src, dst):
    """Returns (term of type dst, defined: z3 Bool)."""
    s, d = NUMERIC[src], NUMERIC[dst]
    T = z3.BoolVal(True)
    if s[0] == "bool":
        if d[0] == "bool":
            return v, T
        if d[0] == "int":
            return z3.If(v, z3.BitVecVal(1, d[1]), z3.BitVecVal(0, d[1])), T
        so = z3.FPSort(d[1], d[2])
        return z3.If(v, z3.FPVal(1.0, so), z3.FPVal(0.0, so)), T
    if s[0] == "int":
        if d[0] == "bool":
            return v != 0, T
        if d[0] == "int":
            if d[1] <= s[1]:
                return z3.Extract(d[1] - 1, 0, v), T
            return (z3.SignExt(d[1] - s[1], v) if s[2] else z3.ZeroExt(d[1] - s[1], v)), T
        so = z3.FPSort(d[1], d[2])
        return (z3.fpSignedToFP(RNE, v, so) if s[2] else z3.fpUnsignedToFP(RNE, v, so)), T
    # float source
    if d[0] == "bool":
        return z3.Not(z3.fpIsZero(v)), T
    if d[0] == "fp":
        return z3.fpToFP(RNE, v, z3.FPSort(d[1], d[2])), T
    # float -> int: truncate; defined only when the truncated value fits
    bits, signed = d[1], d[2]
    W = z3.FPSort(15, 113)  # holds every value of every modelled type exactly
    wide = z3.fpToFP(RNE, z3.fpRoundToIntegral(RTZ, v), W)
    lo = z3.fpSignedToFP(RNE, z3.BitVecVal(-(1 << (bits - 1)) if signed else 0, bits + 2), W)
    hi = z3.fpSignedToFP(RNE, z3.BitVecVal(((1 << (bits - 1)) - 1) if signed else ((1 << bits) - 1), bits + 2), W)
    defined = z3.And(z3.Not(z3.fpIsNaN(v)), z3.Not(z3.fpIsInf(v)), z3.fpGEQ(wide, lo), z3.fpLEQ(wide, hi))
    out = z3.fpToSBV(RTZ, v, z3.BitVecSort(bits)) if signed else z3.fpToUBV(RTZ, v, z3.BitVecSort(bits))
    return out, defined


def same(a, b, dst):
    """Equality of two values of type dst as ONNX outputs compare: NaN equals NaN, +0 and -0 are distinct bit patterns
    but compare equal as values; we demand the same value, with -0 == +0 NOT identified (the sign of zero is observable
    through 1/x), i.e. structural equality."""
    return a == b


def double_cast_equals_single(t1, t2, t3, name="v"):
    """Goal: forall v of type t1 on which the two-step cast is defined: the one-step cast is defined and gives the same
    value.  Returns (goal, defined-ness of the two-step cast, v)."""
    v = symbolic(name, t1)
    mid, d1 = cast(v, t1, t2)
    two, d2 = cast(mid, t2, t3)
    one, d3 = cast(v, t1, t3)
    return z3.Implies(z3.And(d1, d2), z3.And(d3, same(two, one, t3))), z3.And(d1, d2), v
