"""AST dataflow theory (DESIGN 3.1): textbook gen/kill liveness over the statement kinds the
converter accepts, written from the property text ("reading the source as ordinary Python control
flow"), not from analysis.py.

Spec functions are uninterpreted z3 functions over node handles; their *definitions* are the
unfolding equations below, assumed on demand for the node at hand (`unfold_stmt`, `unfold_expr`,
`unfold_block`).  Liveness in gen/kill form:   Live(s, L) = Gen(s) ∪ (L − Kill(s)).

  Assign t = v        Gen = Uses(v)                     Kill = LhsV(t)              MayDef = LhsV(t)
  Return v            Gen = Uses(v)                     Kill = ALL                  MayDef = ∅
  If c: A else: B     Gen = GenB(A) ∪ GenB(B) ∪ Uses(c) Kill = KillB(A) ∩ KillB(B)  MayDef = MayDefB(A) ∪ MayDefB(B)
     (condition constant true/false: the taken block only)
  For i in e: A       Gen = (GenB(A) − {i}) ∪ Uses(e)   Kill = {i} (*)              MayDef = MayDefB(A) ∪ {i}
  While c: A          Gen = GenB(A) ∪ Uses(c)           Kill = ∅  (zero-trip)       MayDef = MayDefB(A)
  break/doc/print/def Gen = ∅                           Kill = ∅                    MayDef = ∅
  block b[k:]         GenB(k) = Gen(b[k]) ∪ (GenB(k+1) − Kill(b[k]));  KillB(k) = Kill(b[k]) ∪ KillB(k+1)

(*) a loop may run zero times, so it kills nothing — except that ONNX Script does not make the loop
variable visible after the loop, so `i` is treated as killed (deviation stated in the evidence).
"""
from __future__ import annotations

import ast

import z3

from pyvc.values import Obj, StrSet, StrSort, SObj
from .astmodel import (Blk, At, Len, IdOf, child, blk, Children, DocString, PrintCall, OtherStmt,
                       OtherExpr)

I = z3.IntSort()
Uses = z3.Function("Uses", Obj, StrSet)
LhsV = z3.Function("LhsV", Obj, StrSet)
Gen = z3.Function("Gen", Obj, StrSet)
Kill = z3.Function("Kill", Obj, StrSet)
MayDef = z3.Function("MayDef", Obj, StrSet)
GenB = z3.Function("GenB", Blk, I, StrSet)  # suffix b[k:]
KillB = z3.Function("KillB", Blk, I, StrSet)
MayDefP = z3.Function("MayDefP", Blk, I, StrSet)  # prefix b[:k]
UsesL = z3.Function("UsesL", Blk, I, StrSet)  # prefix union of Uses(b[j])
UsesKw = z3.Function("UsesKw", Blk, I, StrSet)  # prefix union of Uses(b[j].value)
CC = z3.Function("CC", Obj, I)  # constant-condition status of an If: 0 none, 1 true, 2 false

EMPTY = z3.EmptySet(StrSort)
ALL = z3.FullSet(StrSort)


def U(*xs):
    acc = EMPTY
    for x in xs:
        acc = z3.SetUnion(acc, x) if acc is not EMPTY else x
    return acc


def minus(a, b):
    return z3.SetDifference(a, b)


def single(s):
    return z3.SetAdd(EMPTY, s)


def sup(a, b):
    """a ⊇ b"""
    return z3.IsSubset(b, a)


def maydef_block(b):
    return MayDefP(b, Len(b))


def uses_opt(interp, e):
    """Uses of an optional expression value held by the interpreter (None -> empty)."""
    if e is None:
        return EMPTY
    return Uses(e.ref)


def unfold_block(ctx, b, k):
    """Definitional equations of the block functions at index k."""
    inside = z3.And(k >= 0, k < Len(b))
    s = At(b, k)
    ctx.assume(GenB(b, k) == z3.If(inside, z3.SetUnion(Gen(s), minus(GenB(b, k + 1), Kill(s))), EMPTY))
    ctx.assume(KillB(b, k) == z3.If(inside, z3.SetUnion(Kill(s), KillB(b, k + 1)), EMPTY))


def unfold_end(ctx, b):
    ctx.assume(GenB(b, Len(b)) == EMPTY)
    ctx.assume(KillB(b, Len(b)) == EMPTY)


def unfold_prefix(ctx, b, k):
    """Prefix unions at k -> k+1 (and the base case)."""
    ctx.assume(MayDefP(b, 0) == EMPTY)
    ctx.assume(UsesL(b, 0) == EMPTY)
    ctx.assume(UsesKw(b, 0) == EMPTY)
    s = At(b, k)
    ctx.assume(z3.Implies(k >= 0, MayDefP(b, k + 1) == z3.SetUnion(MayDefP(b, k), MayDef(s))))
    ctx.assume(z3.Implies(k >= 0, UsesL(b, k + 1) == z3.SetUnion(UsesL(b, k), Uses(s))))
    ctx.assume(z3.Implies(k >= 0, UsesKw(b, k + 1) == z3.SetUnion(UsesKw(b, k), Uses(child("value")(s)))))


def unfold_expr(interp, e):
    """Definition of Uses at expression node e (forces the kind of e)."""
    ctx = interp.ctx
    cls = interp.class_of(e)
    r = e.ref
    if cls is ast.Name:
        ctx.assume(Uses(r) == single(IdOf(r)))
    elif cls is ast.Call:
        a, kw = blk("args")(r), blk("keywords")(r)
        ctx.assume(Uses(r) == z3.SetUnion(UsesL(a, Len(a)), UsesKw(kw, Len(kw))))
    elif cls is ast.Tuple:
        a = blk("elts")(r)
        ctx.assume(Uses(r) == UsesL(a, Len(a)))
    elif cls is ast.Constant:
        ctx.assume(Uses(r) == EMPTY)
    else:
        a = Children(r)
        ctx.assume(Uses(r) == UsesL(a, Len(a)))


def unfold_lhs(interp, t):
    ctx = interp.ctx
    cls = interp.class_of(t)
    if cls is ast.Name:
        ctx.assume(LhsV(t.ref) == single(IdOf(t.ref)))


def unfold_stmt(interp, s):
    """Definitions of Gen/Kill/MayDef at statement node s (forces the kind of s)."""
    ctx = interp.ctx
    cls = interp.class_of(s)
    r = s.ref
    v = child("value")(r)

    def opt(field):
        x = interp.getattr(s, field)
        return EMPTY if x is None else Uses(x.ref)

    if cls is ast.Assign:
        t0 = At(blk("targets")(r), 0)
        ctx.assume(Gen(r) == Uses(v))
        ctx.assume(Kill(r) == LhsV(t0))
        ctx.assume(MayDef(r) == LhsV(t0))
    elif cls is ast.AnnAssign:
        t = child("target")(r)
        has_value = interp.getattr(s, "value") is not None
        ctx.assume(Gen(r) == opt("value"))
        ctx.assume(Kill(r) == (LhsV(t) if has_value else EMPTY))
        ctx.assume(MayDef(r) == (LhsV(t) if has_value else EMPTY))
    elif cls is ast.Return:
        ctx.assume(Gen(r) == opt("value"))
        ctx.assume(Kill(r) == ALL)
        ctx.assume(MayDef(r) == EMPTY)
    elif cls is ast.If:
        A, B = blk("body")(r), blk("orelse")(r)
        t = child("test")(r)
        cc = CC(r)
        ctx.assume(z3.And(cc >= 0, cc <= 2))
        ctx.assume(Gen(r) == z3.If(cc == 0, U(GenB(A, 0), GenB(B, 0), Uses(t)), z3.If(cc == 1, GenB(A, 0), GenB(B, 0))))
        ctx.assume(Kill(r) == z3.If(cc == 0, z3.SetIntersect(KillB(A, 0), KillB(B, 0)), z3.If(cc == 1, KillB(A, 0), KillB(B, 0))))
        ctx.assume(MayDef(r) == z3.If(cc == 0, z3.SetUnion(maydef_block(A), maydef_block(B)),
                                      z3.If(cc == 1, maydef_block(A), maydef_block(B))))
    elif cls is ast.For:
        A = blk("body")(r)
        i = single(IdOf(child("target")(r)))
        ctx.assume(Gen(r) == z3.SetUnion(minus(GenB(A, 0), i), Uses(child("iter")(r))))
        ctx.assume(Kill(r) == i)
        ctx.assume(MayDef(r) == z3.SetUnion(maydef_block(A), i))
    elif cls is ast.While:
        A = blk("body")(r)
        ctx.assume(Gen(r) == z3.SetUnion(GenB(A, 0), Uses(child("test")(r))))
        ctx.assume(Kill(r) == EMPTY)
        ctx.assume(MayDef(r) == maydef_block(A))
    elif cls in (ast.Break, ast.FunctionDef, DocString, PrintCall):
        ctx.assume(Gen(r) == EMPTY)
        ctx.assume(Kill(r) == EMPTY)
        ctx.assume(MayDef(r) == EMPTY)
    # OtherStmt: no definition — the code must refuse it
    return cls


def live(r, L):
    """Live(s, L) for node handle r."""
    return z3.SetUnion(Gen(r), minus(L, Kill(r)))


def liveB(b, L):
    return z3.SetUnion(GenB(b, 0), minus(L, KillB(b, 0)))
