"""Symbolic `ast` nodes for the analysis/converter contracts (C01, C02, C14).

A symbolic node is an `SObj` whose class is chosen lazily (one path per kind) and whose fields are
created on first access from the grammar table below.  Each node has a z3 handle of sort Obj; the
children's handles are *functions of the parent's handle* (`f_value(s)`, `b_body(s)`), so that spec
functions over the tree (theories/dataflow.py) can be unfolded consistently.

Trusted: that Python's `ast` produces trees (no sharing between subtrees) and that
`ast.iter_child_nodes` yields exactly the direct children.
"""
from __future__ import annotations

import ast

import z3

from pyvc.values import SObj, SSeq, SStr, Obj, StrSort
from pyvc.interp import _MISSING

Blk = z3.DeclareSort("Blk")
At = z3.Function("At", Blk, z3.IntSort(), Obj)
Len = z3.Function("Len", Blk, z3.IntSort())
IdOf = z3.Function("IdOf", Obj, StrSort)  # Name.id / FunctionDef.name / arg.arg / keyword.arg

_child_fn = {}
_blk_fn = {}


def child(field):
    if field not in _child_fn:
        _child_fn[field] = z3.Function("f_" + field, Obj, Obj)
    return _child_fn[field]


def blk(field):
    if field not in _blk_fn:
        _blk_fn[field] = z3.Function("b_" + field, Obj, Blk)
    return _blk_fn[field]


class DocString(ast.Expr):
    """Expr(Constant(str)) — a docstring statement (ghost subclass used only to pick the kind)."""


class PrintCall(ast.Expr):
    """Expr(Call(Name('print'), ...)) — ghost subclass."""


class OtherStmt(ast.Pass):
    """Any statement kind the converter does not support (ghost stand-in: `pass`)."""


class OtherExpr(ast.BinOp):
    """Any expression kind other than Name/Call/Tuple/Constant (ghost stand-in)."""


STMT_KINDS = [ast.Assign, ast.AnnAssign, ast.Return, ast.If, ast.For, ast.While, ast.Break,
              ast.FunctionDef, DocString, PrintCall, OtherStmt]
EXPR_KINDS = [ast.Name, ast.Call, OtherExpr, ast.Tuple, ast.Constant]

# field -> kind of value:  'expr' | 'expr?' | 'stmt*' | 'expr*' | 'kw*' | 'id' | 'target*' | 'args'
GRAMMAR = {
    ast.Assign: {"targets": "expr*", "value": "expr"},
    # AnnAssign without a value (`x: T`) is refused by the converter (_translate_expr(None)); precondition
    ast.AnnAssign: {"target": "expr", "value": "expr", "annotation": "expr"},
    ast.Return: {"value": "expr?"},
    ast.If: {"test": "expr", "body": "stmt*", "orelse": "stmt*"},
    ast.For: {"target": "expr", "iter": "expr", "body": "stmt*", "orelse": "stmt*"},
    ast.While: {"test": "expr", "body": "stmt*", "orelse": "stmt*"},
    ast.Break: {},
    ast.FunctionDef: {"name": "id", "body": "stmt*", "args": "arguments"},
    ast.Name: {"id": "id"},
    ast.Call: {"func": "expr", "args": "expr*", "keywords": "kw*"},
    ast.keyword: {"value": "expr", "arg": "id"},
    ast.Tuple: {"elts": "expr*"},
    ast.Constant: {"value": "constval"},
    ast.arguments: {"args": "arg*"},
    ast.arg: {"arg": "id"},
    OtherExpr: {},
    OtherStmt: {},
    DocString: {"value": "docconst"},
    PrintCall: {"value": "printcall"},
}


def _lazy(interp, obj, attr):
    cls = interp.class_of(obj)
    spec = GRAMMAR.get(cls, {})
    if attr in ("lineno", "col_offset", "end_lineno", "end_col_offset"):
        return 1
    kind = spec.get(attr)
    if kind is None:
        return _MISSING
    ctx = interp.ctx
    if kind == "expr":
        return new_expr(child(attr)(obj.ref), attr)
    if kind == "expr?":
        if ctx.choose(2, attr + "?") == 0:
            return new_expr(child(attr)(obj.ref), attr)
        return None
    if kind in ("stmt*", "expr*", "kw*", "arg*"):
        b = blk(attr)(obj.ref)
        if cls is ast.Assign and attr == "targets":
            ctx.assume(Len(b) >= 1)  # invariant of Python's ast: an Assign has at least one target
        return new_block(ctx, b, {"stmt*": "stmt", "expr*": "expr", "kw*": "kw", "arg*": "arg"}[kind], attr)
    if kind == "id":
        return SStr(IdOf(obj.ref))
    if kind == "arguments":
        return SObj(ast.arguments, "arguments", ref=child(attr)(obj.ref), lazy=_lazy)
    if kind == "constval":
        i = ctx.choose(3, "constval")
        return ["text", 1, None][i]
    if kind == "docconst":
        c = SObj(ast.Constant, "doc", ref=child(attr)(obj.ref), lazy=_lazy)
        c.fields["value"] = "docstring"
        return c
    if kind == "printcall":
        c = SObj(ast.Call, "printcall", ref=child(attr)(obj.ref), lazy=_lazy)
        f = SObj(ast.Name, "print", ref=child("func")(c.ref), lazy=_lazy)
        f.fields["id"] = "print"
        c.fields["func"] = f
        return c
    return _MISSING


def new_stmt(ref, name="stmt", kinds=None):
    return SObj(None, name, ref=ref, lazy=_lazy, cands=list(kinds or STMT_KINDS))


def new_expr(ref, name="expr", kinds=None):
    return SObj(None, name, ref=ref, lazy=_lazy, cands=list(kinds or EXPR_KINDS))


def new_block(ctx, b, elem, name):
    ctx.assume(Len(b) >= 0)

    def get(i):
        r = At(b, i)
        if elem == "stmt":
            return new_stmt(r, name + "[]")
        if elem == "expr":
            return new_expr(r, name + "[]")
        if elem == "kw":
            return SObj(ast.keyword, "kw", ref=r, lazy=_lazy)
        if elem == "arg":
            return SObj(ast.arg, "arg", ref=r, lazy=_lazy)
        raise AssertionError(elem)
    s = SSeq(Len(b), get, name=name, ref=b)
    s.blk = b
    return s


Children = z3.Function("Children", Obj, Blk)  # ast.iter_child_nodes(e) as a block of expressions


def model_iter_child_nodes(interp, node):
    """Assumed contract of ast.iter_child_nodes on an expression of unmodelled kind."""
    if not isinstance(node, SObj):
        return list(ast.iter_child_nodes(node))
    cls = interp.class_of(node)
    if cls is ast.Tuple:
        return interp.getattr(node, "elts")
    if cls in (ast.Name, ast.Constant):
        return []
    if cls is ast.Call:
        raise AssertionError("iter_child_nodes(Call) not expected by the contracts")
    return new_block(interp.ctx, Children(node.ref), "expr", "children")
