"""NumPy basic slicing (CPython PySlice_AdjustIndices) and ONNX Slice/Gather/Squeeze index semantics
(operator documentation shipped with onnx: Slice-13, Gather-13), as z3 integer terms and as
executable Python.  Written from the public specifications, independently of /repo.

A selection along one axis of size d is (first, stop, step) on *normalised* values: the selected
indices are first, first+step, ... strictly before `stop` (in the direction of step).
"""
from __future__ import annotations

import z3

INT64_MAX = (1 << 63) - 1
INT64_MIN = -(1 << 63)


def ite(c, a, b):
    return z3.If(c, a, b)


def numpy_norm(d, start, stop, step):
    """start/stop: z3 Int or None.  Returns normalised (start, stop) per PySlice_AdjustIndices."""
    pos = step > 0

    def adj(v, is_start):
        if v is None:
            if is_start:
                return ite(pos, z3.IntVal(0), d - 1)
            return ite(pos, d, z3.IntVal(-1))
        lo = ite(pos, z3.IntVal(0), z3.IntVal(-1))
        hi = ite(pos, d, d - 1)
        w = ite(v < 0, v + d, v)
        return ite(v < 0, ite(w < 0, lo, w), ite(v >= d, hi, v))
    return adj(start, True), adj(stop, False)


def onnx_norm(d, start, end, step):
    """ONNX Slice-13: negative values get d added, then clamping: positive step start,end in [0,d];
    negative step start in [0,d-1], end in [-1,d-1]."""
    pos = step > 0

    def clamp(v, lo, hi):
        return ite(v < lo, lo, ite(v > hi, hi, v))
    s = ite(start < 0, start + d, start)
    e = ite(end < 0, end + d, end)
    s = ite(pos, clamp(s, z3.IntVal(0), d), clamp(s, z3.IntVal(0), d - 1))
    e = ite(pos, clamp(e, z3.IntVal(0), d), clamp(e, z3.IntVal(-1), d - 1))
    return s, e


def empty(first, stop, step):
    return ite(step > 0, first >= stop, first <= stop)


def same_selection(np_first, np_stop, ox_first, ox_stop, step):
    """Sufficient and (for these two clamping schemes) necessary condition that both select the same
    index sequence: both empty, or identical normalised bounds."""
    e1, e2 = empty(np_first, np_stop, step), empty(ox_first, ox_stop, step)
    return z3.Or(z3.And(e1, e2), z3.And(z3.Not(e1), z3.Not(e2), np_first == ox_first, np_stop == ox_stop))


def count_is_one(first, stop, step):
    """Exactly one index selected."""
    return z3.And(z3.Not(empty(first, stop, step)),
                  ite(step > 0, first + step >= stop, first + step <= stop))


# ---- executable versions (replay) -----------------------------------------------------------

def numpy_indices(d, start, stop, step):
    return list(range(d))[slice(start, stop, step)]


def onnx_indices(d, start, end, step):
    def clamp(v, lo, hi):
        return lo if v < lo else hi if v > hi else v
    s = start + d if start < 0 else start
    e = end + d if end < 0 else end
    if step > 0:
        s, e = clamp(s, 0, d), clamp(e, 0, d)
    else:
        s, e = clamp(s, 0, d - 1), clamp(e, -1, d - 1)
    return list(range(s, e, step))
