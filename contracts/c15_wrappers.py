"""C15 — a ModelProto and an IR model are treated alike (wrappers), and C10's proto entry point.

For every API that accepts either form, the real wrapper is executed on an abstract ModelProto
(contracts/protomodel.py) and on an abstract ir.Model; obligations, field by field over ALL top-level
ModelProto fields:
  * proto form: the result (returned proto, or the mutated argument for in-place APIs) equals the
    serialisation of the IR model obtained by applying to deserialize(argument) exactly the passes the IR
    form applies (same passes, same options, same order);
  * in-place APIs leave the argument equal to that serialisation in every field; functional APIs do not
    write their argument;
  * IR form: in-place on / returns the given model object.
"""
from __future__ import annotations

from pyvc.harness import Scenario
from pyvc.interp import Interp, PyRaise
from pyvc.values import SObj, Opaque
from .protomodel import World, FIELDS

CL = "C15: 'performs the same transformation on both: the proto result equals the serialization of the IR result ... In-place variants mutate the object they were given; the others leave their argument unchanged'"
CL10 = "C10: 'the model declares opset v for the default domain consistently (model, functions and nodes)' — on a ModelProto entry the proto must carry every field of the converted model"


def _apis():
    import onnxscript.optimizer as opt
    import onnxscript.rewriter as rw
    import onnxscript.version_converter as vc
    from onnxscript.utils import replace
    return {
        "optimizer.optimize": (opt.optimize, "functional", {}, "onnxscript/optimizer/__init__.py", "optimize"),
        "optimizer.fold_constants": (opt.fold_constants, "inplace", {}, "onnxscript/optimizer/__init__.py", "fold_constants"),
        "optimizer.remove_unused_nodes": (opt.remove_unused_nodes, "inplace", {}, "onnxscript/optimizer/__init__.py", "remove_unused_nodes"),
        "optimizer.remove_unused_functions": (opt.remove_unused_functions, "inplace", {}, "onnxscript/optimizer/__init__.py", "remove_unused_functions"),
        "rewriter.rewrite": (rw.rewrite, "functional", {}, "onnxscript/rewriter/__init__.py", "rewrite"),
        "version_converter.convert_version": (vc.convert_version, "inplace", {"target_version": 21}, "onnxscript/version_converter/__init__.py", "convert_version"),
    }


# top-level ModelProto fields an API's IR transformation may change (everything else is untouched by it)
MODIFIES = {
    "version_converter.convert_version": {"graph", "functions", "opset_import"},
}


def sym_options(ctx, api):
    """Every documented option of the API as an arbitrary (symbolic) value, shared by the two forms: an option the
    proto branch forgets to forward shows up as a different pass configuration."""
    from pyvc.values import SInt, SBool
    i = lambda n: SInt(ctx.int("opt_" + n))
    b = lambda n: SBool(ctx.bool("opt_" + n))
    if api == "optimizer.optimize":
        return {"num_iterations": i("num_iterations"), "onnx_shape_inference": b("onnx_shape_inference"),
                "stop_if_no_change": b("stop_if_no_change"), "input_size_limit": i("input_size_limit"),
                "output_size_limit": i("output_size_limit"), "inline": b("inline")}
    if api == "optimizer.fold_constants":
        return {"onnx_shape_inference": b("onnx_shape_inference"), "input_size_limit": i("input_size_limit"),
                "output_size_limit": i("output_size_limit")}
    if api == "version_converter.convert_version":
        return {"target_version": i("target_version"), "fallback": b("fallback")}
    return {}


def run_form(ctx, api, form, extra_models=None, options=None):
    fn, mode, kwargs, _rel, _qn = _apis()[api]
    if options is not None:
        kwargs = options
    I = Interp(ctx)
    W = World(I)
    if extra_models:
        I.models.update(extra_models(I, W))
    if form == "proto":
        arg = W.new_proto(lambda f: ("orig", f))
        m0 = None
    else:
        arg = W.new_ir_model({f: ("orig", f) for f in FIELDS})
    before = dict(arg.ghost_src) if form == "proto" else None
    try:
        res = I.call(fn, [arg], dict(kwargs))
    except PyRaise as e:
        return I, W, arg, ("raised", e.exc), before
    return I, W, arg, res, before


def passes_of(W, model_id):
    return [d for (mid, d) in W.log if mid == model_id]


def s_wrapper(ctx, api, symbolic_options=False):
    fn, mode, kwargs, _rel, _qn = _apis()[api]
    tag = f"C15.{api}" + (".any_options" if symbolic_options else "")
    # IR form
    options = sym_options(ctx, api) if symbolic_options else None
    I1, W1, m, res1, _ = run_form(ctx, api, "ir", options=options)
    ok_ir = not (isinstance(res1, tuple) and res1 and res1[0] == "raised")
    ctx.check(f"{tag}.ir_form.returns_normally", ok_ir, CL)
    if not ok_ir:
        return
    ir_passes = passes_of(W1, id(m))
    ctx.check(f"{tag}.ir_form.transforms_the_given_model_object",
              len(W1.models) == 1 and all(mid == id(m) for mid, _ in W1.log) and len(ir_passes) >= 1, CL)
    if mode == "functional":
        ctx.check(f"{tag}.ir_form.returns_the_model", res1 is m, CL)
    # proto form
    I2, W2, p, res2, before = run_form(ctx, api, "proto", options=options)
    ok_p = not (isinstance(res2, tuple) and res2 and res2[0] == "raised")
    ctx.check(f"{tag}.proto_form.returns_normally", ok_p, CL)
    if not ok_p:
        return
    ok1 = len(W2.models) == 1 and W2.models[0].ghost_origin == {f: ("orig", f) for f in FIELDS}
    ctx.check(f"{tag}.proto_form.deserializes_the_argument_once", ok1, CL)
    if not ok1:
        return
    m2 = W2.models[0]
    pr_passes = passes_of(W2, id(m2))
    ctx.check(f"{tag}.proto_form.applies_the_same_passes_as_the_ir_form", pr_passes == ir_passes and
              all(mid == id(m2) for mid, _ in W2.log), CL)
    final = m2.ghost_state
    want = {f: ("ser", id(m2), final, f) for f in FIELDS}
    if mode == "functional":
        ok_res = isinstance(res2, SObj) and hasattr(res2, "ghost_src")
        ctx.check(f"{tag}.proto_form.returns_a_model_proto", ok_res, CL)
        if ok_res:
            for f in FIELDS:
                ctx.check(f"{tag}.proto_form.result_field_is_serialization_of_ir_result.{f}", res2.ghost_src[f] == want[f], CL)
        ctx.check(f"{tag}.proto_form.argument_not_written", p.ghost_src == before, CL + " — the functional variants leave their argument unchanged")
    else:
        # Fields outside the transformation's frame may keep the caller's content: equal to the serialisation
        # under the (assumed, listed) serde round-trip; fields the transformation may change must come from it.
        frame = MODIFIES.get(api, set(FIELDS))
        for f in FIELDS:
            cl = CL10 if api.startswith("version_converter") else CL
            ok = p.ghost_src[f] == want[f] or (f not in frame and p.ghost_src[f] == ("orig", f))
            ctx.check(f"{tag}.proto_form.argument_field_is_serialization_of_ir_result.{f}", ok, cl)


def s_rewrite_empty_rules(ctx):
    import onnxscript.rewriter as rw
    I = Interp(ctx)
    W = World(I)
    p = W.new_proto(lambda f: ("orig", f))
    r = I.call(rw.rewrite, [p], {"pattern_rewrite_rules": []})
    ctx.check("C15.rewriter.rewrite.empty_rule_list_returns_the_argument_untouched",
              r is p and not W.log and p.ghost_src == {f: ("orig", f) for f in FIELDS}, CL)


def s_replace_functions(ctx):
    from onnxscript.utils import replace
    I = Interp(ctx)
    W = World(I)
    p = W.new_proto(lambda f: ("orig", f))
    before = dict(p.ghost_src)
    try:
        r = I.call(replace.replace_functions, [p, []])
    except PyRaise as e:
        ctx.check("C15.utils.replace_functions.returns_normally", False, CL)
        return
    m = W.models[0] if W.models else None
    ok = m is not None and isinstance(r, SObj) and hasattr(r, "ghost_src")
    ctx.check("C15.utils.replace_functions.result_is_serialization_of_the_transformed_ir_model",
              ok and all(r.ghost_src[f] == ("ser", id(m), m.ghost_state, f) for f in FIELDS) and m.ghost_state >= 1, CL)
    ctx.check("C15.utils.replace_functions.argument_not_written", p.ghost_src == before, CL)


def s_replace_functions_inplace(ctx):
    """replace_functions_inplace(irmodel, functions): refuses a model that has model-local functions; otherwise registers
    every given function under its identifier and runs InlinePass, then RemoveUnusedOpsetsPass on THE GIVEN model.  Frame:
    the opset imports are written by those passes only (RemoveUnusedOpsetsPass knows which domains are still used - a node
    of the same domain without an expansion keeps its import); the function writes no other part of the model."""
    import onnx_ir as ir
    from onnxscript.utils import replace
    I = Interp(ctx)
    W = World(I)
    m = W.new_ir_model({f: ("orig", f) for f in FIELDS})
    has_local = ctx.choose(2, "model has model-local functions") == 1
    funcs = {("local", "Existing", ""): "existing"} if has_local else {}
    imports = {"": 18, "local": 2, "other": 1}
    m.fields.update(functions=funcs, opset_imports=imports)
    n = ctx.choose(3, "number of functions given")
    given = []
    for i in range(n):
        f = SObj(ir.Function, f"function{i}")
        ident = ("local", f"Custom{i}", "")

        def f_id():
            raise AssertionError
        I.models[f_id] = (lambda v: lambda interp: v)(ident)
        f.fields.update(identifier=f_id, domain="local", name=f"Custom{i}", overload="")
        given.append((ident, f))
    try:
        I.call(replace.replace_functions_inplace, [m, [f for _, f in given]])
    except PyRaise as e:
        ctx.check("C15.utils.replace_functions_inplace.refuses_exactly_models_with_local_functions",
                  has_local and isinstance(e.exc, ValueError) and not W.log and funcs == {("local", "Existing", ""): "existing"}, CL)
        return
    ctx.check("C15.utils.replace_functions_inplace.refuses_exactly_models_with_local_functions", not has_local, CL)
    ctx.check("C15.utils.replace_functions_inplace.every_given_function_is_registered_under_its_identifier",
              list(funcs.items()) == given, CL)
    names = [d[0] for mid, d in W.log if mid == id(m)]
    ctx.check("C15.utils.replace_functions_inplace.inlines_then_removes_unused_opsets_on_the_given_model",
              names == ["InlinePass", "RemoveUnusedOpsetsPass"] and all(mid == id(m) for mid, _ in W.log), CL)
    ctx.check("C15.utils.replace_functions_inplace.opset_imports_are_written_by_the_passes_only", imports == {"": 18, "local": 2, "other": 1},
              CL + " — 'opset imports ... survive exactly': a domain still used by a node without an expansion must keep its import")


def _mk(api, symbolic_options=False):
    def run(ctx):
        return s_wrapper(ctx, api, symbolic_options)
    return run


SCENARIOS = [
    Scenario(f"C15.{api}", _mk(api), [(_apis()[api][3], _apis()[api][4])],
             trusted=["onnx_ir serde (deserialize_model/serialize_model/from_proto/to_proto) — a dependency; C15's 'loses no information' clause is a property of onnx_ir and is not claimed",
                      "protobuf Clear/CopyFrom/del repeated[:]/extend semantics",
                      "onnx_ir passes are in-place on the model object they are given"])
    for api in ["optimizer.optimize", "optimizer.fold_constants", "optimizer.remove_unused_nodes",
                "optimizer.remove_unused_functions", "rewriter.rewrite", "version_converter.convert_version"]
] + [
    Scenario(f"C15.{api}[any options]", _mk(api, True), [(_apis()[api][3], _apis()[api][4])])
    for api in ["optimizer.optimize", "optimizer.fold_constants", "version_converter.convert_version"]
] + [
    Scenario("C15.rewriter.rewrite[empty rules]", s_rewrite_empty_rules, [("onnxscript/rewriter/__init__.py", "rewrite")]),
    Scenario("C15.utils.replace_functions_inplace", s_replace_functions_inplace, [("onnxscript/utils/replace.py", "replace_functions_inplace")],
             trusted=["InlinePass / RemoveUnusedOpsetsPass (onnx_ir.passes.common)"]),
    Scenario("C15.utils.replace_functions", s_replace_functions,
             [("onnxscript/utils/replace.py", "replace_functions"), ("onnxscript/utils/replace.py", "replace_functions_inplace")]),
]
