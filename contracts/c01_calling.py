"""C01 / C18 — the calling convention: how the arguments of a call `f(a, b, k=c)` reach the inputs and attributes of the ONNX node.

`param_manipulation.separate_input_attributes_from_arguments` (converter: Converter._translate_call_expr; builder: BuilderBase.call_op) and
`tag_arguments_with_signature` (eager evaluator) are executed from their real source on real `ir.schemas` signatures; the oracle is
Python's own binding of a call to a signature (positional by position, keyword by name, a variadic input takes the rest) plus the ONNX
rule that an input is identified by its POSITION: an omitted optional input that is followed by a supplied one is an empty position.
Bounded driver: <= 3 parameters (each an input / optional input / variadic input / attribute with or without default), <= 4 positional
arguments, any subset of the parameters given by keyword (+ one unknown keyword); all argument values are opaque tokens.
"""
from __future__ import annotations

import itertools

from pyvc.harness import Scenario
from pyvc.interp import Interp, PyRaise

REL = "onnxscript/_internal/param_manipulation.py"
CL = ("C01: 'every operator and op call denotes the ONNX operator it is documented to map to' / 'calls to other script functions' — an argument "
      "reaches the input (by position) or attribute (by name) of the parameter Python's call binding gives it to")


class Tok:
    def __init__(self, name):
        self.name = name

    def __repr__(self):
        return f"<{self.name}>"


KINDS = ["input", "optional_input", "variadic_input", "attr", "attr_with_default"]


def mk_signature(kinds):
    import onnx_ir as ir
    S = ir.schemas
    tc = S.TypeConstraintParam.any_tensor("T") if hasattr(S.TypeConstraintParam, "any_tensor") else S.TypeConstraintParam("T", {ir.TensorType(ir.DataType.FLOAT)})
    params = []
    for i, k in enumerate(kinds):
        nm = f"p{i}"
        if k == "input":
            params.append(S.Parameter(nm, tc, required=True, variadic=False))
        elif k == "optional_input":
            params.append(S.Parameter(nm, tc, required=False, variadic=False))
        elif k == "variadic_input":
            params.append(S.Parameter(nm, tc, required=False, variadic=True))
        elif k == "attr":
            params.append(S.AttributeParameter(nm, ir.AttributeType.INT, required=True, default=None))
        else:
            params.append(S.AttributeParameter(nm, ir.AttributeType.INT, required=False, default=ir.AttrInt64(nm, 40 + i)))
    return S.OpSignature("", "Op", "", params, [])


def s_separate(ctx, m=3):
    from onnxscript._internal import param_manipulation as pm
    I = Interp(ctx)
    kinds = [KINDS[ctx.choose(len(KINDS), f"kind of p{i}")] for i in range(m)]
    if "variadic_input" in kinds[:-1]:
        return   # ONNX: only the last input may be variadic
    sig = mk_signature(kinds)
    na = ctx.choose(m + 2, "positional arguments")
    args = [Tok(f"a{i}") for i in range(na)]
    kwargs = {}
    for i in range(m):
        if i >= na and ctx.choose(2, f"p{i} given by keyword") == 1:
            kwargs[f"p{i}"] = Tok(f"k{i}")
    unknown = ctx.choose(2, "an unknown keyword") == 1
    if unknown:
        kwargs["nope"] = Tok("nope")
    fill = ctx.choose(2, "fill_defaults") == 0
    allow_kw = ctx.choose(2, "allow_extra_kwargs") == 1
    allow_args = ctx.choose(2, "allow_extra_args") == 0
    has_var = "variadic_input" in kinds
    # ---- oracle: Python's binding of the call ------------------------------------------------------------
    bound = {}          # parameter index -> value (a list of values for the variadic input)
    for i, k in enumerate(kinds):
        if k == "variadic_input":
            bound[i] = list(args[i:])
        elif i < na:
            bound[i] = args[i]
        elif f"p{i}" in kwargs:
            bound[i] = kwargs[f"p{i}"]
    missing = [i for i, k in enumerate(kinds) if i not in bound and k in ("input", "attr")]
    too_many = na > m and not has_var
    expect_error = (unknown and not allow_kw) or bool(missing) or (too_many and not allow_args)
    try:
        r = I.call(pm.separate_input_attributes_from_arguments, [sig, list(args), dict(kwargs)],
                   {"fill_defaults": fill, "allow_extra_kwargs": allow_kw, "allow_extra_args": allow_args})
    except PyRaise as e:
        ctx.check("C01.calling.separate.raises_only_for_unknown_keywords_missing_required_or_too_many_arguments", expect_error and isinstance(e.exc, TypeError), CL)
        return
    ctx.check("C01.calling.separate.refuses_unknown_keywords_missing_required_and_too_many_arguments", not expect_error, CL)
    if expect_error:
        return
    inputs, attrs = r
    inputs = list(inputs)
    ctx.cover("separate.returned")
    input_params = [i for i, k in enumerate(kinds) if k.endswith("input")]
    for slot, i in enumerate(input_params):
        if kinds[i] == "variadic_input":
            ctx.check("C01.calling.separate.variadic_input_takes_the_remaining_positional_arguments_in_order", inputs[slot:] == bound[i], CL)
        elif i in bound:
            ctx.check("C01.calling.separate.a_supplied_input_lands_in_the_position_of_its_parameter", slot < len(inputs) and inputs[slot] is bound[i],
                      CL + " — ONNX identifies an input by its position: an omitted optional input before it must stay an empty position")
        else:
            ctx.check("C01.calling.separate.an_omitted_optional_input_is_an_empty_position_or_a_trailing_omission", slot >= len(inputs) or inputs[slot] is None, CL)
    if not has_var:
        ctx.check("C01.calling.separate.no_input_beyond_the_input_parameters", len(inputs) <= len(input_params), CL)
    for i, k in enumerate(kinds):
        if not k.startswith("attr"):
            continue
        nm = f"p{i}"
        if i in bound:
            ctx.check("C01.calling.separate.a_supplied_attribute_is_delivered_under_its_name", attrs.get(nm) is bound[i], CL)
        elif k == "attr_with_default":
            ctx.check("C01.calling.separate.a_default_is_filled_in_iff_asked", (nm in attrs) == fill and (not fill or attrs[nm] == 40 + i), CL)
    ctx.check("C01.calling.separate.no_attribute_but_the_attribute_parameters", all(kinds[int(nm[1:])].startswith("attr") for nm in attrs), CL)


def s_tag(ctx, m=3):
    from onnxscript._internal import param_manipulation as pm
    I = Interp(ctx)
    kinds = [KINDS[ctx.choose(len(KINDS), f"kind of p{i}")] for i in range(m)]
    if "variadic_input" in kinds[:-1]:
        return
    sig = mk_signature(kinds)
    na = ctx.choose(m + 1, "positional arguments")
    args = [Tok(f"a{i}") for i in range(na)]
    kwargs = {}
    for i in range(m):
        if i >= na and ctx.choose(2, f"p{i} given by keyword") == 1:
            kwargs[f"p{i}"] = Tok(f"k{i}")
    unknown = ctx.choose(2, "an unknown keyword") == 1
    if unknown:
        kwargs["nope"] = Tok("nope")
    fill = ctx.choose(2, "fill_defaults") == 0
    allow_kw = ctx.choose(2, "allow_extra_kwargs") == 1
    missing = [i for i, k in enumerate(kinds) if k in ("input", "attr") and i >= na and f"p{i}" not in kwargs]
    expect_error = (unknown and not allow_kw) or bool(missing)
    try:
        r = I.call(pm.tag_arguments_with_signature, [sig, list(args), dict(kwargs)], {"fill_defaults": fill, "allow_extra_kwargs": allow_kw})
    except PyRaise as e:
        ctx.check("C01.calling.tag.raises_only_for_unknown_keywords_or_missing_required", expect_error and isinstance(e.exc, TypeError), CL)
        return
    ctx.check("C01.calling.tag.refuses_unknown_keywords_and_missing_required", not expect_error, CL)
    if expect_error:
        return
    targs, tkw = r
    targs = list(targs)
    params = list(sig.params)
    want = []
    for i, a in enumerate(args):
        want.append((a, params[min(i, m - 1)] if (i < m or kinds[-1] == "variadic_input") else None))
    if kinds[-1] != "variadic_input":
        want = want[:m]
    ctx.check("C01.calling.tag.positional_argument_i_is_paired_with_parameter_i_the_variadic_one_takes_the_rest",
              len(targs) == len(want) and all(t[0] is w[0] and t[1] is w[1] for t, w in zip(targs, want)), CL)
    for i, k in enumerate(kinds):
        nm = f"p{i}"
        if i < na or k == "variadic_input":
            continue
        if nm in kwargs:
            ctx.check("C01.calling.tag.keyword_argument_is_paired_with_the_parameter_of_that_name", nm in tkw and tkw[nm][0] is kwargs[nm] and tkw[nm][1] is params[i], CL)
        elif k == "attr_with_default":
            ctx.check("C01.calling.tag.a_default_is_filled_in_iff_asked", (nm in tkw) == fill and (not fill or (tkw[nm][0] == 40 + i and tkw[nm][1] is params[i])), CL)
        else:
            ctx.check("C01.calling.tag.nothing_invented_for_an_omitted_parameter", nm not in tkw, CL)


def _mk(fn, m):
    return lambda ctx: fn(ctx, m)


SCENARIOS = [
    Scenario(f"C01.calling.separate_input_attributes_from_arguments[{m} parameters]", _mk(s_separate, m), [(REL, "separate_input_attributes_from_arguments")], kind="bounded",
             bound=f"{m} parameters (input / optional input / variadic input last / attribute / attribute with default), <= m+1 positional arguments, "
                   "every subset of the remaining parameters by keyword, an unknown keyword or not; every setting of the three flags",
             max_paths=200000, budget_s=900) for m in (1, 2, 3)
] + [
    Scenario(f"C01.calling.tag_arguments_with_signature[{m} parameters]", _mk(s_tag, m), [(REL, "tag_arguments_with_signature")], kind="bounded",
             bound=f"{m} parameters, <= m positional arguments, every subset of the remaining parameters by keyword; both flags",
             max_paths=200000, budget_s=900) for m in (1, 2, 3)
]
