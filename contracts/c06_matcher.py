"""C06 — the pattern matcher reports a match exactly when the subgraph is an instance: local contracts.

  _matcher._valid_to_replace        true iff no non-output value of a matched node is a graph output or has a consumer
                                    outside the match (<= 2 matched nodes x <= 2 outputs x <= 2 consumers, symbolic flags)
  PartialMatchResult.merge / MatchResult.enter_new_match / abandon_current_match / merge_current_match / bind /
  bind_value / bind_node / lookup_node
                                    abandon restores the state exactly; merge loses nothing (bindings, value bindings,
                                    node bindings, matched nodes); a name bound twice binds one value, searched across
                                    all partial matches (symbolic variable names)
  NodePattern.matches               op, domain, each attribute pattern, allow_other_attributes, attribute variables bound
  SimplePatternMatcher._match_constant   scalar constants: match iff the value is a known scalar constant within the stated
                                    tolerance (math.isclose over the reals)
The global soundness/completeness of the mutually recursive matcher follows from these by induction on the pattern on
paper; that induction is not machine-checked (DESIGN 4, C06).
"""
from __future__ import annotations

import math

import z3

from pyvc.harness import Scenario
from pyvc.interp import Interp, PyRaise
from pyvc.values import SObj, SBool, SStr, SReal, Opaque, term, wrap

CL = "C06: 'a match is reported if and only if the subgraph ending at that node is an instance of the pattern under its documented meaning'"
CL_BIND = "C06: 'a variable used twice binds one value ... The bindings returned are exactly the instance's values'"
CL_REPL = "C06: 'when matched nodes are to be removed - no intermediate matched value is used outside the match or is a graph output'"
MREL = "onnxscript/rewriter/_matcher.py"
BREL = "onnxscript/rewriter/_basics.py"
PREL = "onnxscript/rewriter/_pattern_ir.py"


class _F:
    """uniform field access for real objects and symbolic-heap stand-ins"""

    def __init__(self, o):
        self.o = o

    def __getitem__(self, k):
        return self.o.fields[k] if isinstance(self.o, SObj) else getattr(self.o, k)


def fields(o):
    return _F(o)


class Tok:
    def __init__(self, name):
        self.name = name

    def __repr__(self):
        return f"<{self.name}>"


def s_valid_to_replace(ctx):
    import onnx_ir as ir
    from onnxscript.rewriter import _matcher
    I = Interp(ctx)
    k = 1 + ctx.choose(2, "matched nodes")
    nodes = [SObj(ir.Node, f"m{i}") for i in range(k)]
    ext = SObj(ir.Node, "external")
    outputs_sel = []
    spec = True
    spec_terms = []
    for i, n in enumerate(nodes):
        outs = []
        for j in range((1 + ctx.choose(2, f"outputs of m{i}")) if i == 0 else 1):
            v = SObj(ir.Value, f"v{i}{j}")
            is_out = ctx.choose(2, f"v{i}{j} is a pattern output") == 1
            gout = ctx.bool(f"v{i}{j}_is_graph_output")
            cons = []
            ncons = ctx.choose(3 if (i, j) == (0, 0) else 2, f"consumers of v{i}{j}")
            inside_all = True
            for c in range(ncons):
                inside = ctx.choose(2, f"consumer {c} of v{i}{j} inside match") == 0
                cons.append(((nodes[0] if inside else ext), c))
                inside_all &= inside

            def igo(gout=gout):
                raise AssertionError

            def uses(cons=cons):
                raise AssertionError
            I.models[igo] = lambda interp, gout=gout: SBool(gout)
            I.models[uses] = lambda interp, cons=cons: list(cons)
            v.fields.update(is_graph_output=igo, uses=uses)
            outs.append(v)
            if is_out:
                outputs_sel.append(v)
            else:
                spec_terms.append(z3.And(z3.Not(gout), z3.BoolVal(inside_all)))
        n.fields["outputs"] = outs
    want = z3.And(*spec_terms) if spec_terms else z3.BoolVal(True)
    clo = I.closure_of(_matcher._valid_to_replace)
    r = I.run_closure(clo, [nodes, outputs_sel], {})
    ctx.check("C06.matcher.valid_to_replace.true_iff_no_external_use_of_intermediate_values",
              (z3.BoolVal(r) if isinstance(r, bool) else term(r)) == want, CL_REPL)


def s_match_state(ctx):
    from onnxscript.rewriter import _basics
    I = Interp(ctx)
    m = I.instantiate(_basics.MatchResult, [], {})
    x, y = z3.String("var_x"), z3.String("var_y")
    v1, v2, v3, v4 = Tok("v1"), Tok("v2"), Tok("v3"), Tok("v4")
    pn1, pn2, pv = Tok("pn1"), Tok("pn2"), Tok("pv")
    pv.name = None
    n1, n2 = Tok("n1"), Tok("n2")

    def call(name, *a):
        return I.call(I.getattr(m, name), list(a))
    ok1 = call("bind", SStr(x), v1)
    call("bind_node", pn1, n1)
    call("enter_new_match")
    same = ctx.branch(x == y)
    r2 = call("bind", SStr(y), v2)
    if same:
        # the same variable bound to a different value inside the alternative: conflict found across partial matches
        ctx.check("C06.basics.bind.conflict_detected_across_partial_matches", r2 is False and not I.truth(m), CL_BIND)
        r3 = I.call(I.getattr(m, "abandon_current_match"), [])
        ctx.check("C06.basics.bind.outer_match_unaffected_by_failed_alternative", I.truth(m) is True, CL_BIND)
        return
    ctx.check("C06.basics.bind.fresh_variable_binds", ok1 is True and r2 is True, CL_BIND)
    ctx.check("C06.basics.bind.rebinding_same_value_succeeds", call("bind", SStr(x), v1) is True, CL_BIND)
    call("bind_value", pv, v3)
    call("bind_node", pn2, n2)
    ctx.check("C06.basics.lookup_node.searches_all_partial_matches", call("lookup_node", pn1) is n1 and call("lookup_node", pn2) is n2, CL_BIND)
    top = m.fields["_partial_matches"][0]
    topf = fields(top)
    if ctx.choose(2, "abandon or merge") == 0:
        call("abandon_current_match")
        ctx.check("C06.basics.abandon.restores_state_exactly",
                  len(m.fields["_partial_matches"]) == 1 and list(topf["_bindings"].values()) == [v1]
                  and topf["_node_bindings"] == {pn1: n1} and topf["_value_bindings"] == {}
                  and list(topf["_matched_nodes"]) == [n1], CL)
        return
    call("merge_current_match")
    ctx.check("C06.basics.merge.keeps_variable_bindings", list(topf["_bindings"].values()) == [v1, v2], CL_BIND)
    ctx.check("C06.basics.merge.keeps_matched_nodes", list(topf["_matched_nodes"]) == [n1, n2], CL_BIND)
    ctx.check("C06.basics.merge.keeps_node_bindings", topf["_node_bindings"] == {pn1: n1, pn2: n2},
              "C06: 'attribute patterns and variables ... OR-alternatives' — node-level checks look the matched node up by its node pattern after the alternative is merged")
    ctx.check("C06.basics.merge.keeps_value_bindings", topf["_value_bindings"] == {pv: v3}, CL_BIND)
    ctx.check("C06.basics.merge.pops_the_alternative", len(m.fields["_partial_matches"]) == 1, CL)


def s_node_pattern_matches(ctx):
    import onnx_ir as ir
    from onnxscript.rewriter import _pattern_ir, _basics
    I = Interp(ctx)
    np_ = SObj(_pattern_ir.NodePattern, "nodepattern")
    op_ok, dom_ok = ctx.bool("op_matches"), ctx.bool("domain_matches")

    def mk_matcher(t):
        o = SObj(object, "strpattern")

        def f(s):
            raise AssertionError
        I.models[f] = lambda interp, s, t=t: SBool(t)
        o.fields["matches"] = f
        return o
    n_attr = ctx.choose(3, "attribute patterns")
    attrs = {}
    node_attrs = {}
    conds = []
    binds = []
    for i in range(n_attr):
        present = ctx.choose(2, f"attr{i} present in node") == 0
        can_none = ctx.choose(2, f"attr{i} can match none") == 1
        ok = ctx.bool(f"attr{i}_value_matches")
        named = ctx.choose(2, f"attr{i} is a variable") == 1
        ap = SObj(object, f"attrpattern{i}")

        def f(v):
            raise AssertionError
        I.models[f] = lambda interp, v, ok=ok: SBool(ok)
        ap.fields.update(matches=f, can_match_none=can_none, name=(f"a{i}" if named else None))
        attrs[f"k{i}"] = ap
        if present:
            node_attrs[f"k{i}"] = Tok(f"attrvalue{i}")
            conds.append(ok)
        else:
            conds.append(z3.BoolVal(can_none))
        binds.append((named, present, f"a{i}"))
    extra = ctx.choose(2, "node has an attribute not in the pattern") == 1
    if extra:
        node_attrs["other"] = Tok("other")
    allow_other = ctx.choose(2, "allow_other_attributes") == 1
    np_.fields.update(op=mk_matcher(op_ok), domain=mk_matcher(dom_ok), attributes=attrs, allow_other_attributes=allow_other)
    node = SObj(ir.Node, "node")
    node.fields.update(op_type="Op", domain="", attributes=node_attrs)
    m = I.instantiate(_basics.MatchResult, [], {})
    clo = I.closure_of(_pattern_ir.NodePattern.matches)
    r = I.run_closure(clo, [np_, node, m], {})
    got = I.truth(r)
    want = z3.And(op_ok, dom_ok, *conds, z3.BoolVal(allow_other or not extra))
    ctx.check("C06.pattern_ir.node_pattern.matches_iff_op_domain_and_attributes_agree", z3.BoolVal(got) == want,
              "C06: 'operator, domain and attributes agree ... optional or extra inputs and attributes'")
    if got:
        b = fields(m.fields["_partial_matches"][0])["_bindings"]
        exp = {nm: node_attrs.get(f"k{i}") for i, (named, present, nm) in enumerate(binds) if named}
        ctx.check("C06.pattern_ir.node_pattern.attribute_variables_bound_to_the_node_attribute_values",
                  set(b.keys()) == set(exp.keys()) and all(b[k] is exp[k] for k in exp), CL_BIND)


def m_isclose(interp, a, b, *, rel_tol=1e-09, abs_tol=0.0):
    def R(v):
        t = term(v)
        return z3.ToReal(t) if t.sort() == z3.IntSort() else t
    x, y = R(a), R(b)
    ab = lambda t: z3.If(t >= 0, t, -t)
    mx = z3.If(ab(x) >= ab(y), ab(x), ab(y))
    tol = R(rel_tol) * mx
    at = R(abs_tol)
    lim = z3.If(tol >= at, tol, at)
    return wrap(ab(x - y) <= lim)


def s_match_constant(ctx):
    import numpy as np
    import onnx_ir as ir
    from onnxscript.rewriter import _matcher, _pattern_ir
    I = Interp(ctx)
    I.models[math.isclose] = m_isclose
    self = SObj(_matcher.SimplePatternMatcher, "matcher")

    def fail(*a, **k):
        raise AssertionError
    I.models[fail] = lambda interp, *a, **k: False
    self.fields["fail"] = fail
    pc = SObj(_pattern_ir.Constant, "constpattern")
    pval = ctx.const("pattern_value", z3.RealSort())
    rel, abs_ = ctx.const("rel_tol", z3.RealSort()), ctx.const("abs_tol", z3.RealSort())
    ctx.assume(z3.And(rel >= 0, abs_ >= 0))
    pc.fields.update(_value=SReal(pval), value=SReal(pval), _rel_tol=SReal(rel), _abs_tol=SReal(abs_))
    has_const = ctx.choose(2, "value is a known constant") == 0
    ndim = ctx.choose(3, "constant rank")
    cval = ctx.const("constant_value", z3.RealSort())
    for nm, t in (("pattern_value", pval), ("constant_value", cval), ("rel_tol", rel), ("abs_tol", abs_)):
        ctx.witness[nm] = t
    arr = SObj(np.ndarray, "array")

    def item(*a):
        raise AssertionError
    I.models[item] = lambda interp, *a: SReal(cval)
    arr.fields.update(ndim=ndim, shape=tuple([1] * ndim), item=item)
    tensor = SObj(ir.Tensor, "tensor")

    def numpy_():
        raise AssertionError
    I.models[numpy_] = lambda interp: arr
    tensor.fields["numpy"] = numpy_
    value = SObj(ir.Value, "value")
    overridable = ctx.choose(2, "value is also a graph input (a default the caller may override)") == 1

    def f_gi():
        raise AssertionError
    I.models[f_gi] = lambda interp: overridable
    value.fields.update(const_value=(tensor if has_const else None), name="v", is_graph_input=f_gi)
    clo = I.closure_of(_matcher.SimplePatternMatcher._match_constant)
    r = I.run_closure(clo, [self, pc, value], {})
    ab = lambda t: z3.If(t >= 0, t, -t)
    mx = z3.If(ab(cval) >= ab(pval), ab(cval), ab(pval))
    lim = z3.If(rel * mx >= abs_, rel * mx, abs_)
    close = ab(cval - pval) <= lim
    # a graph input with a default value is not a constant (C04: 'never folded into constants')
    want = z3.And(z3.BoolVal(has_const and not overridable and ndim == 0), close)
    ctx.check("C06.matcher.match_constant.scalar_matches_iff_known_scalar_constant_within_tolerance",
              (z3.BoolVal(r) if isinstance(r, bool) else term(r)) == want, "C06: 'constants agree within the stated tolerance'")


SCENARIOS = [
    Scenario("C06.matcher.valid_to_replace", s_valid_to_replace, [(MREL, "_valid_to_replace")], kind="bounded",
             bound="<= 2 matched nodes, <= 2 outputs each, <= 2 consumers each; graph-output flags symbolic"),
    Scenario("C06.basics.match_state", s_match_state,
             [(BREL, "MatchResult.bind"), (BREL, "MatchResult.bind_value"), (BREL, "MatchResult.bind_node"), (BREL, "MatchResult.lookup_node"),
              (BREL, "MatchResult.enter_new_match"), (BREL, "MatchResult.abandon_current_match"), (BREL, "MatchResult.merge_current_match"),
              (BREL, "PartialMatchResult.merge"), (BREL, "PartialMatchResult.__init__"), (BREL, "MatchResult.__init__")],
             kind="bounded", bound="one alternative (enter ... abandon|merge) with two variables (names symbolic, possibly equal), one anonymous value pattern, two node patterns"),
    Scenario("C06.pattern_ir.node_pattern_matches", s_node_pattern_matches, [(PREL, "NodePattern.matches")], kind="bounded",
             bound="<= 2 attribute patterns (present/absent, can_match_none, variable or not; value agreement symbolic), one extra node attribute"),
    Scenario("C06.matcher.match_constant", s_match_constant, [(MREL, "SimplePatternMatcher._match_constant")],
             trusted=["math.isclose(a, b, rel_tol, abs_tol) = |a-b| <= max(rel_tol*max(|a|,|b|), abs_tol) (Python documentation), floats as reals"],
             assumptions=["machine arithmetic treated as mathematical (reals) in the tolerance comparison"]),
]


def s_clone(ctx):
    """Pattern clone (used by commute()): a cloned pattern must carry every field of the original — value and both
    tolerances of a Constant, name / check / can_match_none of a Var; a cloned NodePattern keeps op, domain,
    attributes, flags and check, its inputs are the clones in the same order, swapped iff swap=True."""
    from onnxscript.rewriter import _pattern_ir as P
    I = Interp(ctx)
    v, rel, ab = (ctx.const(n, z3.RealSort()) for n in ("value", "rel_tol", "abs_tol"))
    c = I.instantiate(P.Constant, [SReal(v), SReal(rel), SReal(ab)], {})
    c2 = I.call(I.getattr(c, "clone"), [{}])
    f2 = fields(c2)
    ctx.check("C06.pattern_ir.clone.constant_keeps_value_and_tolerances",
              z3.And(term(f2["_value"]) == v, term(f2["_rel_tol"]) == rel, term(f2["_abs_tol"]) == ab),
              "C06: 'with commute=True the matches are exactly those of the pattern under swaps of the operands of commutative operators'")
    name = z3.String("var_name")
    cmn = ctx.choose(2, "can_match_none") == 1
    chk = Tok("check_fn")
    var = I.instantiate(P.Var, [SStr(name)], {"check": chk, "can_match_none": cmn})
    var2 = I.call(I.getattr(var, "clone"), [{}])
    g = fields(var2)
    ctx.check("C06.pattern_ir.clone.var_keeps_name_check_and_optionality",
              z3.And(term(g["_name"]) == name, z3.BoolVal(g["_check"] is chk and g["_can_match_none"] is cmn)), CL_BIND)
    # NodePattern.clone
    swap = ctx.choose(2, "swap") == 1
    a, b = Tok("in_a"), Tok("in_b")
    a2, b2 = Tok("clone_a"), Tok("clone_b")
    for t, t2 in ((a, a2), (b, b2)):
        def cl(m, t2=t2):
            return t2
        cl._pyvc_native = True
        t.clone = cl
    np_ = SObj(P.NodePattern, "np")
    dom, opm, attrs, chk2 = Tok("domain"), Tok("op"), {"k": Tok("attrpattern")}, Tok("node_check")
    aoa = ctx.choose(2, "allow_other_attributes") == 1
    aoi = ctx.choose(2, "allow_other_inputs") == 1
    out = Tok("out")
    out.name = "o"
    np_.fields.update(domain=dom, op=opm, inputs=[a, b], attributes=attrs, outputs=[out], allow_other_attributes=aoa,
                      allow_other_inputs=aoi, _check=chk2)
    made = []

    def m_nodepattern(interp, domain, op, inputs, attributes, outputs, *, allow_other_attributes, allow_other_inputs, check):
        r = dict(domain=domain, op=op, inputs=list(inputs), attributes=attributes, outputs=list(outputs),
                 allow_other_attributes=allow_other_attributes, allow_other_inputs=allow_other_inputs, check=check)
        made.append(r)
        return r
    I.models[P.NodePattern] = m_nodepattern
    node_map = {}
    r = I.call(I.getattr(np_, "clone"), [node_map, swap])
    ok = len(made) == 1 and r is made[0]
    ctx.check("C06.pattern_ir.clone.node_pattern_creates_one_copy", ok, CL)
    if ok:
        ctx.check("C06.pattern_ir.clone.node_pattern_keeps_op_domain_attributes_flags_and_check",
                  r["domain"] is dom and r["op"] is opm and r["attributes"] is attrs and r["allow_other_attributes"] is aoa
                  and r["allow_other_inputs"] is aoi and r["check"] is chk2 and r["outputs"] == ["o"], CL)
        ctx.check("C06.pattern_ir.clone.node_pattern_inputs_are_the_clones_swapped_iff_requested",
                  r["inputs"] == ([b2, a2] if swap else [a2, b2]), CL)


SCENARIOS.append(Scenario("C06.pattern_ir.clone", s_clone, [(PREL, "Constant.clone"), (PREL, "Var.clone"), (PREL, "NodePattern.clone"),
                                                             (PREL, "Constant.__init__"), (PREL, "Var.__init__"), (PREL, "ValuePattern.__init__")]))
