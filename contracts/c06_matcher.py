"""C06 — the pattern matcher reports a match exactly when the subgraph is an instance: local contracts.

  _matcher._valid_to_replace        true iff no non-output value of a matched node is a graph output or has a consumer
                                    outside the match (<= 2 matched nodes x <= 2 outputs x <= 2 consumers, symbolic flags)
  PartialMatchResult.merge / MatchResult.enter_new_match / abandon_current_match / merge_current_match / bind /
  bind_value / bind_node / lookup_node
                                    abandon restores the state exactly; merge loses nothing (bindings, value bindings,
                                    node bindings, matched nodes); a name bound twice binds one value, searched across
                                    all partial matches (symbolic variable names)
  NodePattern.matches               op, domain, each attribute pattern, allow_other_attributes, attribute variables bound
  SimplePatternMatcher._match_constant   scalar constants: match iff the value is a known scalar constant within the stated
                                    tolerance (math.isclose over the reals)
The global soundness/completeness of the mutually recursive matcher follows from these by induction on the pattern on
paper; that induction is not machine-checked (DESIGN 4, C06).
"""
from __future__ import annotations

import math

import z3

from pyvc.harness import Scenario
from pyvc.interp import Interp, PyRaise
from pyvc.values import SObj, SBool, SStr, SReal, Opaque, term, wrap

CL = "C06: 'a match is reported if and only if the subgraph ending at that node is an instance of the pattern under its documented meaning'"
CL_BIND = "C06: 'a variable used twice binds one value ... The bindings returned are exactly the instance's values'"
CL_REPL = "C06: 'when matched nodes are to be removed - no intermediate matched value is used outside the match or is a graph output'"
MREL = "onnxscript/rewriter/_matcher.py"
BREL = "onnxscript/rewriter/_basics.py"
PREL = "onnxscript/rewriter/_pattern_ir.py"


class _F:
    """uniform field access for real objects and symbolic-heap stand-ins"""

    def __init__(self, o):
        self.o = o

    def __getitem__(self, k):
        return self.o.fields[k] if isinstance(self.o, SObj) else getattr(self.o, k)


def fields(o):
    return _F(o)


class Tok:
    def __init__(self, name):
        self.name = name

    def __repr__(self):
        return f"<{self.name}>"


def s_valid_to_replace(ctx):
    import onnx_ir as ir
    from onnxscript.rewriter import _matcher
    I = Interp(ctx)
    k = 1 + ctx.choose(2, "matched nodes")
    nodes = [SObj(ir.Node, f"m{i}") for i in range(k)]
    ext = SObj(ir.Node, "external")
    outputs_sel = []
    spec = True
    spec_terms = []
    for i, n in enumerate(nodes):
        outs = []
        for j in range((1 + ctx.choose(2, f"outputs of m{i}")) if i == 0 else 1):
            v = SObj(ir.Value, f"v{i}{j}")
            is_out = ctx.choose(2, f"v{i}{j} is a pattern output") == 1
            gout = ctx.bool(f"v{i}{j}_is_graph_output")
            cons = []
            ncons = ctx.choose(3 if (i, j) == (0, 0) else 2, f"consumers of v{i}{j}")
            inside_all = True
            for c in range(ncons):
                inside = ctx.choose(2, f"consumer {c} of v{i}{j} inside match") == 0
                cons.append(((nodes[0] if inside else ext), c))
                inside_all &= inside

            def igo(gout=gout):
                raise AssertionError

            def uses(cons=cons):
                raise AssertionError
            I.models[igo] = lambda interp, gout=gout: SBool(gout)
            I.models[uses] = lambda interp, cons=cons: list(cons)
            v.fields.update(is_graph_output=igo, uses=uses)
            outs.append(v)
            if is_out:
                outputs_sel.append(v)
            else:
                spec_terms.append(z3.And(z3.Not(gout), z3.BoolVal(inside_all)))
        n.fields["outputs"] = outs
    want = z3.And(*spec_terms) if spec_terms else z3.BoolVal(True)
    clo = I.closure_of(_matcher._valid_to_replace)
    r = I.run_closure(clo, [nodes, outputs_sel], {})
    ctx.check("C06.matcher.valid_to_replace.true_iff_no_external_use_of_intermediate_values",
              (z3.BoolVal(r) if isinstance(r, bool) else term(r)) == want, CL_REPL)


def s_match_state(ctx):
    from onnxscript.rewriter import _basics
    I = Interp(ctx)
    m = I.instantiate(_basics.MatchResult, [], {})
    x, y = z3.String("var_x"), z3.String("var_y")
    v1, v2, v3, v4 = Tok("v1"), Tok("v2"), Tok("v3"), Tok("v4")
    pn1, pn2, pv = Tok("pn1"), Tok("pn2"), Tok("pv")
    pv.name = None
    n1, n2 = Tok("n1"), Tok("n2")

    def call(name, *a):
        return I.call(I.getattr(m, name), list(a))
    ok1 = call("bind", SStr(x), v1)
    call("bind_node", pn1, n1)
    call("enter_new_match")
    same = ctx.branch(x == y)
    r2 = call("bind", SStr(y), v2)
    if same:
        # the same variable bound to a different value inside the alternative: conflict found across partial matches
        ctx.check("C06.basics.bind.conflict_detected_across_partial_matches", r2 is False and not I.truth(m), CL_BIND)
        r3 = I.call(I.getattr(m, "abandon_current_match"), [])
        ctx.check("C06.basics.bind.outer_match_unaffected_by_failed_alternative", I.truth(m) is True, CL_BIND)
        return
    ctx.check("C06.basics.bind.fresh_variable_binds", ok1 is True and r2 is True, CL_BIND)
    ctx.check("C06.basics.bind.rebinding_same_value_succeeds", call("bind", SStr(x), v1) is True, CL_BIND)
    call("bind_value", pv, v3)
    call("bind_node", pn2, n2)
    ctx.check("C06.basics.lookup_node.searches_all_partial_matches", call("lookup_node", pn1) is n1 and call("lookup_node", pn2) is n2, CL_BIND)
    top = m.fields["_partial_matches"][0]
    topf = fields(top)
    if ctx.choose(2, "abandon or merge") == 0:
        call("abandon_current_match")
        ctx.check("C06.basics.abandon.restores_state_exactly",
                  len(m.fields["_partial_matches"]) == 1 and list(topf["_bindings"].values()) == [v1]
                  and topf["_node_bindings"] == {pn1: n1} and topf["_value_bindings"] == {}
                  and list(topf["_matched_nodes"]) == [n1], CL)
        return
    call("merge_current_match")
    ctx.check("C06.basics.merge.keeps_variable_bindings", list(topf["_bindings"].values()) == [v1, v2], CL_BIND)
    ctx.check("C06.basics.merge.keeps_matched_nodes", list(topf["_matched_nodes"]) == [n1, n2], CL_BIND)
    ctx.check("C06.basics.merge.keeps_node_bindings", topf["_node_bindings"] == {pn1: n1, pn2: n2},
              "C06: 'attribute patterns and variables ... OR-alternatives' — node-level checks look the matched node up by its node pattern after the alternative is merged")
    ctx.check("C06.basics.merge.keeps_value_bindings", topf["_value_bindings"] == {pv: v3}, CL_BIND)
    ctx.check("C06.basics.merge.pops_the_alternative", len(m.fields["_partial_matches"]) == 1, CL)


def s_node_pattern_matches(ctx):
    import onnx_ir as ir
    from onnxscript.rewriter import _pattern_ir, _basics
    I = Interp(ctx)
    np_ = SObj(_pattern_ir.NodePattern, "nodepattern")
    op_ok, dom_ok = ctx.bool("op_matches"), ctx.bool("domain_matches")

    def mk_matcher(t):
        o = SObj(object, "strpattern")

        def f(s):
            raise AssertionError
        I.models[f] = lambda interp, s, t=t: SBool(t)
        o.fields["matches"] = f
        return o
    n_attr = ctx.choose(3, "attribute patterns")
    attrs = {}
    node_attrs = {}
    conds = []
    binds = []
    for i in range(n_attr):
        present = ctx.choose(2, f"attr{i} present in node") == 0
        can_none = ctx.choose(2, f"attr{i} can match none") == 1
        ok = ctx.bool(f"attr{i}_value_matches")
        named = ctx.choose(2, f"attr{i} is a variable") == 1
        ap = SObj(object, f"attrpattern{i}")

        def f(v):
            raise AssertionError
        I.models[f] = lambda interp, v, ok=ok: SBool(ok)
        ap.fields.update(matches=f, can_match_none=can_none, name=(f"a{i}" if named else None))
        attrs[f"k{i}"] = ap
        if present:
            node_attrs[f"k{i}"] = Tok(f"attrvalue{i}")
            conds.append(ok)
        else:
            conds.append(z3.BoolVal(can_none))
        binds.append((named, present, f"a{i}"))
    extra = ctx.choose(2, "node has an attribute not in the pattern") == 1
    if extra:
        node_attrs["other"] = Tok("other")
    allow_other = ctx.choose(2, "allow_other_attributes") == 1
    np_.fields.update(op=mk_matcher(op_ok), domain=mk_matcher(dom_ok), attributes=attrs, allow_other_attributes=allow_other)
    node = SObj(ir.Node, "node")
    node.fields.update(op_type="Op", domain="", attributes=node_attrs)
    m = I.instantiate(_basics.MatchResult, [], {})
    clo = I.closure_of(_pattern_ir.NodePattern.matches)
    r = I.run_closure(clo, [np_, node, m], {})
    got = I.truth(r)
    want = z3.And(op_ok, dom_ok, *conds, z3.BoolVal(allow_other or not extra))
    ctx.check("C06.pattern_ir.node_pattern.matches_iff_op_domain_and_attributes_agree", z3.BoolVal(got) == want,
              "C06: 'operator, domain and attributes agree ... optional or extra inputs and attributes'")
    if got:
        b = fields(m.fields["_partial_matches"][0])["_bindings"]
        exp = {nm: node_attrs.get(f"k{i}") for i, (named, present, nm) in enumerate(binds) if named}
        ctx.check("C06.pattern_ir.node_pattern.attribute_variables_bound_to_the_node_attribute_values",
                  set(b.keys()) == set(exp.keys()) and all(b[k] is exp[k] for k in exp), CL_BIND)


def m_isclose(interp, a, b, *, rel_tol=1e-09, abs_tol=0.0):
    def R(v):
        t = term(v)
        return z3.ToReal(t) if t.sort() == z3.IntSort() else t
    x, y = R(a), R(b)
    ab = lambda t: z3.If(t >= 0, t, -t)
    mx = z3.If(ab(x) >= ab(y), ab(x), ab(y))
    tol = R(rel_tol) * mx
    at = R(abs_tol)
    lim = z3.If(tol >= at, tol, at)
    return wrap(ab(x - y) <= lim)


def s_match_constant(ctx):
    import numpy as np
    import onnx_ir as ir
    from onnxscript.rewriter import _matcher, _pattern_ir
    I = Interp(ctx)
    I.models[math.isclose] = m_isclose
    self = SObj(_matcher.SimplePatternMatcher, "matcher")

    ghost = {"failed": False}

    def fail(*a, **k):
        raise AssertionError
    I.models[fail] = lambda interp, *a, **k: ghost.__setitem__("failed", True) or False
    self.fields["fail"] = fail
    pc = SObj(_pattern_ir.Constant, "constpattern")
    pval = ctx.const("pattern_value", z3.RealSort())
    rel, abs_ = ctx.const("rel_tol", z3.RealSort()), ctx.const("abs_tol", z3.RealSort())
    ctx.assume(z3.And(rel >= 0, abs_ >= 0))
    pc.fields.update(_value=SReal(pval), value=SReal(pval), _rel_tol=SReal(rel), _abs_tol=SReal(abs_))
    has_const = ctx.choose(2, "value is a known constant") == 0
    ndim = ctx.choose(3, "constant rank")
    cval = ctx.const("constant_value", z3.RealSort())
    for nm, t in (("pattern_value", pval), ("constant_value", cval), ("rel_tol", rel), ("abs_tol", abs_)):
        ctx.witness[nm] = t
    arr = SObj(np.ndarray, "array")

    def item(*a):
        raise AssertionError
    I.models[item] = lambda interp, *a: SReal(cval)
    arr.fields.update(ndim=ndim, shape=tuple([1] * ndim), size=1, item=item)  # one element, rank 0 / 1 / 2
    tensor = SObj(ir.Tensor, "tensor")

    def numpy_():
        raise AssertionError
    I.models[numpy_] = lambda interp: arr
    tensor.fields["numpy"] = numpy_
    value = SObj(ir.Value, "value")
    overridable = ctx.choose(2, "value is also a graph input (a default the caller may override)") == 1

    def f_gi():
        raise AssertionError
    I.models[f_gi] = lambda interp: overridable
    value.fields.update(const_value=(tensor if has_const else None), name="v", is_graph_input=f_gi)
    clo = I.closure_of(_matcher.SimplePatternMatcher._match_constant)
    r = I.run_closure(clo, [self, pc, value], {})
    ctx.check("C06.matcher.match_constant.a_false_result_is_recorded_as_a_failed_match",
              z3.Or(z3.BoolVal(r) if isinstance(r, bool) else term(r), z3.BoolVal(ghost["failed"])), "C06: 'a reported match is an occurrence of the pattern' — match() returns the MatchResult, which is truthy unless a failure was recorded")
    ab = lambda t: z3.If(t >= 0, t, -t)
    mx = z3.If(ab(cval) >= ab(pval), ab(cval), ab(pval))
    lim = z3.If(rel * mx >= abs_, rel * mx, abs_)
    close = ab(cval - pval) <= lim
    # a graph input with a default value is not a constant (C04: 'never folded into constants')
    want = z3.And(z3.BoolVal(has_const and not overridable and ndim == 0), close)
    ctx.check("C06.matcher.match_constant.scalar_matches_iff_known_scalar_constant_within_tolerance",
              (z3.BoolVal(r) if isinstance(r, bool) else term(r)) == want, "C06: 'constants agree within the stated tolerance'")


class RArr:
    """1-D / 2-D constant array of symbolic reals (what const_value.numpy() returns)"""

    def __init__(self, items, shape):
        self.items = list(items)
        self.shape = tuple(shape)
        self.ndim = len(self.shape)
        self.size = len(self.items)

    def item(self, *a):
        return self.items[a[0] if a else 0]

    def __iter__(self):
        return iter(list(self.items))

    def __len__(self):
        return self.shape[0] if self.shape else 0

    def tolist(self):
        return list(self.items)


for _n in ("item", "__iter__", "__len__", "tolist"):
    getattr(RArr, _n)._pyvc_native = True


def s_match_constant_list(ctx):
    """_match_constant with a LIST-valued pattern constant [p_0..p_{n-1}]: matches iff the value is a known (not overridable)
    1-D constant of exactly n elements and every element is close to its pattern element in the sense the pattern states:
    |c - p| <= max(rel_tol * max(|c|, |p|), abs_tol)  (the documented math.isclose tolerance of pattern.Constant)."""
    import math
    import numpy as np
    import onnx_ir as ir
    from onnxscript.rewriter import _matcher, _pattern_ir
    I = Interp(ctx)
    I.models[math.isclose] = m_isclose

    def R(v):
        t = term(v)
        return z3.ToReal(t) if t.sort() == z3.IntSort() else t

    def m_allclose(interp, a, b, rtol=1e-05, atol=1e-08, equal_nan=False):
        xs = list(a.items) if isinstance(a, RArr) else list(interp.iterate(a))
        ys = list(b.items) if isinstance(b, RArr) else list(interp.iterate(b))
        if len(xs) != len(ys):
            raise PyRaise(ValueError("operands could not be broadcast together"))
        ab = lambda t: z3.If(t >= 0, t, -t)
        return wrap(z3.And(*[ab(R(x) - R(y)) <= R(atol) + R(rtol) * ab(R(y)) for x, y in zip(xs, ys)]))
    I.models[np.allclose] = m_allclose
    match = MatchStub(ctx)
    self = _matcher_self(I, ctx, match)
    n = 1 + ctx.choose(2, "pattern list length")
    pvals = [ctx.const(f"pattern_value{i}", z3.RealSort()) for i in range(n)]
    rel, abs_ = ctx.const("rel_tol", z3.RealSort()), ctx.const("abs_tol", z3.RealSort())
    ctx.assume(z3.And(rel >= 0, abs_ >= 0))
    pc = SObj(_pattern_ir.Constant, "constpattern")
    plist = [SReal(p) for p in pvals]
    pc.fields.update(_value=plist, value=plist, _rel_tol=SReal(rel), _abs_tol=SReal(abs_))
    shape = [(1,), (2,), (3,), (1, 2), (2, 1), ()][ctx.choose(6, "shape of the constant")]
    size = 1
    for d in shape:
        size *= d
    cvals = [ctx.const(f"constant_value{i}", z3.RealSort()) for i in range(size)]
    for nm, t in [(f"pattern_value{i}", p) for i, p in enumerate(pvals)] + [(f"constant_value{i}", c) for i, c in enumerate(cvals)] + [("rel_tol", rel), ("abs_tol", abs_)]:
        ctx.witness[nm] = t
    arr = RArr([SReal(c) for c in cvals], shape)
    tensor = SObj(ir.Tensor, "tensor")

    def numpy_():
        raise AssertionError
    I.models[numpy_] = lambda interp: arr
    tensor.fields["numpy"] = numpy_
    has_const = ctx.choose(2, "value is a known constant") == 0
    overridable = ctx.choose(2, "value is also a graph input") == 1
    value = SObj(ir.Value, "value")

    def f_gi():
        raise AssertionError
    I.models[f_gi] = lambda interp: overridable
    value.fields.update(const_value=(tensor if has_const else None), name="v", is_graph_input=f_gi)
    try:
        r = I.run_closure(I.closure_of(_matcher.SimplePatternMatcher._match_constant), [self, pc, value], {})
    except PyRaise as e:
        ctx.check("C06.matcher.match_constant.list.never_raises", False, "C06: 'a reported match is an occurrence of the pattern' — matching decides, it does not raise")
        return
    rt = z3.BoolVal(r) if isinstance(r, bool) else term(r)
    ab = lambda t: z3.If(t >= 0, t, -t)
    structural = has_const and not overridable and shape == (n,)
    if structural:
        close = []
        for c, p in zip(cvals, pvals):
            mx = z3.If(ab(c) >= ab(p), ab(c), ab(p))
            lim = z3.If(rel * mx >= abs_, rel * mx, abs_)
            close.append(ab(c - p) <= lim)
        want = z3.And(*close)
    else:
        want = z3.BoolVal(False)
    ctx.check("C06.matcher.match_constant.list.matches_iff_known_1d_constant_of_that_length_with_every_element_within_tolerance",
              rt == want, "C06: 'constants agree within the stated tolerance'")
    ctx.check("C06.matcher.match_constant.list.a_false_result_is_recorded_as_a_failed_match", z3.Or(rt, z3.BoolVal(match.failed)),
              "C06: 'a reported match is an occurrence of the pattern'")


SCENARIOS = [
    Scenario("C06.matcher.valid_to_replace", s_valid_to_replace, [(MREL, "_valid_to_replace")], kind="bounded",
             bound="<= 2 matched nodes, <= 2 outputs each, <= 2 consumers each; graph-output flags symbolic"),
    Scenario("C06.basics.match_state", s_match_state,
             [(BREL, "MatchResult.bind"), (BREL, "MatchResult.bind_value"), (BREL, "MatchResult.bind_node"), (BREL, "MatchResult.lookup_node"),
              (BREL, "MatchResult.enter_new_match"), (BREL, "MatchResult.abandon_current_match"), (BREL, "MatchResult.merge_current_match"),
              (BREL, "PartialMatchResult.merge"), (BREL, "PartialMatchResult.__init__"), (BREL, "MatchResult.__init__")],
             kind="bounded", bound="one alternative (enter ... abandon|merge) with two variables (names symbolic, possibly equal), one anonymous value pattern, two node patterns"),
    Scenario("C06.pattern_ir.node_pattern_matches", s_node_pattern_matches, [(PREL, "NodePattern.matches")], kind="bounded",
             bound="<= 2 attribute patterns (present/absent, can_match_none, variable or not; value agreement symbolic), one extra node attribute"),
    Scenario("C06.matcher.match_constant.list", s_match_constant_list, [(MREL, "SimplePatternMatcher._match_constant")],
             assumptions=["floats treated as reals"], trusted=["math.isclose / numpy.allclose tolerance formulas"]),
    Scenario("C06.matcher.match_constant", s_match_constant, [(MREL, "SimplePatternMatcher._match_constant")],
             trusted=["math.isclose(a, b, rel_tol, abs_tol) = |a-b| <= max(rel_tol*max(|a|,|b|), abs_tol) (Python documentation), floats as reals"],
             assumptions=["machine arithmetic treated as mathematical (reals) in the tolerance comparison"]),
]


def s_clone(ctx):
    """Pattern clone (used by commute()): a cloned pattern must carry every field of the original — value and both
    tolerances of a Constant, name / check / can_match_none of a Var; a cloned NodePattern keeps op, domain,
    attributes, flags and check, its inputs are the clones in the same order, swapped iff swap=True."""
    from onnxscript.rewriter import _pattern_ir as P
    I = Interp(ctx)
    v, rel, ab = (ctx.const(n, z3.RealSort()) for n in ("value", "rel_tol", "abs_tol"))
    c = I.instantiate(P.Constant, [SReal(v), SReal(rel), SReal(ab)], {})
    c2 = I.call(I.getattr(c, "clone"), [{}])
    f2 = fields(c2)
    ctx.check("C06.pattern_ir.clone.constant_keeps_value_and_tolerances",
              z3.And(term(f2["_value"]) == v, term(f2["_rel_tol"]) == rel, term(f2["_abs_tol"]) == ab),
              "C06: 'with commute=True the matches are exactly those of the pattern under swaps of the operands of commutative operators'")
    name = z3.String("var_name")
    cmn = ctx.choose(2, "can_match_none") == 1
    chk = Tok("check_fn")
    var = I.instantiate(P.Var, [SStr(name)], {"check": chk, "can_match_none": cmn})
    var2 = I.call(I.getattr(var, "clone"), [{}])
    g = fields(var2)
    ctx.check("C06.pattern_ir.clone.var_keeps_name_check_and_optionality",
              z3.And(term(g["_name"]) == name, z3.BoolVal(g["_check"] is chk and g["_can_match_none"] is cmn)), CL_BIND)
    # NodePattern.clone
    swap = ctx.choose(2, "swap") == 1
    a, b = Tok("in_a"), Tok("in_b")
    a2, b2 = Tok("clone_a"), Tok("clone_b")
    for t, t2 in ((a, a2), (b, b2)):
        def cl(m, t2=t2):
            return t2
        cl._pyvc_native = True
        t.clone = cl
    np_ = SObj(P.NodePattern, "np")
    dom, opm, attrs, chk2 = Tok("domain"), Tok("op"), {"k": Tok("attrpattern")}, Tok("node_check")
    aoa = ctx.choose(2, "allow_other_attributes") == 1
    aoi = ctx.choose(2, "allow_other_inputs") == 1
    out = Tok("out")
    out.name = "o"
    np_.fields.update(domain=dom, op=opm, inputs=[a, b], attributes=attrs, outputs=[out], allow_other_attributes=aoa,
                      allow_other_inputs=aoi, _check=chk2)
    made = []

    def m_nodepattern(interp, domain, op, inputs, attributes, outputs, *, allow_other_attributes, allow_other_inputs, check):
        r = dict(domain=domain, op=op, inputs=list(inputs), attributes=attributes, outputs=list(outputs),
                 allow_other_attributes=allow_other_attributes, allow_other_inputs=allow_other_inputs, check=check)
        made.append(r)
        return r
    I.models[P.NodePattern] = m_nodepattern
    node_map = {}
    r = I.call(I.getattr(np_, "clone"), [node_map, swap])
    ok = len(made) == 1 and r is made[0]
    ctx.check("C06.pattern_ir.clone.node_pattern_creates_one_copy", ok, CL)
    if ok:
        ctx.check("C06.pattern_ir.clone.node_pattern_keeps_op_domain_attributes_flags_and_check",
                  r["domain"] is dom and r["op"] is opm and r["attributes"] is attrs and r["allow_other_attributes"] is aoa
                  and r["allow_other_inputs"] is aoi and r["check"] is chk2 and r["outputs"] == ["o"], CL)
        ctx.check("C06.pattern_ir.clone.node_pattern_inputs_are_the_clones_swapped_iff_requested",
                  r["inputs"] == ([b2, a2] if swap else [a2, b2]), CL)


SCENARIOS.append(Scenario("C06.pattern_ir.clone", s_clone, [(PREL, "Constant.clone"), (PREL, "Var.clone"), (PREL, "NodePattern.clone"),
                                                             (PREL, "Constant.__init__"), (PREL, "Var.__init__"), (PREL, "ValuePattern.__init__")]))


# ------------------------------------------------------------------ the recursive matcher, function by function ---
# Callees are replaced by recorders whose results are chosen arbitrarily (modular reasoning: only their contracts —
# "returns whether ... matches, extends the match state" — are used); each function's OWN logic is executed from source.

class MatchStub:
    """self._match: records binding calls; results of bind_value chosen per call"""

    def __init__(self, ctx, already=None):
        self.ctx = ctx
        self.calls = []
        self.already = already or {}
        self.reason = "reason"
        self.nodes = []
        self.outputs = []
        self.failed = False
        self.bindings = {}
        self.value_bindings = {}

    def lookup_node(self, pattern_node):
        return self.already.get(id(pattern_node))

    def bind_node(self, pattern_node, node):
        self.calls.append(("bind_node", pattern_node, node))
        self.nodes.append(node)

    def bind_value(self, pattern_value, value):
        ok = self.ctx.choose(2, f"bind_value #{len([c for c in self.calls if c[0] == 'bind_value'])} succeeds") == 0
        self.calls.append(("bind_value", pattern_value, value, ok))
        if not ok:
            self.failed = True  # MatchResult.bind_value / bind call fail() before returning False
        return ok

    def bind(self, var, value):
        self.calls.append(("bind", var, value))
        return True

    def enter_new_match(self):
        self.calls.append(("enter",))

    def merge_current_match(self):
        self.calls.append(("merge",))

    def abandon_current_match(self):
        self.calls.append(("abandon",))

    def fail(self, *a, **k):
        self.failed = True
        return self

    def __bool__(self):
        return not self.failed


for _n in ("lookup_node", "bind_node", "bind_value", "bind", "enter_new_match", "merge_current_match", "abandon_current_match", "fail", "__bool__"):
    getattr(MatchStub, _n)._pyvc_native = True


def _matcher_self(I, ctx, match, graph=None):
    from onnxscript.rewriter import _matcher
    self = SObj(_matcher.SimplePatternMatcher, "matcher")

    # SimplePatternMatcher.fail is the real one (interpreted): it records the failure in self._match and returns False
    self.fields.update(_match=match, _verbose=0, _current_node=None, _graph=graph)
    return self


def s_match_node(ctx):
    """_match_node(pattern_node, node): True iff the node is an instance of the node pattern — operator / attributes
    (NodePattern.matches), EVERY input position of the pattern (a missing trailing input of the node counts as None;
    extra node inputs only with allow_other_inputs), and every pattern output bound to the node's output."""
    import onnx_ir as ir
    from onnxscript.rewriter import _matcher, _pattern_ir
    I = Interp(ctx)
    pn = SObj(_pattern_ir.NodePattern, "pattern_node")
    node = SObj(ir.Node, "node")
    prior = ["unmatched", "same node", "another node"][ctx.choose(3, "pattern node already matched to")]
    other = SObj(ir.Node, "other_node")
    match = MatchStub(ctx, {id(pn): node} if prior == "same node" else ({id(pn): other} if prior == "another node" else {}))
    self = _matcher_self(I, ctx, match)
    op_ok = ctx.choose(2, "operator/attributes match") == 0

    def f_matches(*a):
        raise AssertionError
    I.models[f_matches] = lambda interp, n, m: op_ok
    k_p, k_n = ctx.choose(4, "pattern inputs"), ctx.choose(4, "node inputs")
    p_in = [(None if ctx.choose(2, f"pattern input {i} is None") == 1 else Tok(f"pat_in{i}")) for i in range(k_p)]
    n_in = [(None if ctx.choose(2, f"node input {i} is None") == 1 else Tok(f"val{i}")) for i in range(k_n)]
    allow = ctx.choose(2, "allow_other_inputs") == 1
    m_p, m_n = 1 + ctx.choose(2, "pattern outputs"), 1 + ctx.choose(2, "node outputs")
    p_out = [Tok(f"pat_out{i}") for i in range(m_p)]
    n_out = [Tok(f"out{i}") for i in range(m_n)]
    pn.fields.update(matches=f_matches, inputs=p_in, outputs=p_out, allow_other_inputs=allow)
    node.fields.update(inputs=n_in, outputs=n_out, op_type="Op")
    mv = []

    def m_match_value(interp, slf, pat, val):
        ok = ctx.choose(2, f"input {len(mv)} matches") == 0
        mv.append((pat, val, ok))
        if not ok:
            match.failed = True  # callee contract: a False result comes with a recorded failure
        return ok
    I.models[_matcher.SimplePatternMatcher._match_value] = m_match_value
    r = I.run_closure(I.closure_of(_matcher.SimplePatternMatcher._match_node), [self, pn, node], {})
    r = bool(r)
    ctx.check("C06.matcher.match_node.a_false_result_is_recorded_as_a_failed_match", r or match.failed,
              "C06: 'a reported match is an occurrence of the pattern' — match() returns the MatchResult, which is truthy unless a failure was "
              "recorded: a False that is not recorded turns into a reported match with missing bindings")
    if prior != "unmatched":
        ctx.check("C06.matcher.match_node.a_pattern_node_matches_one_graph_node_only", r == (prior == "same node") and not mv and not match.calls, CL)
        return
    if not op_ok:
        ctx.check("C06.matcher.match_node.fails_if_operator_or_attributes_differ", r is False and not mv, CL)
        return
    if k_n > k_p and not allow:
        ctx.check("C06.matcher.match_node.extra_node_inputs_need_allow_other_inputs", r is False, CL)
        return
    # expected sequence of input checks: every pattern position, left to right, until the first failure
    want_calls, ok_inputs = [], True
    for i in range(k_p):
        val = n_in[i] if i < k_n else None
        if p_in[i] is None:
            if val is not None:
                ok_inputs = False
                break
            continue
        want_calls.append((p_in[i], val))
        got = mv[len(want_calls) - 1] if len(want_calls) <= len(mv) else None
        if got is None or not got[2]:
            ok_inputs = False
            break
    ctx.check("C06.matcher.match_node.every_pattern_input_position_is_checked_against_the_node_input_or_None",
              [(a, b) for a, b, _ in mv] == want_calls, CL + " — an input the pattern lists must be matched even when the node has fewer inputs")
    if not ok_inputs:
        ctx.check("C06.matcher.match_node.fails_if_an_input_does_not_match", r is False, CL)
        return
    binds = [c for c in match.calls if c[0] == "bind_value"]
    want_b, ok_out = [], True
    for i in range(m_p):
        if i >= m_n:
            ok_out = False
            break
        want_b.append((p_out[i], n_out[i]))
        got = binds[len(want_b) - 1] if len(want_b) <= len(binds) else None
        if got is None or not got[3]:
            ok_out = False
            break
    ctx.check("C06.matcher.match_node.pattern_outputs_bound_to_the_outputs_at_the_same_index", [(c[1], c[2]) for c in binds] == want_b, CL_BIND)
    ctx.check("C06.matcher.match_node.result_is_the_conjunction_of_all_parts", r == ok_out, CL)
    ctx.check("C06.matcher.match_node.node_recorded_as_matched", ("bind_node", pn, node) in match.calls, CL_BIND)


def s_match_value(ctx):
    """_match_value dispatch on the kind of value pattern."""
    import onnx_ir as ir
    from onnxscript.rewriter import _matcher, _pattern_ir
    I = Interp(ctx)
    match = MatchStub(ctx)
    graph, other_graph = SObj(ir.Graph, "graph"), SObj(ir.Graph, "other_graph")
    graph.fields["name"] = "g"
    self = _matcher_self(I, ctx, match, graph)
    kind = ["AnyValue", "Var", "NodeOutputPattern", "Constant", "BacktrackingOr", "OpIdDispatchOr"][ctx.choose(6, "pattern kind")]
    vkind = ["None", "same graph", "other graph"][ctx.choose(3, "value")]
    value = None
    if vkind != "None":
        value = SObj(ir.Value, "value")
        value.fields.update(graph=(graph if vkind == "same graph" else other_graph), name="v")
    P = _pattern_ir
    sub = []

    def rec(tag):
        def m(interp, slf, *a):
            ok = ctx.choose(2, f"{tag} #{len(sub)} succeeds") == 0
            sub.append((tag, a, ok))
            if not ok:
                match.failed = True  # callee contract
            return ok
        return m
    I.models[_matcher.SimplePatternMatcher._match_node_output] = rec("node_output")
    I.models[_matcher.SimplePatternMatcher._match_constant] = rec("constant")
    alts = [Tok("alt0"), Tok("alt1")]
    if kind == "AnyValue":
        pv = SObj(P.AnyValue, "any")
    elif kind == "Var":
        pv = SObj(P.Var, "var")
        pv.fields["can_match_none"] = ctx.choose(2, "variable can match None") == 1
    elif kind == "NodeOutputPattern":
        pv = SObj(P.NodeOutputPattern, "nodeoutput")
    elif kind == "Constant":
        pv = SObj(P.Constant, "const")
    elif kind == "BacktrackingOr":
        pv = SObj(P.BacktrackingOr, "or")
        pv.fields.update(_values=alts, tag_var=("tag" if ctx.choose(2, "or has a tag variable") == 1 else None), _tag_values=["t0", "t1"])
    else:
        pv = SObj(P.OpIdDispatchOr, "dispatch")
        found = ctx.choose(3, "dispatch finds")  # 0 none, 1 alt0, 2 alt1

        def gp(v):
            raise AssertionError
        I.models[gp] = lambda interp, v: (None if found == 0 else (found - 1, alts[found - 1]))
        pv.fields.update(get_pattern=gp, tag_var=("tag" if ctx.choose(2, "or has a tag variable") == 1 else None))
    # recursive calls on the alternatives are recorded (the top-level call is interpreted)
    clo = I.closure_of(_matcher.SimplePatternMatcher._match_value)
    depth = {"n": 0}

    def m_match_value(interp, slf, pat, val):
        if pat is pv and depth["n"] == 0:
            depth["n"] += 1
            return interp.run_closure(clo, [slf, pat, val], {})
        ok = ctx.choose(2, f"alternative #{len(sub)} matches") == 0
        sub.append(("alt", (pat, val), ok))
        if not ok:
            match.failed = True  # callee contract
        return ok
    I.models[_matcher.SimplePatternMatcher._match_value] = m_match_value
    r = bool(I.call(I.getattr(self, "_match_value"), [pv, value]))
    ctx.check("C06.matcher.match_value.a_false_result_is_recorded_as_a_failed_match", r or match.failed, "C06: 'a reported match is an occurrence of the pattern' — match() returns the MatchResult, which is truthy unless a failure was recorded")
    binds = [c for c in match.calls if c[0] == "bind_value"]
    cross = vkind == "other graph" and kind not in ("AnyValue", "Var", "Constant")
    if cross:
        ctx.check("C06.matcher.match_value.no_match_across_graph_boundaries_except_for_variables_and_constants", r is False and not binds and not sub, CL)
        return
    if kind == "AnyValue":
        ctx.check("C06.matcher.match_value.any_value_matches_everything_and_binds_nothing", r is True and not match.calls, CL)
        return
    ok_bind = len(binds) == 1 and binds[0][1] is pv and binds[0][2] is value
    ctx.check("C06.matcher.match_value.the_value_is_bound_to_the_pattern_value_first", ok_bind, CL_BIND)
    if not ok_bind:
        return
    if not binds[0][3]:
        ctx.check("C06.matcher.match_value.fails_if_the_binding_conflicts", r is False and not sub, CL_BIND)
        return
    if kind == "Var":
        ctx.check("C06.matcher.match_value.variable_matches_None_only_if_it_may", r == (value is not None or pv.fields["can_match_none"]), CL)
    elif kind in ("NodeOutputPattern", "Constant"):
        tag = "node_output" if kind == "NodeOutputPattern" else "constant"
        if value is None:
            ctx.check("C06.matcher.match_value.computed_or_constant_pattern_never_matches_a_missing_input", r is False and not sub, CL)
        else:
            ctx.check("C06.matcher.match_value.delegates_to_the_matching_routine_of_the_pattern_kind",
                      len(sub) == 1 and sub[0][0] == tag and sub[0][1] == (pv, value) and r == sub[0][2], CL)
    elif kind == "BacktrackingOr":
        tried = [s_ for s_ in sub if s_[0] == "alt"]
        first_ok = next((i for i, s_ in enumerate(tried) if s_[2]), None)
        ctx.check("C06.matcher.match_value.or_tries_the_alternatives_in_order_until_one_matches",
                  [s_[1] for s_ in tried] == [(a, value) for a in (alts if first_ok is None else alts[:first_ok + 1])] and r == (first_ok is not None), CL)
        ev = [c[0] for c in match.calls if c[0] in ("enter", "merge", "abandon")]
        want_ev = []
        for i in range(len(tried)):
            want_ev += ["enter", "merge" if tried[i][2] else "abandon"]
        ctx.check("C06.matcher.match_value.or_every_failed_alternative_is_abandoned_and_the_successful_one_merged", ev == want_ev, CL_BIND)
        tags = [c for c in match.calls if c[0] == "bind"]
        want_tags = [("bind", "tag", ["t0", "t1"][first_ok])] if (first_ok is not None and pv.fields["tag_var"]) else []
        ctx.check("C06.matcher.match_value.or_tag_names_the_alternative_that_matched", tags == want_tags, CL_BIND)
    else:
        if value is None or found == 0:
            ctx.check("C06.matcher.match_value.dispatch_or_fails_without_an_alternative_for_the_producer", r is False and not sub, CL)
        else:
            ctx.check("C06.matcher.match_value.dispatch_or_matches_the_selected_alternative", len(sub) == 1 and sub[0][1] == (alts[found - 1], value) and r == sub[0][2], CL)
            tags = [c for c in match.calls if c[0] == "bind"]
            ctx.check("C06.matcher.match_value.dispatch_or_tag_is_the_index_of_the_alternative",
                      tags == ([("bind", "tag", found - 1)] if (r and pv.fields["tag_var"]) else []), CL_BIND)


def s_match_node_output(ctx):
    import onnx_ir as ir
    from onnxscript.rewriter import _matcher, _pattern_ir
    I = Interp(ctx)
    match = MatchStub(ctx)
    self = _matcher_self(I, ctx, match)
    pv = SObj(_pattern_ir.NodeOutputPattern, "nodeoutput")
    ppn = Tok("producer_pattern")
    want_idx = ctx.choose(2, "pattern output index")

    def f_prod_p():
        raise AssertionError
    I.models[f_prod_p] = lambda interp: ppn
    pv.fields.update(producer=f_prod_p, output_index=want_idx, _output_index=want_idx)
    value = SObj(ir.Value, "value")
    has_prod = ctx.choose(2, "value has a producer") == 0
    idx = ctx.choose(2, "value index")
    node = Tok("node")

    def f_prod():
        raise AssertionError

    def f_idx():
        raise AssertionError
    I.models[f_prod] = lambda interp: node if has_prod else None
    I.models[f_idx] = lambda interp: idx
    value.fields.update(producer=f_prod, index=f_idx)
    calls = []

    def m_match_node(interp, slf, p, n):
        ok = ctx.choose(2, "producer node matches") == 0
        calls.append((p, n, ok))
        if not ok:
            match.failed = True  # callee contract
        return ok
    I.models[_matcher.SimplePatternMatcher._match_node] = m_match_node
    r = bool(I.run_closure(I.closure_of(_matcher.SimplePatternMatcher._match_node_output), [self, pv, value], {}))
    ctx.check("C06.matcher.match_node_output.a_false_result_is_recorded_as_a_failed_match", r or match.failed, "C06: 'a reported match is an occurrence of the pattern' — match() returns the MatchResult, which is truthy unless a failure was recorded")
    if not has_prod or idx != want_idx:
        ctx.check("C06.matcher.match_node_output.needs_a_producer_and_the_same_output_index", r is False and not calls, CL)
    else:
        ctx.check("C06.matcher.match_node_output.matches_iff_the_producer_matches_the_producer_pattern", calls[:1] == [(ppn, node, r)] and len(calls) == 1, CL)


def s_match_outer(ctx, multi):
    """_match_single_output_node / _multi_match: success iff every output node matches, every output value is bound and
    (when nodes are to be removed) the match is removable; the outputs of the result are exactly the bound output values."""
    import onnx_ir as ir
    from onnxscript.rewriter import _matcher
    I = Interp(ctx)
    match = MatchStub(ctx)
    self = _matcher_self(I, ctx, match)
    pat = SObj(object, "pattern")
    k = 2 if multi else 1
    pnodes = [Tok(f"pnode{i}") for i in range(k)]
    nodes = [Tok(f"node{i}") for i in range(k)]
    pat.fields.update(has_single_output_node=not multi, output_node=pnodes[0], output_nodes=pnodes)
    self.fields["pattern"] = pat
    calls = []

    def m_match_node(interp, slf, p, n):
        ok = ctx.choose(2, f"output node {len(calls)} matches") == 0
        calls.append((p, n, ok))
        if not ok:
            match.failed = True   # callee contract: a failed sub-match leaves the match state failed (self.fail)
        return ok
    I.models[_matcher.SimplePatternMatcher._match_node] = m_match_node
    outs_found = ctx.choose(2, "every output value is bound") == 0
    outs = [Tok("outval0"), Tok("outval1")]

    def m_outputs(interp, slf):
        if not outs_found:
            match.failed = True   # callee contract: unbound outputs fail the match
            return None
        return list(outs)
    I.models[_matcher.SimplePatternMatcher._get_output_values] = m_outputs
    removable = ctx.choose(2, "removable") == 0
    vcalls = []
    I.models[_matcher._valid_to_replace] = lambda interp, ns, ov: (vcalls.append((ns, list(ov))) or removable)
    check_removable = ctx.choose(2, "check_removable") == 0
    if multi:
        r = I.run_closure(I.closure_of(_matcher.SimplePatternMatcher._multi_match), [self, list(nodes)], {"check_removable": check_removable})
    else:
        r = I.run_closure(I.closure_of(_matcher.SimplePatternMatcher._match_single_output_node), [self, Tok("model"), Tok("graph"), nodes[0]],
                          {"check_removable": check_removable})
    tag = "multi_match" if multi else "single_output"
    want_calls, all_ok = [], True
    for i in range(k):
        want_calls.append((pnodes[i], nodes[i]))
        if not (len(calls) > i and calls[i][2]):
            all_ok = False
            break
    ctx.check(f"C06.matcher.{tag}.every_output_node_pattern_is_matched_against_its_candidate", [(a, b) for a, b, _ in calls] == want_calls, CL)
    success = all_ok and outs_found and (not check_removable or removable)
    ctx.check(f"C06.matcher.{tag}.succeeds_iff_nodes_match_outputs_are_bound_and_the_match_is_removable", r is match and bool(match) == success and
              (not (all_ok and outs_found and check_removable) or vcalls == [(match.nodes, outs)]), CL + " / " + CL_REPL)
    ctx.check(f"C06.matcher.{tag}.result_outputs_are_the_bound_output_values", match.outputs == (outs if success else []), CL_BIND)


def s_match_entry(ctx):
    """SimplePatternMatcher.match for multi-output patterns: the first output node is the given node, the candidates of
    the others are the nodes with the pattern node's operator (all nodes if unknown); EVERY combination is tried on a
    fresh match state until one succeeds."""
    import onnx_ir as ir
    from onnxscript.rewriter import _matcher, _basics
    from .c10_version import GraphLike
    I = Interp(ctx)
    self = SObj(_matcher.SimplePatternMatcher, "matcher")
    pat = SObj(object, "pattern")
    single = ctx.choose(2, "pattern has a single output node") == 0
    p0, p1 = SObj(object, "pnode0"), SObj(object, "pnode1")
    id_known = ctx.choose(2, "second output node has a known operator") == 0

    def f_opid():
        raise AssertionError
    I.models[f_opid] = lambda interp: (("", "Abs", "") if id_known else None)
    p1.fields["op_identifier"] = f_opid
    pat.fields.update(has_single_output_node=single, output_nodes=[p0, p1])
    self.fields["pattern"] = pat
    # host graph: three nodes; which of them are Abs is arbitrary
    gnodes = []
    for i in range(3):
        n = SObj(ir.Node, f"n{i}")
        is_abs = ctx.choose(2, f"n{i} is Abs") == 0

        def f_id():
            raise AssertionError
        I.models[f_id] = (lambda a: lambda interp: ("", "Abs" if a else "Neg", ""))(is_abs)
        n.fields.update(op_identifier=f_id, is_abs=is_abs)
        gnodes.append(n)
    as_function = ctx.choose(2, "container is a function") == 1
    inner = SObj(ir.Graph, "function_graph")
    container = GraphLike(list(gnodes), {})
    orig_isinstance = I.models[isinstance]

    def m_isinstance(interp, v, cls):
        if v is container:
            return (cls is ir.Graph) != as_function if cls in (ir.Graph, ir.Function) else False
        return orig_isinstance(interp, v, cls)
    I.models[isinstance] = m_isinstance
    container.graph = inner
    events = []
    states = []

    def m_init(interp, slf, verbose):
        st = Tok(f"state{len(states)}")
        st.dirty = False
        states.append(st)
        slf.fields["_match"] = st
        events.append(("init",))
    I.models[_matcher.SimplePatternMatcher._init_match] = m_init

    class R:
        def __init__(self, ok):
            self.ok = ok

        def __bool__(self):
            return self.ok
    R.__bool__._pyvc_native = True

    def m_multi(interp, slf, combination, check_removable=None):
        st = slf.fields.get("_match")
        fresh = st is not None and not st.dirty
        if st is not None:
            st.dirty = True
        ok = ctx.choose(2, f"combination #{len([e for e in events if e[0] == 'multi'])} matches") == 0
        res = R(ok)
        events.append(("multi", tuple(combination), check_removable, fresh, res))
        return res

    def m_single(interp, slf, model, g, node, check_removable=None):
        st = slf.fields.get("_match")
        res = R(True)
        events.append(("single", node, check_removable, st is not None and not st.dirty, res))
        return res
    I.models[_matcher.SimplePatternMatcher._multi_match] = m_multi
    I.models[_matcher.SimplePatternMatcher._match_single_output_node] = m_single
    I.models[_basics.MatchResult] = lambda interp: MatchStub(ctx)
    remove_nodes = ctx.choose(2, "remove_nodes") == 0
    r = I.run_closure(I.closure_of(_matcher.SimplePatternMatcher.match), [self, Tok("model"), container, gnodes[0]], {"remove_nodes": remove_nodes})
    ctx.check("C06.matcher.match.cross_graph_checks_use_the_graph_of_the_container", self.fields.get("_graph") is (inner if as_function else container), CL)
    if single:
        ev = [e for e in events if e[0] == "single"]
        ctx.check("C06.matcher.match.single_output_pattern_matched_at_the_given_node_on_a_fresh_state",
                  len(ev) == 1 and ev[0][1] is gnodes[0] and ev[0][2] == remove_nodes and ev[0][3] and r is ev[0][4], CL)
        return
    cands = [n for n in gnodes if n.fields["is_abs"]] if id_known else list(gnodes)
    want = [(gnodes[0], c) for c in cands]
    tried = [e for e in events if e[0] == "multi"]
    first_ok = next((i for i, e in enumerate(tried) if e[4].ok), None)
    want_tried = want if first_ok is None else want[:first_ok + 1]
    ctx.check("C06.matcher.match.every_candidate_combination_is_tried_until_one_matches", [e[1] for e in tried] == want_tried and
              all(e[2] == remove_nodes for e in tried), CL + " — the instance may be any combination, not only the first")
    ctx.check("C06.matcher.match.each_combination_starts_from_a_fresh_match_state", all(e[3] for e in tried),
              CL_BIND + " — bindings left by a failed combination must not leak into the next one")
    if first_ok is not None:
        ctx.check("C06.matcher.match.returns_the_first_successful_combination", r is tried[first_ok][4], CL)
    else:
        ctx.check("C06.matcher.match.reports_failure_when_no_combination_matches", not bool(r), CL)


SCENARIOS += [
    Scenario("C06.matcher.match_node", s_match_node, [(MREL, "SimplePatternMatcher._match_node")], kind="bounded",
             bound="<= 3 pattern inputs, <= 3 node inputs (each possibly None), 1-2 outputs; callee results arbitrary", max_paths=200000),
    Scenario("C06.matcher.match_value", s_match_value, [(MREL, "SimplePatternMatcher._match_value")], kind="bounded",
             bound="Or patterns with 2 alternatives; callee results arbitrary"),
    Scenario("C06.matcher.match_node_output", s_match_node_output, [(MREL, "SimplePatternMatcher._match_node_output")]),
    Scenario("C06.matcher.single_output", lambda ctx: s_match_outer(ctx, False), [(MREL, "SimplePatternMatcher._match_single_output_node")]),
    Scenario("C06.matcher.multi_match", lambda ctx: s_match_outer(ctx, True), [(MREL, "SimplePatternMatcher._multi_match")], kind="bounded",
             bound="2 output nodes"),
    Scenario("C06.matcher.match", s_match_entry, [(MREL, "SimplePatternMatcher.match"), (MREL, "SimplePatternMatcher.match.get_nodes")], kind="bounded",
             bound="host graph of 3 nodes, pattern with 2 output nodes"),
]


def s_clone_or(ctx):
    """clone() of Or patterns (commute() clones the whole pattern): the copy has the same name, tag variable and tag
    values, its alternatives are the clones in the same order, and cloning NEVER raises — with or without a tag."""
    from onnxscript.rewriter import _pattern_ir as P
    I = Interp(ctx)
    a, b = Tok("alt_a"), Tok("alt_b")
    a2, b2 = Tok("clone_a"), Tok("clone_b")
    for t, t2 in ((a, a2), (b, b2)):
        def cl(m, t2=t2):
            return t2
        cl._pyvc_native = True
        t.clone = cl
    tagged = ctx.choose(2, "or has a tag variable") == 1
    custom_tags = tagged and ctx.choose(2, "explicit tag values") == 1
    named = ctx.choose(2, "or has a name") == 1
    kind = ctx.choose(2, "BacktrackingOr / OpIdDispatchOr")
    nm = "orname" if named else None
    tv = "tag" if tagged else None
    if kind == 0:
        orp = I.instantiate(P.BacktrackingOr, [[a, b], nm, tv, (["x", "y"] if custom_tags else None)], {})
    else:
        orp = I.instantiate(P.OpIdDispatchOr, [{("", "Add", ""): ("x", a), ("", "Mul", ""): ("y", b)}, nm, tv], {})
    try:
        c = I.call(I.getattr(orp, "clone"), [{}])
    except PyRaise as e:
        ctx.check("C06.pattern_ir.clone.or_pattern_never_raises", False,
                  "C06: 'with commute=True the matches are exactly those of the pattern under swaps' — a rule whose pattern contains an OrValue must be commutable")
        return
    ctx.check("C06.pattern_ir.clone.or_pattern_never_raises", True, CL)
    f, g = fields(orp), fields(c)
    if kind == 0:
        ok = list(g["_values"]) == [a2, b2] and g["_tag_var"] == f["_tag_var"] and list(g["_tag_values"]) == list(f["_tag_values"]) and g["_name"] == f["_name"]
    else:
        m = g["_op_to_pattern"]
        ok = set(m) == {("", "Add", ""), ("", "Mul", "")} and m[("", "Add", "")] == ("x", a2) and m[("", "Mul", "")] == ("y", b2) \
            and g["_tag_var"] == f["_tag_var"] and g["_name"] == f["_name"]
    ctx.check("C06.pattern_ir.clone.or_pattern_copy_has_the_same_name_tags_and_cloned_alternatives", ok, CL)


SCENARIOS.append(Scenario("C06.pattern_ir.clone_or", s_clone_or, [(PREL, "BacktrackingOr.clone"), (PREL, "BacktrackingOr.__init__"),
                                                                  (PREL, "OpIdDispatchOr.clone"), (PREL, "OpIdDispatchOr.__init__")]))


def s_or_value_factory(ctx):
    """OrValue(values, name, tag_var, tag_values): the deterministic dispatch form is chosen only when EVERY alternative is
    the output of a node pattern and the operator identifiers are known and pairwise distinct (then one look-up decides the
    alternative); otherwise the backtracking form over the same alternatives in the same order.  Tags: tag_values[i] for
    alternative i, default 0..n-1; tag values without a tag variable, or of the wrong length, are rejected."""
    from onnxscript.rewriter import _pattern_ir as P
    I = Interp(ctx)
    n = 2 + ctx.choose(2, "three alternatives")
    ids = [("", "Add", ""), ("", "Mul", ""), ("", "Add", ""), None]
    alts, kinds = [], []
    for i in range(n):
        k = ["node output", "node output, same operator as the first", "node output, operator unknown", "plain variable"][ctx.choose(4, f"alternative {i}")]
        kinds.append(k)
        if k == "plain variable":
            alts.append(SObj(P.Var, f"var{i}"))
            continue
        a = SObj(P.NodeOutputPattern, f"alt{i}")
        prod = SObj(P.NodePattern, f"producer{i}")
        ident = None if k == "node output, operator unknown" else (("", "Add", "") if (k.endswith("as the first") or i == 0) else ("", f"Op{i}", ""))

        def f_id():
            raise AssertionError

        def f_prod():
            raise AssertionError
        I.models[f_id] = (lambda v: lambda interp: v)(ident)
        I.models[f_prod] = (lambda v: lambda interp: v)(prod)
        prod.fields["op_identifier"] = f_id
        a.fields["producer"] = f_prod
        a.ident = ident
        alts.append(a)
    tagged = ctx.choose(2, "tag variable given") == 1
    tags_kind = ["none", "right length", "wrong length"][ctx.choose(3, "tag values")]
    tag_values = None if tags_kind == "none" else [f"t{i}" for i in range(n if tags_kind == "right length" else n + 1)]
    made = []
    I.models[P.OpIdDispatchOr] = lambda interp, mapping, name=None, tag_var=None: (made.append(("dispatch", dict(mapping), name, tag_var)) or ("dispatch", len(made)))
    I.models[P.BacktrackingOr] = lambda interp, values, name=None, tag_var=None, tag_values=None: (made.append(("backtrack", list(values), name, tag_var, tag_values)) or ("backtrack", len(made)))
    try:
        r = I.run_closure(I.closure_of(P.OrValue), [list(alts), "orname", ("tag" if tagged else None), tag_values], {})
    except PyRaise as e:
        ctx.check("C06.pattern_ir.or_value.rejects_only_tag_values_without_a_variable_or_of_the_wrong_length",
                  isinstance(e.exc, ValueError) and tag_values is not None and (not tagged or tags_kind == "wrong length"), CL)
        return
    ctx.check("C06.pattern_ir.or_value.inconsistent_tags_are_rejected", tag_values is None or (tagged and tags_kind == "right length"), CL)
    idents = [getattr(a, "ident", None) for a in alts]
    all_nodes = all(k != "plain variable" for k in kinds)
    dispatchable = all_nodes and all(i is not None for i in idents) and len(set(idents)) == len(idents)
    eff_tags = tag_values if tag_values is not None else list(range(n))
    ok = len(made) == 1
    ctx.check("C06.pattern_ir.or_value.builds_exactly_one_or_pattern", ok, CL)
    if not ok:
        return
    m = made[0]
    if dispatchable:
        ctx.check("C06.pattern_ir.or_value.dispatch_form_maps_each_operator_to_its_alternative_and_tag",
                  m[0] == "dispatch" and m[1] == {idents[i]: (eff_tags[i], alts[i]) for i in range(n)} and m[2] == "orname" and m[3] == ("tag" if tagged else None), CL)
    else:
        ctx.check("C06.pattern_ir.or_value.backtracking_form_unless_every_alternative_has_its_own_known_operator",
                  m[0] == "backtrack" and m[1] == alts and m[2] == "orname" and m[3] == ("tag" if tagged else None) and
                  (list(m[4]) == list(eff_tags) if tagged else m[4] is None),
                  CL + " — two alternatives with the same operator (or a plain variable) cannot be told apart by one look-up")


SCENARIOS.append(Scenario("C06.pattern_ir.or_value", s_or_value_factory, [(PREL, "OrValue"), (PREL, "OrValue.make_op_id_or_pattern")], kind="bounded",
                          bound="2-3 alternatives (node outputs with own / shared / unknown operator, plain variables)"))


# ------------------------------------------------------------------ _valid_to_replace for ANY match size (deductive) ---

def s_valid_to_replace_anysize(ctx):
    """_valid_to_replace for any number of matched nodes, outputs per node and uses per value (three nested loops, each with an inductive
    invariant stated for one arbitrary (Skolem) triple node i0 / output j0 / use u0):
      True  => the value (i0, j0), unless it is a pattern output, is no graph output and its use u0 is by a matched node;
      False => some value that is not a pattern output is a graph output or has a consumer outside the match (the witness is the
               iteration at which the real code returns)."""
    import onnx_ir as ir
    from onnxscript.rewriter import _matcher
    from pyvc.interp import LoopSpec
    from pyvc.values import SSeq, Obj
    I = Interp(ctx)
    I_ = z3.IntSort()
    M = ctx.int("matched_nodes")
    ctx.assume(M >= 0)
    nout = z3.Function("n_outputs", I_, I_)
    nuses = z3.Function("n_uses", I_, I_, I_)
    isout = z3.Function("is_pattern_output", I_, I_, z3.BoolSort())
    go = z3.Function("is_graph_output", I_, I_, z3.BoolSort())
    inside = z3.Function("consumer_is_matched", I_, I_, I_, z3.BoolSort())
    i0, j0, u0 = ctx.int("i0"), ctx.int("j0"), ctx.int("u0")
    ctx.assume(z3.And(i0 >= 0, i0 < M, j0 >= 0, j0 < nout(i0), u0 >= 0, u0 < nuses(i0, j0)))
    ctx.witness.update(M=M, i0=i0, j0=j0, u0=u0)

    class Matched:
        """the matched-node sequence as the code uses it: iteration (a sequence of symbolic length) and `consumer in matched_nodes`"""
    nodes_seq = None

    def consumer(i, j, u):
        c = SObj(ir.Node, "consumer")
        c.is_matched = inside(i, j, u)
        return c

    def value(i, j):
        v = SObj(ir.Value, "value")
        v.ij = (i, j)

        def igo():
            raise AssertionError

        def uses():
            raise AssertionError
        I.models[igo] = lambda interp, i=i, j=j: SBool(go(i, j))
        I.models[uses] = lambda interp, i=i, j=j: SSeq(z3.If(nuses(i, j) > 0, nuses(i, j), 0), lambda u: (consumer(i, j, z3.simplify(u)), 0), name="uses")
        v.fields.update(is_graph_output=igo, uses=uses)
        return v

    def node(i):
        n = SObj(ir.Node, "matched")
        n.fields["outputs"] = SSeq(z3.If(nout(i) > 0, nout(i), 0), lambda j: value(i, z3.simplify(j)), name="outputs")
        n.i = i
        return n

    class Seq(SSeq):
        pass
    matched = Seq(M, lambda i: node(z3.simplify(i)), name="matched_nodes")

    class OutputValues:
        def __contains__(self, v):
            return SBool(isout(*v.ij))
    OutputValues.__contains__._pyvc_native = True
    outs = OutputValues()
    # `consumer in matched_nodes`: membership in the matched sequence is what `consumer_is_matched` denotes
    orig_contains = I.contains

    def contains(container, item):
        if container is matched and isinstance(item, SObj) and hasattr(item, "is_matched"):
            return SBool(item.is_matched)
        if container is outs:
            return SBool(isout(*item.ij))
        return orig_contains(container, item)
    I.contains = contains

    def good(i, j, u):
        return z3.Implies(z3.Not(isout(i, j)), z3.And(z3.Not(go(i, j)), inside(i, j, u)))

    def inv_nodes(interp, env, k, pre, it):
        return [("triple_checked_once_its_node_is_passed", z3.Implies(k > i0, good(i0, j0, u0)))]

    def inv_outputs(interp, env, k, pre, it):
        n = env.lookup("n")
        return [("triple_checked_once_its_output_is_passed", z3.Implies(z3.And(n.i == i0, k > j0), good(i0, j0, u0)))]

    def inv_uses(interp, env, k, pre, it):
        v = env.lookup("v")
        i, j = v.ij
        return [("use_checked_once_it_is_passed", z3.Implies(z3.And(i == i0, j == j0, k > u0), inside(i0, j0, u0)))]
    I.loops[("_valid_to_replace", 0)] = LoopSpec({}, inv_nodes)
    I.loops[("_valid_to_replace", 1)] = LoopSpec({}, inv_outputs)
    I.loops[("_valid_to_replace", 2)] = LoopSpec({}, inv_uses)
    r = I.call(_matcher._valid_to_replace, [matched, outs])
    if I.truth(r):
        ctx.cover("valid_to_replace.any_size.true")
        ctx.check("C06.matcher.valid_to_replace.any_size.true_only_if_no_intermediate_value_is_a_graph_output_or_used_outside", good(i0, j0, u0), CL_REPL)
    else:
        ctx.cover("valid_to_replace.any_size.false")
        a, b, c = z3.Ints("a b c")
        bad = z3.Exists([a, b, c], z3.And(a >= 0, a < M, b >= 0, b < nout(a), z3.Not(isout(a, b)),
                                          z3.Or(go(a, b), z3.And(c >= 0, c < nuses(a, b), z3.Not(inside(a, b, c))))))
        ctx.check("C06.matcher.valid_to_replace.any_size.false_only_with_a_witness", bad, CL_REPL)


SCENARIOS.append(Scenario("C06.matcher.valid_to_replace[any size]", s_valid_to_replace_anysize, [(MREL, "_valid_to_replace")],
                          trusted=["ir.Value.uses() / is_graph_output() (onnx_ir): the consumers of a value, whether it is an output of its graph"],
                          assumptions=["three nested loop invariants stated at one arbitrary (Skolem) triple; termination not proved"]))


# ------------------------------------------------------------------ _match_node for ANY number of inputs / outputs (deductive) ---

def s_match_node_anyarity(ctx):
    """_match_node for node patterns and nodes with ANY number of inputs and outputs: the two loops (inputs through zip / zip_longest,
    outputs through enumerate) are verified with inductive invariants over ghost arrays that record what _match_value / bind_value
    were asked and answered, stated for one arbitrary (Skolem) input position q0 and output position o0.
      True  => arity is admissible, pattern input q0 was checked against node input q0 (None when the node has fewer inputs) and matched,
               pattern output o0 exists on the node and was bound to it, the node is recorded as matched;
      False => a failure is recorded."""
    import onnx_ir as ir
    from onnxscript.rewriter import _matcher, _pattern_ir
    from pyvc.interp import LoopSpec
    from pyvc.values import SSeq
    I = Interp(ctx)
    I_, B_ = z3.IntSort(), z3.BoolSort()
    kp, kn, mp, mn = ctx.int("pattern_inputs"), ctx.int("node_inputs"), ctx.int("pattern_outputs"), ctx.int("node_outputs")
    ctx.assume(z3.And(kp >= 0, kn >= 0, mp >= 1, mn >= 1))
    q0, o0 = ctx.int("q0"), ctx.int("o0")
    ctx.assume(z3.And(q0 >= 0, q0 < kp, o0 >= 0, o0 < mp))
    ctx.witness.update(pattern_inputs=kp, node_inputs=kn, pattern_outputs=mp, node_outputs=mn, q0=q0, o0=o0)
    pnone = z3.Function("pattern_input_is_None", I_, B_)
    vnone = z3.Function("node_input_is_None", I_, B_)
    mv_ok = z3.Function("match_value_answer", I_, B_)
    bv_ok = z3.Function("bind_value_answer", I_, B_)
    G = {"failed": z3.BoolVal(False), "checked": z3.K(I_, z3.BoolVal(False)), "bound": z3.K(I_, z3.BoolVal(False)), "misuse": []}

    class Item:
        def __init__(self, kind, idx):
            self.kind, self.idx = kind, idx

    def mk(kind, none_fn):
        cache = {}

        def get(i):
            i = z3.simplify(i)
            if none_fn is not None and ctx.branch(none_fn(i)):
                return None
            if i.get_id() not in cache:
                cache[i.get_id()] = Item(kind, i)
            return cache[i.get_id()]
        return get
    p_in = SSeq(kp, mk("pattern_input", pnone), name="pattern.inputs")
    n_in = SSeq(kn, mk("node_input", vnone), name="node.inputs")
    p_out = SSeq(mp, mk("pattern_output", None), name="pattern.outputs")
    n_out = SSeq(mn, mk("node_output", None), name="node.outputs")

    class SymMatch:
        reason = "reason"

        def lookup_node(self, pattern_node):
            return None

        def bind_node(self, pattern_node, node):
            G["bind_node"] = (pattern_node, node)

        def bind_value(self, pattern_value, value):
            i = pattern_value.idx
            if not (isinstance(value, Item) and value.kind == "node_output" and ctx.branch(value.idx == i)):
                G["misuse"].append(("bind_value", pattern_value, value))
            G["bound"] = z3.Store(G["bound"], i, bv_ok(i))
            G["failed"] = z3.Or(G["failed"], z3.Not(bv_ok(i)))
            return SBool(bv_ok(i))

        def fail(self, *a, **k):
            G["failed"] = z3.BoolVal(True)
            return self
    for _n in ("lookup_node", "bind_node", "bind_value", "fail"):
        getattr(SymMatch, _n)._pyvc_native = True
    match = SymMatch()
    self = _matcher_self(I, ctx, match)
    pn = SObj(_pattern_ir.NodePattern, "pattern_node")
    node = SObj(ir.Node, "node")
    op_ok = ctx.choose(2, "operator/attributes match") == 0
    allow = ctx.choose(2, "allow_other_inputs") == 1

    def f_matches(*a):
        raise AssertionError
    I.models[f_matches] = lambda interp, n, m: op_ok
    pn.fields.update(matches=f_matches, inputs=p_in, outputs=p_out, allow_other_inputs=allow)
    node.fields.update(inputs=n_in, outputs=n_out, op_type="Op")

    def node_input_none(i):
        """what position i of the node holds for the matcher: None beyond the node's inputs"""
        return z3.Or(i >= kn, vnone(i))

    def m_match_value(interp, slf, pat, val):
        i = pat.idx
        # the pattern input must be checked against the node input AT THE SAME POSITION (None when the node has fewer inputs)
        right = (val is None and True) or (isinstance(val, Item) and val.kind == "node_input" and ctx.branch(val.idx == i))
        if val is None:
            right = ctx.branch(node_input_none(i))
        if not right:
            G["misuse"].append(("match_value", pat, val))
        G["checked"] = z3.Store(G["checked"], i, mv_ok(i))
        G["failed"] = z3.Or(G["failed"], z3.Not(mv_ok(i)))   # callee contract: a False result comes with a recorded failure
        return SBool(mv_ok(i))
    I.models[_matcher.SimplePatternMatcher._match_value] = m_match_value

    def input_ok(q):
        return z3.If(pnone(q), node_input_none(q), z3.Select(G["checked"], q))

    def havoc_inputs(interp, env):
        G["failed"] = ctx.bool("failed")
        G["checked"] = z3.Const(ctx.fresh("checked"), z3.ArraySort(I_, B_))

    def inv_inputs(interp, env, k, pre, it):
        return [("no_failure_so_far", z3.Not(G["failed"])), ("callees_used_position_by_position", z3.BoolVal(not G["misuse"])),
                ("input_q0_was_checked_and_matched_once_passed", z3.Implies(k > q0, input_ok(q0)))]

    def havoc_outputs(interp, env):
        G["failed"] = ctx.bool("failed")
        G["bound"] = z3.Const(ctx.fresh("bound"), z3.ArraySort(I_, B_))

    def inv_outputs(interp, env, k, pre, it):
        return [("no_failure_so_far", z3.Not(G["failed"])), ("callees_used_position_by_position", z3.BoolVal(not G["misuse"])),
                ("output_o0_exists_and_was_bound_once_passed", z3.Implies(k > o0, z3.And(o0 < mn, z3.Select(G["bound"], o0)))),
                ("inputs_stay_checked", input_ok(q0))]
    I.loops[("SimplePatternMatcher._match_node", 0)] = LoopSpec({}, inv_inputs, heap_havoc=havoc_inputs)
    I.loops[("SimplePatternMatcher._match_node", 1)] = LoopSpec({}, inv_outputs, heap_havoc=havoc_outputs)
    r = I.truth(I.call(_matcher.SimplePatternMatcher._match_node, [self, pn, node]))
    TAG = "C06.matcher.match_node.any_arity."
    ctx.check(TAG + "callees_are_asked_position_by_position", not G["misuse"], CL + " — pattern input i against node input i (None beyond the node's inputs), pattern output i against node output i")
    if not r:
        ctx.cover("match_node.any_arity.false")
        ctx.check(TAG + "a_false_result_is_recorded_as_a_failed_match", G["failed"],
                  "C06: 'a reported match is an occurrence of the pattern' — a False that is not recorded turns into a reported match with missing bindings")
        return
    ctx.cover("match_node.any_arity.true")
    ctx.check(TAG + "true_only_if_operator_and_attributes_match", op_ok, CL)
    ctx.check(TAG + "true_only_without_extra_node_inputs_unless_allowed", z3.Or(kn <= kp, z3.BoolVal(allow)), CL)
    ctx.check(TAG + "true_only_if_every_pattern_input_matched_the_node_input_or_None_at_its_position", input_ok(q0),
              CL + " — an input the pattern lists must be matched even when the node has fewer inputs")
    ctx.check(TAG + "true_only_if_every_pattern_output_was_bound_to_the_node_output_at_its_index", z3.And(o0 < mn, z3.Select(G["bound"], o0)), CL_BIND)
    ctx.check(TAG + "node_recorded_as_matched", G.get("bind_node") is not None and G["bind_node"][0] is pn and G["bind_node"][1] is node, CL_BIND)
    ctx.check(TAG + "true_only_without_a_recorded_failure", z3.Not(G["failed"]), CL)


SCENARIOS.append(Scenario("C06.matcher.match_node[any arity]", s_match_node_anyarity, [(MREL, "SimplePatternMatcher._match_node")],
                          trusted=["_match_value and MatchResult.bind_value: a False result comes with a recorded failure (their own contracts: C06.matcher.match_value, C06.basics.bind)"],
                          assumptions=["loop invariants over ghost arrays, stated at one arbitrary (Skolem) input position and output position; termination not proved"]))
