"""C05 contracts for rules/common/_fuse_pad_into_conv.py: NormalizePadFormatConv (auto_pad -> explicit pads).

Theory (ONNX Conv-11 operator documentation), per spatial axis with input extent x, kernel k, stride s, dilation d:
  effective kernel  ke = (k - 1) * d + 1
  auto_pad SAME_UPPER / SAME_LOWER:  out = ceil(x / s);  total = max(0, (out - 1) * s + ke - x);
        SAME_UPPER: begin = total // 2, end = total - begin;   SAME_LOWER: end = total // 2, begin = total - end
  auto_pad VALID: begin = end = 0
  explicit pads: the list [begin_1 .. begin_n, end_1 .. end_n]
A missing strides / dilations attribute stands for 1 per axis; a missing kernel_shape for the spatial dims of W.
"""
from __future__ import annotations

import z3

from pyvc.harness import Scenario
from pyvc.interp import Interp, PyRaise
from pyvc.values import SObj, SInt, term
from .irmodel import World, OpRecorder, Call

SCENARIOS = []
FILE = "onnxscript/rewriter/rules/common/_fuse_pad_into_conv.py"
CL = "C05: 'whenever the rule applies to a model, the rewritten model yields the same outputs as before for all inputs' / 'attribute left at a non-trivial default' (dilations, strides, auto_pad)"
TRUST = ["ONNX Conv operator documentation: auto_pad and dilations (module docstring)"]


def s_normalize_pad_format(ctx):
    """NormalizePadFormatConv: Conv<auto_pad=m>(x, W) -> Conv<auto_pad=NOTSET, pads=P>(x, W).
    Post: when the rule fires, P is the padding ONNX defines for mode m - for every input extent, kernel, stride and
    dilation (unbounded integers), with every other attribute of the Conv kept."""
    import onnx_ir as ir
    from onnxscript.rewriter.rules.common import _fuse_pad_into_conv as mod
    I = Interp(ctx)
    W = World(I)
    n = 1 + ctx.choose(2, "spatial rank")
    mode = ["SAME_UPPER", "SAME_LOWER", "VALID"][ctx.choose(3, "auto_pad")]
    xs, ks, ss, ds, ys = [], [], [], [], []
    for i in range(n):
        x, k, s, d, y = (ctx.int(f"{nm}{i}") for nm in ("x", "k", "s", "d", "y"))
        ctx.assume(z3.And(x >= 1, k >= 1, s >= 1, d >= 1))
        for nm, t in (("x", x), ("k", k), ("s", s), ("d", d)):
            ctx.witness[f"{nm}{i}"] = t
        xs.append(x); ks.append(k); ss.append(s); ds.append(d); ys.append(y)
    has_strides = ctx.choose(2, "strides attribute present") == 0
    has_dil = ctx.choose(2, "dilations attribute present") == 0
    has_ks = ctx.choose(2, "kernel_shape attribute present") == 0
    if not has_strides:
        ss = [z3.IntVal(1)] * n
    if not has_dil:
        ds = [z3.IntVal(1)] * n
    ke = [(k - 1) * d + 1 for k, d in zip(ks, ds)]
    for i in range(n):
        if mode == "VALID":
            # out = floor((x - ke) / s) + 1 (the original executes: x >= ke)
            ctx.assume(z3.And(xs[i] >= ke[i], (ys[i] - 1) * ss[i] <= xs[i] - ke[i], ys[i] * ss[i] > xs[i] - ke[i]))
        else:
            ctx.assume(z3.And(ys[i] * ss[i] >= xs[i], (ys[i] - 1) * ss[i] < xs[i]))   # y = ceil(x / s): a sound shape annotation
    attrs = {"auto_pad": mode}
    if has_strides:
        attrs["strides"] = [SInt(t) for t in ss]
    if has_dil:
        attrs["dilations"] = [SInt(t) for t in ds]
    if has_ks:
        attrs["kernel_shape"] = [SInt(t) for t in ks]
    if ctx.choose(2, "group attribute present") == 0:
        attrs["group"] = 1
    xv = W.value("x", dims=[1, 1] + [SInt(t) for t in xs], rt=[], dtype=ir.DataType.FLOAT)
    wv = W.value("w", dims=[1, 1] + [SInt(t) for t in ks], rt=[], dtype=ir.DataType.FLOAT)
    yv = W.value("conv", dims=[1, 1] + [SInt(t) for t in ys], rt=[], dtype=ir.DataType.FLOAT)
    node = W.node("Conv", [xv, wv], outputs=[yv], attrs=attrs)
    node.fields["name"] = "conv0"

    def f_prod():
        raise AssertionError
    I.models[f_prod] = lambda interp: node
    yv.fields["producer"] = f_prod
    made = []

    def attr_model(kind):
        def m(interp, name, value, *a, **k):
            a_ = SObj(ir.Attr, f"attr_{name}")
            a_.fields.update(name=name, value=(list(interp.iterate(value)) if kind == "ints" else value), type=kind)
            made.append(a_)
            return a_
        return m
    I.models[ir.AttrString] = attr_model("string")
    I.models[ir.AttrInt64s] = attr_model("ints")
    rule = SObj(mod.NormalizePadFormatConv, "rule")
    try:
        fired = I.truth(I.call(I.getattr(rule, "check"), [None, yv]))
    except PyRaise as e:
        ctx.check("C04.rules.NormalizePadFormatConv.check_never_raises", False, f"C04 — raised {e.exc!r}")
        return
    ctx.check("C04.rules.NormalizePadFormatConv.check_never_raises", True, "C04")
    if not fired:
        ctx.cover("NormalizePadFormatConv.check_failed")
        return
    rec = OpRecorder()
    r = I.call(I.getattr(rule, "rewrite"), [rec, yv])
    ok = isinstance(r, Call) and r.op == "op" and r.args[0] == "Conv" and list(r.args[1:]) == [xv, wv]
    ctx.check("C05.rules.NormalizePadFormatConv.replacement_is_the_same_conv_of_the_same_operands", ok, CL)
    if not ok:
        return
    kw = {k: v for k, v in r.kwargs.items() if not k.startswith("_")}

    def val(a):
        return a.fields["value"] if isinstance(a, SObj) else a
    ctx.check("C05.rules.NormalizePadFormatConv.auto_pad_becomes_NOTSET", "auto_pad" in kw and val(kw["auto_pad"]) == "NOTSET", CL)
    same_other = all(k in kw and val(kw[k]) is attrs[k] or (k in kw and val(kw[k]) == attrs[k]) for k in attrs if k not in ("auto_pad", "pads"))
    ctx.check("C05.rules.NormalizePadFormatConv.every_other_attribute_is_kept", same_other and set(kw) <= set(attrs) | {"pads"}, CL)
    # expected pads
    begins, ends = [], []
    for i in range(n):
        if mode == "VALID":
            begins.append(z3.IntVal(0)); ends.append(z3.IntVal(0))
            continue
        tot = (ys[i] - 1) * ss[i] + ke[i] - xs[i]
        tot = z3.If(tot > 0, tot, 0)
        half = tot / 2
        if mode == "SAME_UPPER":
            begins.append(half); ends.append(tot - half)
        else:
            ends.append(half); begins.append(tot - half)
    want = begins + ends
    if "pads" in kw:
        got = [term(v) for v in val(kw["pads"])]
        okl = len(got) == 2 * n
        ctx.check("C05.rules.NormalizePadFormatConv.pads_has_two_entries_per_spatial_axis", okl, CL)
        if okl:
            ctx.check("C05.rules.NormalizePadFormatConv.explicit_pads_are_the_padding_the_auto_pad_mode_defines_for_every_extent_kernel_stride_and_dilation",
                      z3.And(*[g == w for g, w in zip(got, want)]), CL)
    else:
        ctx.check("C05.rules.NormalizePadFormatConv.explicit_pads_are_the_padding_the_auto_pad_mode_defines_for_every_extent_kernel_stride_and_dilation",
                  z3.And(*[w == 0 for w in want]), CL + " — no pads attribute means no padding")


SCENARIOS.append(Scenario("C05.rules.NormalizePadFormatConv", s_normalize_pad_format,
                          [(FILE, "NormalizePadFormatConv.compute_pads"), (FILE, "_NormalizePadFormatBase.check"), (FILE, "_NormalizePadFormatBase.rewrite"), (FILE, "read_conv_attributes")],
                          trusted=TRUST, assumptions=["spatial rank <= 2 (the computation is per axis); extents, kernels, strides, dilations unbounded"], max_paths=20000))
