"""C05 contracts for rules/common/_fuse_pad_into_conv.py: NormalizePadFormatConv (auto_pad -> explicit pads).

Theory (ONNX Conv-11 operator documentation), per spatial axis with input extent x, kernel k, stride s, dilation d:
  effective kernel  ke = (k - 1) * d + 1
  auto_pad SAME_UPPER / SAME_LOWER:  out = ceil(x / s);  total = max(0, (out - 1) * s + ke - x);
        SAME_UPPER: begin = total // 2, end = total - begin;   SAME_LOWER: end = total // 2, begin = total - end
  auto_pad VALID: begin = end = 0
  explicit pads: the list [begin_1 .. begin_n, end_1 .. end_n]
A missing strides / dilations attribute stands for 1 per axis; a missing kernel_shape for the spatial dims of W.
"""
from __future__ import annotations

import z3

from pyvc.harness import Scenario
from pyvc.interp import Interp, PyRaise
from pyvc.values import SObj, SInt, term
from .irmodel import World, OpRecorder, Call

SCENARIOS = []
FILE = "onnxscript/rewriter/rules/common/_fuse_pad_into_conv.py"
CL = "C05: 'whenever the rule applies to a model, the rewritten model yields the same outputs as before for all inputs' / 'attribute left at a non-trivial default' (dilations, strides, auto_pad)"
TRUST = ["ONNX Conv operator documentation: auto_pad and dilations (module docstring)"]


def s_normalize_pad_format(ctx):
    """NormalizePadFormatConv: Conv<auto_pad=m>(x, W) -> Conv<auto_pad=NOTSET, pads=P>(x, W).
    Post: when the rule fires, P is the padding ONNX defines for mode m - for every input extent, kernel, stride and
    dilation (unbounded integers), with every other attribute of the Conv kept."""
    import onnx_ir as ir
    from onnxscript.rewriter.rules.common import _fuse_pad_into_conv as mod
    I = Interp(ctx)
    W = World(I)
    n = 1 + ctx.choose(2, "spatial rank")
    mode = ["SAME_UPPER", "SAME_LOWER", "VALID"][ctx.choose(3, "auto_pad")]
    xs, ks, ss, ds, ys = [], [], [], [], []
    for i in range(n):
        x, k, s, d, y = (ctx.int(f"{nm}{i}") for nm in ("x", "k", "s", "d", "y"))
        ctx.assume(z3.And(x >= 1, k >= 1, s >= 1, d >= 1))
        for nm, t in (("x", x), ("k", k), ("s", s), ("d", d)):
            ctx.witness[f"{nm}{i}"] = t
        xs.append(x); ks.append(k); ss.append(s); ds.append(d); ys.append(y)
    has_strides = ctx.choose(2, "strides attribute present") == 0
    has_dil = ctx.choose(2, "dilations attribute present") == 0
    has_ks = ctx.choose(2, "kernel_shape attribute present") == 0
    if not has_strides:
        ss = [z3.IntVal(1)] * n
    if not has_dil:
        ds = [z3.IntVal(1)] * n
    ke = [(k - 1) * d + 1 for k, d in zip(ks, ds)]
    for i in range(n):
        if mode == "VALID":
            # out = floor((x - ke) / s) + 1 (the original executes: x >= ke)
            ctx.assume(z3.And(xs[i] >= ke[i], (ys[i] - 1) * ss[i] <= xs[i] - ke[i], ys[i] * ss[i] > xs[i] - ke[i]))
        else:
            ctx.assume(z3.And(ys[i] * ss[i] >= xs[i], (ys[i] - 1) * ss[i] < xs[i]))   # y = ceil(x / s): a sound shape annotation
    attrs = {"auto_pad": mode}
    if has_strides:
        attrs["strides"] = [SInt(t) for t in ss]
    if has_dil:
        attrs["dilations"] = [SInt(t) for t in ds]
    if has_ks:
        attrs["kernel_shape"] = [SInt(t) for t in ks]
    if ctx.choose(2, "group attribute present") == 0:
        attrs["group"] = 1
    xv = W.value("x", dims=[1, 1] + [SInt(t) for t in xs], rt=[], dtype=ir.DataType.FLOAT)
    wv = W.value("w", dims=[1, 1] + [SInt(t) for t in ks], rt=[], dtype=ir.DataType.FLOAT)
    yv = W.value("conv", dims=[1, 1] + [SInt(t) for t in ys], rt=[], dtype=ir.DataType.FLOAT)
    node = W.node("Conv", [xv, wv], outputs=[yv], attrs=attrs)
    node.fields["name"] = "conv0"

    def f_prod():
        raise AssertionError
    I.models[f_prod] = lambda interp: node
    yv.fields["producer"] = f_prod
    made = []

    def attr_model(kind):
        def m(interp, name, value, *a, **k):
            a_ = SObj(ir.Attr, f"attr_{name}")
            a_.fields.update(name=name, value=(list(interp.iterate(value)) if kind == "ints" else value), type=kind)
            made.append(a_)
            return a_
        return m
    I.models[ir.AttrString] = attr_model("string")
    I.models[ir.AttrInt64s] = attr_model("ints")
    rule = SObj(mod.NormalizePadFormatConv, "rule")
    try:
        fired = I.truth(I.call(I.getattr(rule, "check"), [None, yv]))
    except PyRaise as e:
        ctx.check("C04.rules.NormalizePadFormatConv.check_never_raises", False, f"C04 — raised {e.exc!r}")
        return
    ctx.check("C04.rules.NormalizePadFormatConv.check_never_raises", True, "C04")
    if not fired:
        ctx.cover("NormalizePadFormatConv.check_failed")
        return
    rec = OpRecorder()
    r = I.call(I.getattr(rule, "rewrite"), [rec, yv])
    ok = isinstance(r, Call) and r.op == "op" and r.args[0] == "Conv" and list(r.args[1:]) == [xv, wv]
    ctx.check("C05.rules.NormalizePadFormatConv.replacement_is_the_same_conv_of_the_same_operands", ok, CL)
    if not ok:
        return
    kw = {k: v for k, v in r.kwargs.items() if not k.startswith("_")}

    def val(a):
        return a.fields["value"] if isinstance(a, SObj) else a
    ctx.check("C05.rules.NormalizePadFormatConv.auto_pad_becomes_NOTSET", "auto_pad" in kw and val(kw["auto_pad"]) == "NOTSET", CL)
    same_other = all(k in kw and val(kw[k]) is attrs[k] or (k in kw and val(kw[k]) == attrs[k]) for k in attrs if k not in ("auto_pad", "pads"))
    ctx.check("C05.rules.NormalizePadFormatConv.every_other_attribute_is_kept", same_other and set(kw) <= set(attrs) | {"pads"}, CL)
    # expected pads
    begins, ends = [], []
    for i in range(n):
        if mode == "VALID":
            begins.append(z3.IntVal(0)); ends.append(z3.IntVal(0))
            continue
        tot = (ys[i] - 1) * ss[i] + ke[i] - xs[i]
        tot = z3.If(tot > 0, tot, 0)
        half = tot / 2
        if mode == "SAME_UPPER":
            begins.append(half); ends.append(tot - half)
        else:
            ends.append(half); begins.append(tot - half)
    want = begins + ends
    if "pads" in kw:
        got = [term(v) for v in val(kw["pads"])]
        okl = len(got) == 2 * n
        ctx.check("C05.rules.NormalizePadFormatConv.pads_has_two_entries_per_spatial_axis", okl, CL)
        if okl:
            ctx.check("C05.rules.NormalizePadFormatConv.explicit_pads_are_the_padding_the_auto_pad_mode_defines_for_every_extent_kernel_stride_and_dilation",
                      z3.And(*[g == w for g, w in zip(got, want)]), CL)
    else:
        ctx.check("C05.rules.NormalizePadFormatConv.explicit_pads_are_the_padding_the_auto_pad_mode_defines_for_every_extent_kernel_stride_and_dilation",
                  z3.And(*[w == 0 for w in want]), CL + " — no pads attribute means no padding")


SCENARIOS.append(Scenario("C05.rules.NormalizePadFormatConv", s_normalize_pad_format,
                          [(FILE, "NormalizePadFormatConv.compute_pads"), (FILE, "_NormalizePadFormatBase.check"), (FILE, "_NormalizePadFormatBase.rewrite"), (FILE, "read_conv_attributes")],
                          trusted=TRUST, assumptions=["spatial rank <= 2 (the computation is per axis); extents, kernels, strides, dilations unbounded"], max_paths=20000))


# ------------------------------------------------------------------ Conv + scalar affine ----------------------

def s_conv_affine(ctx, which):
    """ConvAffineFusion: Conv(x, w, b) * s + o -> Conv(x, w', b');  AffineConvFusion: Conv(x * s + o, w, b; pads 0) -> Conv(x, w', b').
    The rewrite function is run from its real source on numpy OBJECT arrays whose elements are z3 reals (numpy broadcasting,
    reshape and sum are the real ones).  Post, for every weight, bias, scale, offset and every input patch: the fused weight
    has the shape of w, the fused bias the shape (M,), the other Conv attributes are kept, and the fused Conv computes the
    same value at an output position as the original expression (exact over the reals)."""
    import numpy as np
    import onnx_ir as ir
    from onnxscript.rewriter.rules.common import _fuse_conv_affine as mod
    from onnxscript.rewriter import _ir_utils
    I = Interp(ctx)
    W = World(I)
    M, C, KH, KW = 2, 2, 1, 2
    R = lambda nm: z3.Real(nm)
    w_arr = np.array([[[[R(f"w{m}{c}{i}{j}") for j in range(KW)] for i in range(KH)] for c in range(C)] for m in range(M)], dtype=object)
    b_arr = np.array([R(f"b{m}") for m in range(M)], dtype=object)
    s_rank = [0, 1, 4, 5][ctx.choose(4, "rank of the scale constant")]
    o_rank = [0, 1, 4, 5][ctx.choose(4, "rank of the offset constant")]
    s, o = R("scale"), R("offset")
    s_arr = np.array(s, dtype=object).reshape([1] * s_rank)
    o_arr = np.array(o, dtype=object).reshape([1] * o_rank)
    for nm, t in (("scale", s), ("offset", o)):
        ctx.witness[nm] = t

    def const_value(name, arr, known=True):
        v = W.value(name, dims=None, rt=[], dtype=ir.DataType.FLOAT)
        t = SObj(ir.Tensor, f"{name}_tensor")

        def f_numpy():
            raise AssertionError
        I.models[f_numpy] = lambda interp: arr
        t.fields.update(numpy=f_numpy, shape=ir.Shape(list(arr.shape)), dtype=ir.DataType.FLOAT, size=arr.size)
        v.fields.update(const_value=(t if known else None), name=name)
        return v
    known = {k: ctx.choose(2, f"{k} is a constant") == 0 for k in ("w", "b", "scale", "offset")}
    wv, bv = const_value("w", w_arr, known["w"]), const_value("b", b_arr, known["b"])
    sv, ov = const_value("scale", s_arr, known["scale"]), const_value("offset", o_arr, known["offset"])
    x = W.value("x", dims=None, rt=[], dtype=ir.DataType.FLOAT)
    I.models[_ir_utils.get_numpy_value] = lambda interp, v, *a, **k: (v.fields["const_value"].fields["numpy"] and interp.call(v.fields["const_value"].fields["numpy"], [])) if (isinstance(v, SObj) and v.fields.get("const_value") is not None) else None
    I.models[mod.get_const_value] = lambda interp, v, *a, **k: (v.fields.get("const_value") if isinstance(v, SObj) else None)
    attrs = {"group": 1, "strides": [1, 1]}
    if which == "AffineConvFusion":
        attrs["pads"] = [0, 0, 0, 0]
    conv_node = W.node("Conv", [x, wv, bv], attrs=attrs)
    conv_out = conv_node.fields["outputs"][0]

    def f_prod():
        raise AssertionError
    I.models[f_prod] = lambda interp: conv_node
    conv_out.fields["producer"] = f_prod
    rule = SObj(getattr(mod, which), "rule")
    try:
        fired = I.truth(I.call(I.getattr(rule, "check"), [None, x, wv, bv, sv, ov, conv_out]))
    except PyRaise as e:
        ctx.check(f"C04.rules.{which}.check_never_raises", False, f"C04 — raised {e.exc!r}")
        return
    ctx.check(f"C04.rules.{which}.check_never_raises", True, "C04")
    if not fired:
        ctx.cover(f"{which}.check_failed")
        return
    ctx.check(f"C05.rules.{which}.fires_only_with_constant_weight_bias_scale_and_offset", all(known.values()), CL)
    ctx.check(f"C05.rules.{which}.fires_only_for_one_element_constants_that_add_no_dimension", s_rank <= 4 and o_rank <= 4,
              CL + " — a [1,1,1,1,1] operand of Mul / Add raises the rank of the result to 5")
    if not all(known.values()):
        return
    made = []
    I.models[ir.tensor] = lambda interp, arr, *a, **k: (made.append(np.asarray(arr, dtype=object)) or ("tensor", len(made)))
    rec = OpRecorder()
    r = I.call(I.getattr(rule, "rewrite"), [rec, x, wv, bv, sv, ov, conv_out])
    ok = isinstance(r, Call) and r.op == "Conv" and len(r.args) == 3 and r.args[0] is x and len(made) == 2 \
        and all(isinstance(a, Call) and a.op == "initializer" for a in r.args[1:])
    ctx.check(f"C05.rules.{which}.replacement_is_a_conv_of_x_with_two_new_initializers", ok, CL)
    if not ok:
        return
    idx = {a.args[0]: a for a in r.args[1:]}
    w_new = made[r.args[1].args[0][1] - 1]
    b_new = made[r.args[2].args[0][1] - 1]
    ctx.check(f"C05.rules.{which}.fused_weight_has_the_shape_of_the_weight", tuple(w_new.shape) == tuple(w_arr.shape), CL)
    ctx.check(f"C05.rules.{which}.fused_bias_is_one_value_per_output_channel", tuple(b_new.shape) == (M,), CL + " — Conv's B is a 1-D tensor of size M")
    kept = {k: v for k, v in r.kwargs.items()}
    ctx.check(f"C05.rules.{which}.conv_attributes_are_kept", set(kept) == set(attrs) and all((kept[k].fields["value"] if isinstance(kept[k], SObj) else kept[k]) == attrs[k] for k in attrs), CL)
    if tuple(w_new.shape) != tuple(w_arr.shape) or tuple(b_new.shape) != (M,):
        return
    xs = np.array([[[R(f"x{c}{i}{j}") for j in range(KW)] for i in range(KH)] for c in range(C)], dtype=object)
    for m in range(M):
        if which == "ConvAffineFusion":
            orig = (sum((w_arr[m] * xs).reshape(-1)) + b_arr[m]) * s + o
        else:
            orig = sum((w_arr[m] * (xs * s + o)).reshape(-1)) + b_arr[m]
        new = sum((w_new[m] * xs).reshape(-1)) + b_new[m]
        ctx.check(f"C05.rules.{which}.fused_conv_computes_the_same_value_for_every_weight_bias_scale_offset_and_input", new == orig, CL)


def _mk_ca(which):
    def run(ctx):
        return s_conv_affine(ctx, which)
    run.__doc__ = s_conv_affine.__doc__
    return run


AFF = "onnxscript/rewriter/rules/common/_fuse_conv_affine.py"
for _w in ("ConvAffineFusion", "AffineConvFusion"):
    SCENARIOS.append(Scenario(f"C05.rules.{_w}", _mk_ca(_w), [(AFF, "_ConvAffineFusionBase.check"), (AFF, f"{_w}.rewrite")],
                              kind="bounded", bound="weight [2,2,1,2] (2 output channels, 2 input channels, 1x2 kernel), one output position; all values unbounded reals; scale/offset of rank 0, 1, 4, 5",
                              trusted=["ONNX Conv (no padding): out[m] = sum_{c,k} w[m,c,k] x[c,k] + b[m]", "numpy broadcasting / reshape / sum on object arrays"],
                              assumptions=["floats treated as reals"], max_paths=2000))


# ------------------------------------------------------------------ Pad + Conv ---------------------------------

def s_fuse_conv_pad(ctx):
    """FuseConvPad: Conv(Pad(x, pads, value, axes; mode), ...) -> Conv(x, ...; pads = old + spatial part of the Pad).
    Theory: Pad in constant mode with value 0 followed by a Conv with explicit pads P equals that Conv with P + (the Pad's
    begin / end amounts) on every spatial axis - provided the Pad leaves the batch and channel axes alone, adds no
    negative amount, and the Conv pads explicitly (auto_pad NOTSET).  Post: the rule fires only then, only for constants
    that are not overridable graph inputs, and the new pads are exactly old + Pad (begin with begin, end with end, axis by
    axis, whatever order and sign the Pad's `axes` input uses); every other attribute and input of the Conv is kept."""
    import numpy as np
    import onnx_ir as ir
    from onnxscript.rewriter.rules.common import _fuse_pad_into_conv as mod
    from pyvc.values import SReal, SBool
    from .c09_reshape import IArr
    from .c05_rules import with_producer
    I = Interp(ctx)
    W = World(I)
    rank = 3 + ctx.choose(2, "two spatial dims")
    nsp = rank - 2
    shape_known = ctx.choose(2, "shape of x unknown") == 0
    x = W.value("x", dims=[SInt(ctx.int(f"xd{i}")) for i in range(rank)] if shape_known else None, rt=[], dtype=ir.DataType.FLOAT)
    axes_opts = [None, list(range(rank)), list(range(2, rank)), [a - rank for a in range(2, rank)], list(reversed(range(2, rank))), [0] + list(range(2, rank))]
    axes = axes_opts[ctx.choose(len(axes_opts), "axes input") if shape_known else 0]
    eff_axes = list(range(rank)) if axes is None else [a if a >= 0 else a + rank for a in axes]
    n_ax = len(eff_axes)
    pvals = [ctx.int(f"pad{i}") for i in range(2 * n_ax)]
    for i, t in enumerate(pvals):
        ctx.witness[f"pad{i}"] = t

    def cval(name, arr, known=True, ovr=False):
        t = None
        if known:
            t = SObj(ir.Tensor, f"{name}_tensor")

            def f_numpy():
                raise AssertionError
            I.models[f_numpy] = lambda interp: arr
            t.fields.update(numpy=f_numpy)
        v = W.value(name, dims=None, rt=[], dtype=ir.DataType.INT64, const=t, initializer=known, graph_input=ovr)
        v.fields["name"] = name
        return v
    flags = {"pads": "constant", "value": "constant", "axes": "constant"}
    special = [None, ("pads", "overridable initializer"), ("pads", "not constant"), ("value", "overridable initializer"), ("value", "not constant"),
               ("axes", "overridable initializer"), ("axes", "not constant")][ctx.choose(7, "one Pad operand that is not a plain constant")]
    if special is not None:
        flags[special[0]] = special[1]
    pads_v = cval("pads", IArr([SInt(t) for t in pvals]), flags["pads"] != "not constant", flags["pads"] == "overridable initializer")
    value_kind = ["absent", "zero", "any"][ctx.choose(3, "constant_value") if shape_known else 0]
    c = ctx.const("pad_value", z3.RealSort())
    ctx.witness["pad_value"] = c
    value_v = None if value_kind == "absent" else cval("value", NArr_([SReal(z3.RealVal(0)) if value_kind == "zero" else SReal(c)]), flags["value"] != "not constant", flags["value"] == "overridable initializer")
    axes_v = None if axes is None else cval("axes", IArr(list(axes)), flags["axes"] != "not constant", flags["axes"] == "overridable initializer")
    pad_inputs = [x, pads_v] + ([value_v] if (value_v is not None or axes_v is not None) else []) + ([axes_v] if axes_v is not None else [])
    mode = [None, "constant", "reflect"][ctx.choose(3, "mode attribute") if shape_known else 0]
    pad_node = W.node("Pad", pad_inputs, attrs=({} if mode is None else {"mode": mode}))
    I.models[ir.Attr.as_string] = lambda interp, a: a.fields["value"] if isinstance(a, SObj) else a.as_string()
    pad_out = pad_node.fields["outputs"][0]
    with_producer(I, pad_out, pad_node)
    auto_pad = [None, "NOTSET", "SAME_UPPER"][ctx.choose(3, "auto_pad of the Conv") if shape_known else 0]
    old = None
    cattrs = {"group": 1}
    if auto_pad is not None:
        cattrs["auto_pad"] = auto_pad
    if ctx.choose(2, "Conv has pads") == 0:
        old = [ctx.int(f"old{i}") for i in range(2 * nsp)]
        cattrs["pads"] = [SInt(t) for t in old]
    wv, bv = W.value("w"), W.value("b")
    conv_node = W.node("Conv", [pad_out, wv, bv], attrs=cattrs)
    conv_node.fields["name"] = "conv0"
    I.models[ir.Attr.as_ints] = lambda interp, a: list(a.fields["value"]) if isinstance(a, SObj) else a.as_ints()
    conv_out = conv_node.fields["outputs"][0]
    with_producer(I, conv_out, conv_node)
    I.models[np.any] = lambda interp, seq: SBool(z3.Or(*[term(v) != 0 for v in interp.iterate(seq)])) if any(isinstance(v, SInt) for v in interp.iterate(seq)) else any(bool(v) for v in interp.iterate(seq))
    made = []

    def m_ints(interp, name, value, *a, **k):
        a_ = SObj(ir.Attr, f"attr_{name}")
        a_.fields.update(name=name, value=list(interp.iterate(value)), type="ints")
        made.append(a_)
        return a_
    I.models[ir.AttrInt64s] = m_ints
    rule = SObj(mod.FuseConvPad, "rule")
    try:
        fired = I.truth(I.call(I.getattr(rule, "check"), [None, x, pad_out, conv_out]))
    except PyRaise as e:
        ctx.check("C04.rules.FuseConvPad.check_never_raises", False, f"C04 — raised {e.exc!r}")
        return
    ctx.check("C04.rules.FuseConvPad.check_never_raises", True, "C04")
    if not fired:
        ctx.cover("FuseConvPad.check_failed")
        return
    ctx.check("C05.rules.FuseConvPad.fires_only_for_a_known_input_rank", x.fields["shape"] is not None, CL)
    ctx.check("C05.rules.FuseConvPad.fires_only_in_constant_mode", mode in (None, "constant"), CL)
    ctx.check("C05.rules.FuseConvPad.fires_only_with_explicit_conv_padding", auto_pad in (None, "NOTSET"), CL)
    ctx.check("C05.rules.FuseConvPad.fires_only_for_constant_pad_operands", flags["pads"] != "not constant" and (value_v is None or flags["value"] != "not constant")
              and (axes_v is None or flags["axes"] != "not constant"), CL)
    ctx.check("C05.rules.FuseConvPad.does_not_fire_on_an_overridable_initializer",
              flags["pads"] != "overridable initializer" and (value_v is None or flags["value"] != "overridable initializer") and (axes_v is None or flags["axes"] != "overridable initializer"),
              "C05 / C04: 'initializers that are also graph inputs ... are never folded into constants'")
    if value_kind == "any":
        ctx.check("C05.rules.FuseConvPad.fires_only_for_pad_value_zero", c == 0, CL)
    # full begin / end amounts per axis of x, as ONNX Pad defines them
    begin = {a: z3.IntVal(0) for a in range(rank)}
    end = {a: z3.IntVal(0) for a in range(rank)}
    for k, a in enumerate(eff_axes):
        begin[a], end[a] = pvals[k], pvals[k + n_ax]
    ctx.check("C05.rules.FuseConvPad.fires_only_if_batch_and_channel_axes_are_not_padded_and_no_amount_is_negative",
              z3.And(*[z3.And(begin[a] == 0, end[a] == 0) for a in (0, 1)], *[z3.And(begin[a] >= 0, end[a] >= 0) for a in range(rank)]), CL)
    if x.fields["shape"] is None:
        return
    r = I.call(I.getattr(rule, "rewrite"), [OpRecorder(), x, pad_out, conv_out])
    ok = isinstance(r, Call) and r.op == "op" and r.args[0] == "Conv" and list(r.args[1:]) == [x, wv, bv]
    ctx.check("C05.rules.FuseConvPad.replacement_is_the_conv_of_x_with_the_same_other_inputs", ok, CL)
    if not ok:
        return
    kw = {k: v for k, v in r.kwargs.items() if not k.startswith("_")}
    val = lambda a: a.fields["value"] if isinstance(a, SObj) else a
    ctx.check("C05.rules.FuseConvPad.every_other_conv_attribute_is_kept", all(k in kw and val(kw[k]) == cattrs[k] for k in cattrs if k != "pads") and set(kw) <= set(cattrs) | {"pads"}, CL)
    okp = "pads" in kw and len(val(kw["pads"])) == 2 * nsp
    ctx.check("C05.rules.FuseConvPad.new_pads_have_two_entries_per_spatial_axis", okp, CL)
    if okp:
        got = [term(v) for v in val(kw["pads"])]
        base = old if old is not None else [z3.IntVal(0)] * (2 * nsp)
        want = [base[i] + begin[2 + i] for i in range(nsp)] + [base[nsp + i] + end[2 + i] for i in range(nsp)]
        ctx.check("C05.rules.FuseConvPad.new_pads_are_the_old_pads_plus_the_pad_amounts_axis_by_axis", z3.And(*[g == w_ for g, w_ in zip(got, want)]), CL)


def NArr_(items):
    from .irmodel import NArr
    return NArr(items, None, 0)


SCENARIOS.append(Scenario("C05.rules.FuseConvPad", s_fuse_conv_pad,
                          [(FILE, "_FuseConvPadBase.check"), (FILE, "_FuseConvPadBase.rewrite"), (FILE, "FuseConvPad.check"), (FILE, "fill_pads_with_axes")],
                          kind="bounded", bound="1 or 2 spatial dims; axes input absent / all / spatial / negative / reversed / with the batch axis; pad amounts and old pads unbounded",
                          trusted=["ONNX Pad-18 (pads = begins then ends for the listed axes, constant mode) and Conv pads operator documentation"], max_paths=60000))
