"""C05 — rules/common/_broadcast_to_matmul.py: Reshape(MatMul(Reshape(a, sa), Reshape(b, sb)), sc) -> MatMul(a, b)
(and the one-reshape variant, same check function; _gemm_to_matmul_add.py reuses it as well).

bounded: check_if_not_need_reshape only reads a.shape, b.shape and the constant sc, and requires all of them static, so the
rule's behaviour on a model is a function of (shape(a), shape(b), sa, sb, sc).  The check is run from its real source on
EVERY combination of operand shapes of rank 1..3 with dims in {1,2,3} and reshape targets of rank 1..3 with dims in
{1,2,3,4} on which the original subgraph executes; whenever it accepts, the original subgraph and MatMul(a, b) are
evaluated with numpy on integer-valued data (exact in float64) and must agree in shape and in every element.
"""
from __future__ import annotations

import itertools

from pyvc.harness import Scenario

SCENARIOS = []
FILE = "onnxscript/rewriter/rules/common/_broadcast_to_matmul.py"
CL = "C05: 'whenever the rule applies to a model, the rewritten model yields the same outputs as before for all inputs (same element type, same shape, equal values)'"


def _shapes(maxrank, dims):
    for r in range(1, maxrank + 1):
        yield from itertools.product(dims, repeat=r)


def s_reshape_matmul_reshape(ctx):
    import numpy as np
    import onnx_ir as ir
    from onnxscript.rewriter.rules.common import _broadcast_to_matmul as mod
    rng = np.random.default_rng(0)
    fact = {}

    def factorizations(n):
        if n not in fact:
            fact[n] = [s for s in _shapes(3, (1, 2, 3, 4)) if int(np.prod(s)) == n]
        return fact[n]
    tried = fired = 0
    bad = {"identity reshapes": None, "reshapes that only regroup batch dims": None, "reshapes that move data across the last two dims": None}
    nbad = dict.fromkeys(bad, 0)
    for sa0 in _shapes(3, (1, 2, 3)):
        for sb0 in _shapes(3, (1, 2, 3)):
            a = rng.integers(1, 9, size=sa0).astype(np.float64)
            b = rng.integers(1, 9, size=sb0).astype(np.float64)
            try:
                ref = np.matmul(a, b)
            except ValueError:
                continue
            if ref.ndim == 0:
                continue
            av = ir.Value(name="a", shape=ir.Shape(list(sa0)), type=ir.TensorType(ir.DataType.DOUBLE))
            bv = ir.Value(name="b", shape=ir.Shape(list(sb0)), type=ir.TensorType(ir.DataType.DOUBLE))
            for sa in factorizations(a.size):
                for sb in factorizations(b.size):
                    try:
                        mid = np.matmul(a.reshape(sa), b.reshape(sb))
                    except ValueError:
                        continue
                    for sc in {tuple(ref.shape), tuple(mid.shape)}:
                        if int(np.prod(sc)) != mid.size:
                            continue
                        tried += 1
                        cv = ir.Value(name="sc", const_value=ir.tensor(np.array(sc, dtype=np.int64)))
                        if not mod.check_if_not_need_reshape(None, av, bv, cv):
                            continue
                        fired += 1
                        orig = mid.reshape(sc)
                        if orig.shape == ref.shape and np.array_equal(orig, ref):
                            continue
                        if tuple(sa) == tuple(sa0) and tuple(sb) == tuple(sb0):
                            cat = "identity reshapes"
                        elif (len(sa) < 2 or len(sa0) < 2 or tuple(sa[-2:]) == tuple(sa0[-2:])) and (len(sb) < 2 or len(sb0) < 2 or tuple(sb[-2:]) == tuple(sb0[-2:])):
                            cat = "reshapes that only regroup batch dims"
                        else:
                            cat = "reshapes that move data across the last two dims"
                        nbad[cat] += 1
                        if bad[cat] is None:
                            bad[cat] = f"a{list(sa0)} reshaped to {list(sa)}, b{list(sb0)} reshaped to {list(sb)}, final shape {list(sc)}: original {orig.reshape(-1)[:6].tolist()}... MatMul(a, b) {ref.reshape(-1)[:6].tolist()}... (shape {list(ref.shape)})"
    ctx.cover(f"tried={tried} fired={fired}")
    ctx.check("C05.rules.reshape_matmul_reshape.check_accepts_some_combination", fired > 0, CL + " (vacuity guard)")
    for cat, ex in bad.items():
        ctx.note(f"{cat}: {nbad[cat]} accepted combinations differ" + (f"; first: {ex}" if ex else ""))
        ctx.check(f"C05.rules.reshape_matmul_reshape.accepted_combinations_compute_matmul_of_the_unreshaped_operands[{cat}]", ex is None, CL)


SCENARIOS.append(Scenario("C05.rules.reshape_matmul_reshape", s_reshape_matmul_reshape, [(FILE, "check_if_not_need_reshape")],
                          kind="bounded", bound="operand shapes of rank 1..3 with dims in {1,2,3}; reshape targets of rank 1..3 with dims in {1,2,3,4}; integer data",
                          trusted=["numpy.matmul / reshape implement ONNX MatMul / Reshape on static shapes"], max_paths=4, budget_s=900))
