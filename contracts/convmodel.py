"""Symbolic model of the Converter object and its emission primitives, shared by the converter
contracts (C01, C02, C11, C12, C14).

The converter's *translation* methods are interpreted from the real source; what is modelled here
are the primitives they rest on — each listed as an assumed/separately-verified contract:

  _emit(outputs, callee, inputs, attrs)   appends one node to the ghost emission log and returns one
                                          ir.Value stand-in per output name (contract of _emit: one
                                          node, exactly these outputs in order) — assumed; onnx_ir's
                                          Node/Value constructors are outside /repo
  _generate_unique_name(candidate)        returns a name not in the set of names handed out so far
                                          (contract proved in C02.converter._generate_unique_name)
  ir.tensor / ir.Attr*                    value carriers (onnx_ir, trusted)
  _source_of/_message                     opaque source info
"""
from __future__ import annotations

import ast

import z3

from pyvc.interp import Interp, PyRaise
from pyvc.values import SObj, SStr, SInt, SSet, Opaque, StrSort, term, wrap, is_sym


def _conv_cls():
    from onnxscript._internal import converter
    return converter.Converter


class Log:
    def __init__(self):
        self.nodes = []  # dicts: op, inputs, attrs, outputs(names), out_values, scope
        self.names = []  # every name returned by _generate_unique_name (terms or str)


def opname(callee):
    if isinstance(callee, str):
        return callee
    n = getattr(callee, "name", None)
    if n is None and isinstance(callee, SObj):
        n = callee.fields.get("name")
    return n


def m_emit(interp, self, outputs, callee, inputs, attrs=None):
    from onnx_ir import Value
    log = interp.ctx.ghost["log"]
    outs = interp.iterate(outputs)
    vals = []
    entry = {"op": opname(callee), "callee": callee, "inputs": list(interp.iterate(inputs)),
             "attrs": list(interp.iterate(attrs)) if attrs is not None else [], "outputs": outs,
             "scope": self.fields.get("_current_fn")}
    for i, o in enumerate(outs):
        v = SObj(Value, "val")
        v.fields.update(name=o, ghost_node=entry, ghost_index=i, type=None, shape=None, dtype=None)

        def producer():
            raise AssertionError
        interp.models[producer] = lambda i2, entry=entry: entry
        v.fields["producer"] = producer
        vals.append(v)
    entry["out_values"] = vals
    log.nodes.append(entry)
    fn = self.fields.get("_current_fn")
    if isinstance(fn, SObj) and "ghost_nodes" in fn.fields:
        fn.fields["ghost_nodes"].append(entry)
    if not vals:
        # the real _emit ends with `output_values[0]`: a node without outputs is refused by an IndexError
        from pyvc.interp import PyRaise
        log.nodes.pop()
        raise PyRaise(IndexError("list index out of range"))
    return vals if len(vals) > 1 else vals[0]


def m_generate_unique_name(interp, self, candidate="tmp"):
    """Contract (proved separately): result ∉ names handed out before; recorded in the ghost log."""
    log = interp.ctx.ghost["log"]
    t = interp.ctx.const("name", StrSort)
    for prev in log.names:
        interp.ctx.assume(t != (prev if not isinstance(prev, str) else z3.StringVal(prev)))
    log.names.append(t)
    r = SStr(t)
    r.candidate = candidate
    return r


def m_tensor(interp, value, dtype=None, name=None, **kw):
    import onnx_ir as ir
    t = SObj(ir.Tensor, "tensor")
    t.fields.update(pyvalue=value, dtype=dtype, name=name)
    return t


def m_attr_tensor(interp, name, value, *a, **k):
    import onnx_ir as ir
    t = SObj(ir.Attr, "attr")
    t.fields.update(name=name, value=value, type=ir.AttributeType.TENSOR, ref_attr_name=None)
    return t


def m_attr_int(interp, name, value, *a, **k):
    import onnx_ir as ir
    t = SObj(ir.Attr, "attr")
    t.fields.update(name=name, value=value, type=ir.AttributeType.INT, ref_attr_name=None)
    return t


_INFO = []


def real_info():
    """A real sourceinfo.SourceInfo (source positions are not part of any obligation)."""
    if not _INFO:
        import ast as _ast
        from onnxscript._internal import sourceinfo
        _INFO.append(sourceinfo.SourceInfo(_ast.parse("x = 1").body[0], code="x = 1", function_name="f"))
    return _INFO[0]


def m_source_of(interp, self, node):
    return real_info()


def m_message(interp, self, node, msg):
    return "<message with source position>"


def converter_models():
    import onnx_ir as ir
    C = _conv_cls()
    return {
        C._emit: m_emit,
        C._generate_unique_name: m_generate_unique_name,
        C._source_of: m_source_of,
        C._message: m_message,
        ir.tensor: m_tensor,
        ir.AttrTensor: m_attr_tensor,
        ir.AttrInt64: m_attr_int,
    }


def new_converter(interp):
    from onnxscript import opset18
    C = _conv_cls()
    # run the real __init__ so that every field the class initialises exists (robust against new fields)
    self = interp.instantiate(C, [], {"opset": opset18, "global_names": {}, "source": None, "default_opset": opset18})
    interp.ctx.ghost["log"] = Log()
    fn = SObj(None, "current_fn", cands=None)
    from onnxscript._internal import irbuilder
    fn.pycls = irbuilder.IRFunction
    fn.fields.update(name="f", ghost_nodes=[])
    # every other field the REAL IRFunction.__init__ creates (robust against fields added later): read lazily from a real instance
    _real_fn = []

    def _lazy_field(interp_, obj, attr):
        from pyvc.interp import _MISSING
        if attr.startswith("__"):
            return _MISSING
        if not _real_fn:
            _real_fn.append(irbuilder.IRFunction("f"))
        d = getattr(_real_fn[0], "__dict__", {})
        return d[attr] if attr in d else _MISSING
    fn.lazy = _lazy_field
    self.fields.update(
        source=None, globals={}, this_module=opset18, default_opset_=opset18,
        _outer=[], _current_fn=fn, _nextvar=0, _locals=[{}], _analyzer=None, _castable=set(),
    )
    return self


def const_of(value):
    """Decode an ir.Value stand-in produced by Constant emission -> python value / list of terms."""
    n = value.fields.get("ghost_node") if isinstance(value, SObj) else None
    if not n or n["op"] != "Constant":
        return None
    a = n["attrs"][0]
    t = a.fields["value"]
    return t.fields["pyvalue"]
