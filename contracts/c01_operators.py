"""C01 — Python operators mean the same in the converter and in eager mode.

The converter translates `a <op> b` through primop_map / _translate_binary_op_expr / _translate_compare_expr /
_translate_unary_op_expr; eager mode evaluates the same expression through the dunder methods of onnxscript.tensor.Tensor.
Both are executed from their real source for every operator of the (finite) operator table and every operand kind
(tensor of a float / integer type on the left; tensor, int literal, float literal on the right):
  * both emit the same ONNX operator sequence with the same attributes (Mod's fmod);
  * the operator handed to the autocaster is the operator that is emitted (so the literal is cast by that operator's
    type constraints — NotEqual is not an ONNX operator and has no signature).
Kind: evaluation over the finite operator table (concrete AST nodes; no symbolic values needed).
"""
from __future__ import annotations

import ast

from pyvc.harness import Scenario
from pyvc.interp import Interp, PyRaise
from pyvc.values import SObj, Opaque
from . import convmodel as CM
from .irmodel import OpRecorder, Call

CL = "C01: 'A script function gives the same outputs ... whether it is called eagerly, converted to a graph and executed, or run as plain Python on NumPy arrays'"
CONV = "onnxscript/_internal/converter.py"
TENS = "onnxscript/tensor.py"

BIN = {ast.Add: "__add__", ast.Sub: "__sub__", ast.Mult: "__mul__", ast.Div: "__truediv__", ast.Mod: "__mod__", ast.Pow: "__pow__",
       ast.MatMult: "__matmul__", ast.BitAnd: "__and__", ast.BitOr: "__or__"}
CMP = {ast.Eq: "__eq__", ast.NotEq: "__ne__", ast.Lt: "__lt__", ast.LtE: "__le__", ast.Gt: "__gt__", ast.GtE: "__ge__"}
SRC = {ast.Add: "+", ast.Sub: "-", ast.Mult: "*", ast.Div: "/", ast.Mod: "%", ast.Pow: "**", ast.MatMult: "@", ast.BitAnd: "&", ast.BitOr: "|",
       ast.Eq: "==", ast.NotEq: "!=", ast.Lt: "<", ast.LtE: "<=", ast.Gt: ">", ast.GtE: ">="}
RIGHT = {"tensor": "y", "int": "2", "float": "2.5"}


def _converter_side(ctx, opcls, right_kind):
    """-> list of (op name, attrs dict) the converter emits for `x <op> <right>`, and the op given to the autocaster"""
    from onnxscript._internal import converter as conv, values
    import onnx_ir as ir
    I = Interp(ctx, models=CM.converter_models())
    self = CM.new_converter(I)
    C = CM._conv_cls()
    node = ast.parse(f"x {SRC[opcls]} {RIGHT[right_kind]}", mode="eval").body
    emitted = []
    cast_ops = []
    I.models[values.Op] = lambda interp, opset, name, *a: ("Op", name)
    I.models[C._translate_expr] = lambda interp, slf, n, target=None: ("operand", ast.dump(n))
    I.models[C._eval_constant_expr] = lambda interp, slf, e: ast.literal_eval(e)

    def m_cast(interp, slf, op, left, right):
        cast_ops.append(op)
        return left, right
    I.models[C._cast_like_binary_expression] = m_cast

    def m_emit1(interp, slf, outs, op, ins, attrs=None):
        emitted.append((op[1] if isinstance(op, tuple) else op, {}))
        return ("tmp", len(emitted))
    I.models[C._emit1] = m_emit1
    I.models[ir.AttrInt64] = lambda interp, name, v: (name, v)
    fn = C._translate_compare_expr if isinstance(node, ast.Compare) else C._translate_binary_op_expr
    r = I.run_closure(I.closure_of(fn), [self, node], {})
    op, args, attrs = r
    emitted.append((op[1], dict(attrs)))
    return emitted, [o[1] if isinstance(o, tuple) else o for o in cast_ops]


def _eager_side(ctx, dunder, left_dtype, right_kind):
    import numpy as np
    from onnxscript import tensor
    I = Interp(ctx)
    rec = OpRecorder()
    t = SObj(tensor.Tensor, "x")
    t.fields.update(_nparray=np.zeros((1,), dtype=left_dtype), _opset=rec)
    other = {"tensor": Opaque("y"), "int": 2, "float": 2.5}[right_kind]
    I.call(I.getattr(t, dunder), [other])
    return [(c.op, {k: v for k, v in c.kwargs.items()}) for c in rec.calls]


def _ctx():
    from pyvc.core import Ctx
    return Ctx([], {"solver_s": 0.0, "queries": 0})


def s_operator_table(_ctx_unused):
    import numpy as np
    import onnx
    from contracts.c17_opsets import Agg
    agg = Agg()
    n = 0
    for opcls, dunder in list(BIN.items()) + list(CMP.items()):
        for right_kind in RIGHT:
            n += 1
            try:
                conv_seq, cast_ops = _converter_side(_ctx(), opcls, right_kind)
            except PyRaise as e:
                conv_seq, cast_ops = ("refused", type(e.exc).__name__), []
            for left_dtype in (np.float32, np.int64):
                case = f"{np.dtype(left_dtype).name} x {SRC[opcls]} {right_kind}"
                try:
                    eager_seq = _eager_side(_ctx(), dunder, left_dtype, right_kind)
                except PyRaise as e:
                    eager_seq = ("refused", type(e.exc).__name__)
                agg.ob("C01.operators.converter_and_eager_emit_the_same_operators_and_attributes", conv_seq == eager_seq,
                       f"{case}: converter {conv_seq} vs eager {eager_seq}", CL, case=case)
            if isinstance(conv_seq, list) and conv_seq and isinstance(conv_seq[0], tuple):
                first = conv_seq[0][0]
                ok = cast_ops == [first] and onnx.defs.has(first)
                agg.ob("C12.converter.operators.literal_is_cast_by_the_emitted_operator", ok,
                       f"x {SRC[opcls]} {right_kind}: autocast with {cast_ops}, emitted {conv_seq}",
                       "C12: 'a literal ... takes the element type of the tensor operands it is constrained to match'",
                       case=f"x {SRC[opcls]} {right_kind}")
    return {"obligations": agg.obs, "paths": n, "covered": [f"operator_cases={n}"], "notes": [], "functions": []}


def s_unary(_ctx_unused):
    import numpy as np
    from contracts.c17_opsets import Agg
    agg = Agg()
    ctx = _ctx()
    from onnxscript._internal import values
    from onnxscript import tensor
    I = Interp(ctx, models=CM.converter_models())
    self = CM.new_converter(I)
    C = CM._conv_cls()
    node = ast.parse("-x", mode="eval").body
    I.models[values.Op] = lambda interp, opset, name, *a: ("Op", name)
    I.models[C._translate_expr] = lambda interp, slf, n, target=None: ("operand", ast.dump(n))
    op, args, attrs = I.run_closure(I.closure_of(C._translate_unary_op_expr), [self, node], {})
    rec = OpRecorder()
    t = SObj(tensor.Tensor, "x")
    t.fields.update(_nparray=np.zeros((1,), dtype=np.float32), _opset=rec)
    Interp(ctx).call(Interp(ctx).getattr(t, "__neg__"), [])
    agg.ob("C01.operators.unary_minus_same_operator", [(op[1], dict(attrs))] == [(c.op, dict(c.kwargs)) for c in rec.calls],
           f"converter {(op[1], attrs)} vs eager {[(c.op, c.kwargs) for c in rec.calls]}", CL)
    return {"obligations": agg.obs, "paths": 1, "covered": ["unary"], "notes": [], "functions": []}


SCENARIOS = [
    Scenario("C01.operators.table", s_operator_table,
             [(CONV, "Converter._translate_binary_op_expr"), (CONV, "Converter._translate_compare_expr"), (CONV, "Converter._is_constant_expr")] +
             [(TENS, f"Tensor.{d}") for d in list(BIN.values()) + list(CMP.values())],
             kind="evaluation", trusted=["autocast.static_cast_inputs (C12.cast_inputs) casts by the signature of the operator it is given"]),
    Scenario("C01.operators.unary", s_unary, [(CONV, "Converter._translate_unary_op_expr"), (TENS, "Tensor.__neg__")], kind="evaluation"),
]


def s_eval_function(ctx):
    """BaseEvaluator.eval_function (eager calling convention): every argument bound to an INPUT parameter is wrapped for
    eager mode (arrays and Python numbers become Tensors, None stays None, lists element-wise), every argument bound to
    an ATTRIBUTE parameter is passed unchanged; the Python function is called once with them, positionally / by keyword
    as tagged; results are unwrapped to numpy exactly when some argument was a numpy array."""
    import numpy as np
    import onnx_ir as ir
    from onnxscript._internal import evaluator, param_manipulation
    from onnxscript import tensor
    I = Interp(ctx)
    ev = SObj(evaluator.BaseEvaluator, "evaluator")
    ev.fields["_ignore_unknown_function_kwargs"] = False
    P_in = SObj(ir.schemas.Parameter, "input_param")
    P_attr = SObj(ir.schemas.AttributeParameter, "attr_param")
    arr = np.zeros((2,), dtype=np.float32)
    kinds = {"array": arr, "tensor": tensor.Tensor(np.ones((1,), dtype=np.float32)), "float": 2.5, "int": 3, "bool": True, "none": None,
             "list of arrays": [arr, arr]}
    k0 = list(kinds)[ctx.choose(len(kinds), "first positional input is")]
    k1 = list(kinds)[ctx.choose(len(kinds), "keyword input is")]
    attr_val = [7, "mode", [1, 2]][ctx.choose(3, "attribute value")]
    tagged_args = [(kinds[k0], P_in), (attr_val, P_attr)]
    tagged_kwargs = {"kw_in": (kinds[k1], P_in), "kw_attr": (attr_val, P_attr)}
    I.models[param_manipulation.tag_arguments_with_signature] = lambda interp, sig, a, k, **kw: (list(tagged_args), dict(tagged_kwargs))
    wrapped = []
    I.models[tensor.Tensor] = lambda interp, a, *r: (wrapped.append(a) or ("Tensor", id(a) if isinstance(a, np.ndarray) and a.ndim else a.tolist(), str(a.dtype)))
    calls = []
    fn = SObj(object, "onnx_function")

    def pyfunc(*a, **k):
        raise AssertionError
    result = ("Tensor", "result")
    I.models[pyfunc] = lambda interp, *a, **k: (calls.append((a, k)) or result)
    fn.fields.update(op_signature="SIG", name="f", function=pyfunc)
    unwrapped = []
    I.models[evaluator._adapt_to_user_mode] = lambda interp, r: (unwrapped.append(r) or "numpy-result")
    r = I.run_closure(I.closure_of(evaluator.BaseEvaluator.eval_function), [ev, fn, ("a0", "a1"), {"k": 1}], {})

    def want(v):
        if isinstance(v, np.ndarray):
            return ("Tensor", id(v), "float32")
        if isinstance(v, tuple) and v and v[0] == "Tensor":
            return v
        if isinstance(v, bool):
            return ("Tensor", v, "bool")
        if isinstance(v, float):
            return ("Tensor", v, "float64")
        if isinstance(v, int):
            return ("Tensor", v, "int64")
        if v is None:
            return None
        if isinstance(v, list):
            return [want(x) for x in v]
        return v
    CLE = "C01: 'A script function gives the same outputs ... whether it is called eagerly' — the eager calling convention"
    ok = len(calls) == 1
    ctx.check("C01.eager.eval_function.python_function_called_once", ok, CLE)
    if not ok:
        return
    a, k = calls[0]
    k0v = kinds[k0] if not isinstance(kinds[k0], tensor.Tensor) else kinds[k0]
    exp0 = kinds[k0] if k0 == "tensor" else want(kinds[k0])
    exp1 = kinds[k1] if k1 == "tensor" else want(kinds[k1])
    ctx.check("C01.eager.eval_function.input_arguments_are_wrapped_for_eager_mode_attributes_passed_unchanged",
              len(a) == 2 and (a[0] is exp0 or a[0] == exp0) and a[1] is attr_val and set(k) == {"kw_in", "kw_attr"} and (k["kw_in"] is exp1 or k["kw_in"] == exp1)
              and k["kw_attr"] is attr_val, CLE)
    has_array = k0 in ("array", "list of arrays") or k1 in ("array", "list of arrays")
    ctx.check("C01.eager.eval_function.results_are_numpy_iff_some_input_was_numpy", (r == "numpy-result" and unwrapped == [result]) if has_array else (r is result and not unwrapped), CLE)


SCENARIOS.append(Scenario("C01.eager.eval_function", s_eval_function,
                          [("onnxscript/_internal/evaluator.py", "BaseEvaluator.eval_function"), ("onnxscript/_internal/evaluator.py", "_adapt_to_eager_mode"),
                           ("onnxscript/_internal/evaluator.py", "_adapt_to_eager_mode.adapt")],
                          kind="bounded", bound="one positional and one keyword input over 7 value kinds, one positional and one keyword attribute",
                          trusted=["param_manipulation.tag_arguments_with_signature pairs each argument with its parameter (its own contract: contracts/c01_calling.py)"]))


class Tok:
    def __init__(self, name):
        self.name = name

    def __repr__(self):
        return f"<{self.name}>"


def s_signature_defaults(ctx):
    """_translate_function_signature_common: every attribute parameter is recorded with PYTHON's default for that parameter
    (ast.arguments.defaults holds the defaults of the LAST len(defaults) positional parameters, in order) - eager mode calls
    the Python function, so a FunctionProto whose attribute defaults differ computes something else when the attribute is
    omitted.  Tensor parameters become graph inputs in signature order."""
    import z3
    import onnx_ir as ir
    from onnxscript._internal import converter as conv
    from onnxscript._internal import type_annotation as ta
    from onnxscript.ir import _schemas
    from .c01_converter import FnStub
    I = Interp(ctx, models=CM.converter_models())
    self = CM.new_converter(I)
    C = CM._conv_cls()
    fnstub = FnStub("f")
    params = []
    fnstub.append_parameter = lambda p: params.append(p)
    fnstub.append_parameter._pyvc_native = True
    self.fields["_current_fn"] = fnstub
    n = ctx.choose(4, "number of parameters")
    k = ctx.choose(n + 1, "number of defaults")
    kinds = [["attribute", "tensor"][ctx.choose(2, f"parameter {i} is")] for i in range(n)]
    annos = [Tok(f"annotation{i}") for i in range(n)]
    dexprs = [Tok(f"default_expr{j}") for j in range(k)]
    I.models[C._get_type_annotation] = lambda interp, slf, a: ("type", annos.index(a))
    I.models[ta.is_attr_type] = lambda interp, t: kinds[t[1]] == "attribute"
    I.models[ta.base_type_is_bool] = lambda interp, t: False
    I.models[_schemas.get_attr_type] = lambda interp, t: ir.AttributeType.FLOAT
    I.models[C._eval_constant_expr] = lambda interp, slf, e: ("value of", e)
    I.models[C._generate_unique_name] = lambda interp, slf, cand="tmp": cand
    I.models[conv.make_value] = lambda interp, name, typeinfo, info: ("tensor parameter", name)
    bound = {}
    I.models[C._bind] = lambda interp, slf, name, val: bound.__setitem__(name, val)
    made = []

    def m_attr(interp, name, type_, value, ref=None, **kw):
        a = SObj(ir.Attr, f"attr_{name}")
        a.fields.update(name=name, type=type_, value=value)
        made.append(a)
        return a
    I.models[ir.Attr] = m_attr
    args = SObj(ast.arguments, "arguments")
    arglist = []
    for i in range(n):
        a = SObj(ast.arg, f"arg{i}")
        a.fields.update(arg=f"p{i}", annotation=annos[i], lineno=1, col_offset=0)
        arglist.append(a)
    args.fields.update(args=arglist, defaults=dexprs, vararg=None, kwonlyargs=[], kw_defaults=[], kwarg=None)
    fn = SObj(ast.FunctionDef, "fn")
    fn.fields.update(args=args, returns=None, name="f", lineno=1, col_offset=0)
    I.run_closure(I.closure_of(C._translate_function_signature_common), [self, fn], {})
    ok = len(params) == n
    ctx.check("C01.converter.signature.one_parameter_per_python_parameter_in_order", ok and all(
        (p.fields["name"] == f"p{i}" if isinstance(p, SObj) else p == ("tensor parameter", f"p{i}")) for i, p in enumerate(params)), CL)
    if not ok:
        return
    for i, p in enumerate(params):
        if kinds[i] != "attribute":
            continue
        want = ("value of", dexprs[i - (n - k)]) if i >= n - k else None
        ctx.check("C01.converter.signature.attribute_default_is_the_python_default_of_that_parameter", p.fields["value"] == want,
                  CL + " — eager execution uses Python's defaults; the FunctionProto must record the same ones")


SCENARIOS.append(Scenario("C01.converter.signature.defaults", s_signature_defaults, [(CONV, "Converter._translate_function_signature_common")],
                          kind="bounded", bound="<= 3 parameters, every split into attribute / tensor parameters, every number of defaults"))


def s_eval_op(ctx):
    """BaseEvaluator.eval_op (the target of Op.__call__, i.e. of every eager opsetN.<Op>(...) call): attributes and inputs are adapted with THE
    SIGNATURE OF THE OP THAT IS CALLED and evaluated with its schema — also when another version of the same operator (same domain and name,
    other since_version, other signature) was evaluated by the same evaluator object just before; the result is the adapted output."""
    from onnxscript._internal import evaluator
    I = Interp(ctx)
    ev = I.instantiate(evaluator.BaseEvaluator, [], {}) if False else SObj(evaluator.BaseEvaluator, "evaluator")
    ev.fields["_ignore_unknown_function_kwargs"] = False
    # fields a memoising variant might keep on the evaluator are allowed to exist: give __init__'s effects a chance
    try:
        I.call(evaluator.BaseEvaluator.__init__, [ev], {})
    except PyRaise:
        pass
    same_name = ctx.choose(2, "the second op has the same domain and name (another version)") == 0
    log = []

    def mk_op(tag, name):
        op = SObj(object, "op_" + tag)
        op.fields.update(name=name, domain="", op_signature=("signature", tag), op_schema=("schema", tag))
        return op
    op1, op2 = mk_op("first", "Pow"), mk_op("second", "Pow" if same_name else "Add")
    I.models[evaluator._unwrap_tensors_in_kwargs] = lambda interp, kw: dict(kw)
    I.models[evaluator.BaseEvaluator._adapt_attributes] = lambda interp, slf, sig, attrs: (log.append(("attrs", sig)) or (("adapted-attrs", sig), ("closure", sig)))
    I.models[evaluator.BaseEvaluator._adapt_inputs] = lambda interp, slf, sig, args: (log.append(("inputs", sig)) or ("adapted-inputs", sig))
    I.models[evaluator.BaseEvaluator._adapt_outputs] = lambda interp, slf, outs: ("adapted-outputs", outs)
    ev.fields["_eval"] = None
    evals = []

    def _eval(*a):
        raise AssertionError
    I.models[_eval] = lambda interp, schema, inputs, attributes, closure: (evals.append((schema, inputs, attributes, closure)) or ("outputs", schema))
    ev.fields["_eval"] = _eval
    clo = I.closure_of(evaluator.BaseEvaluator.eval_op)
    I.run_closure(clo, [ev, op1, ("x",), {}], {})
    del log[:]
    del evals[:]
    r = I.run_closure(clo, [ev, op2, ("x",), {}], {})
    CLO = ("C17: 'eager call with defaults vs bare node' / C14: results are 'independent of what the process did before' — the operator version that is "
           "called decides the signature used for promotion and arity, not an earlier call of another version")
    sig2 = ("signature", "second")
    ctx.check("C01.eager.eval_op.inputs_and_attributes_are_adapted_with_the_signature_of_the_called_op", log == [("attrs", sig2), ("inputs", sig2)] or
              sorted(log) == sorted([("attrs", sig2), ("inputs", sig2)]), CLO)
    ok = len(evals) == 1
    ctx.check("C01.eager.eval_op.evaluated_once_with_the_schema_of_the_called_op_and_the_adapted_values",
              ok and evals[0] == (("schema", "second"), ("adapted-inputs", sig2), ("adapted-attrs", sig2), ("closure", sig2)), CLO)
    ctx.check("C01.eager.eval_op.result_is_the_adapted_output", r == ("adapted-outputs", ("outputs", ("schema", "second"))), CLO)


SCENARIOS.append(Scenario("C01.eager.eval_op", s_eval_op, [("onnxscript/_internal/evaluator.py", "BaseEvaluator.eval_op")],
                          trusted=["_adapt_attributes / _adapt_inputs / _adapt_outputs / _eval are abstract (own contracts: eval_function scenario, C12 cast_inputs)"]))
