"""C09 / C05 contracts for the shape-rewriting rules of _basic_rules.py: Flatten2Reshape and ReshapeReshape.

Theory (ONNX Reshape-14 .. 21, operator documentation):  Reshape(data[r_0..r_{k-1}], s, allowzero)
  s_i == 0  and allowzero == 0 : the output dim is COPIED from the input, o_i = r_i  (needs i < k)
  s_i == -1                    : at most one; o_i = total / prod(other o_j), which needs prod(other) != 0 and divisibility
  otherwise                    : o_i = s_i
  valid  <=>  the above is defined and prod(o) == prod(r).
Flatten-13 .. (data, axis): output (prod(r[:axis]), prod(r[axis:])), axis in [-k, k].

Dims: static ints are drawn from {0, 2, 3} (bounded), named / unknown dims are unbounded z3 integers >= 0.
"""
from __future__ import annotations

import z3

from pyvc.harness import Scenario
from pyvc.interp import Interp, PyRaise
from pyvc.values import SObj, SInt, SBool, term
from .irmodel import World, OpRecorder, Call, NArr, AttrDict

SCENARIOS = []
BASIC = "onnxscript/rewriter/rules/common/_basic_rules.py"
CL09 = "C09: 'every simplification the optimizer derives from shape information ... stays correct for every concrete input shape the original model accepts, including dimensions of size 0 and 1'"
CL05 = "C05: 'whenever the rule applies to a model, the rewritten model yields the same outputs as before for all inputs (same element type, same shape, equal values)'"
TRUST = ["ONNX Reshape / Flatten operator documentation (theory in the module docstring)",
         "numpy: array copy, element assignment, ==, <, count_nonzero, where, prod on small integer vectors (modelled by IArr)"]


def _t(v):
    return v.t if isinstance(v, SInt) else z3.IntVal(int(v))


class BArr:
    """element-wise comparison result"""

    def __init__(self, items):
        self.items = list(items)

    def __iter__(self):
        return iter([SBool(b) if not isinstance(b, bool) else b for b in self.items])

    def __len__(self):
        return len(self.items)


class IArr(NArr):
    """1-D int64 vector with symbolic elements (what the rules keep in self._new_shape)."""

    def __init__(self, items):
        NArr.__init__(self, items, None, 1)

    def __getitem__(self, i):
        return self.items[i]

    def __setitem__(self, i, v):
        if not isinstance(i, int) or not (-len(self.items) <= i < len(self.items)):
            raise IndexError(f"index {i} is out of bounds for axis 0 with size {len(self.items)}")
        self.items[i] = v

    def _cmp(self, other, f):
        out = []
        for x in self.items:
            r = z3.simplify(f(_t(x), _t(other)))
            out.append(True if z3.is_true(r) else False if z3.is_false(r) else r)
        return BArr(out)

    def __eq__(self, other):
        return self._cmp(other, lambda a, b: a == b)

    def __ne__(self, other):
        return self._cmp(other, lambda a, b: a != b)

    def __lt__(self, other):
        return self._cmp(other, lambda a, b: a < b)

    def __le__(self, other):
        return self._cmp(other, lambda a, b: a <= b)

    def __gt__(self, other):
        return self._cmp(other, lambda a, b: a > b)

    def __ge__(self, other):
        return self._cmp(other, lambda a, b: a >= b)

    __hash__ = None


for _n in ("__getitem__", "__setitem__", "__eq__", "__ne__", "__lt__", "__le__", "__gt__", "__ge__"):
    getattr(IArr, _n)._pyvc_native = True
for _n in ("__iter__", "__len__"):
    getattr(BArr, _n)._pyvc_native = True


def install_numpy(I):
    import numpy as np

    def m_array(interp, v, dtype=None, **k):
        return IArr(list(v.items) if isinstance(v, NArr) else list(interp.iterate(v)))

    def m_count_nonzero(interp, b):
        tot = z3.IntVal(0)
        for x in b.items:
            tot = tot + (z3.IntVal(1 if x else 0) if isinstance(x, bool) else z3.If(x, 1, 0))
        tot = z3.simplify(tot)
        return tot.as_long() if z3.is_int_value(tot) else SInt(tot)

    def m_where(interp, cond, a, b):
        out = []
        for i, c in enumerate(cond.items):
            x = a.items[i] if isinstance(a, NArr) else a
            y = b.items[i] if isinstance(b, NArr) else b
            if isinstance(c, bool):
                out.append(x if c else y)
            else:
                out.append(SInt(z3.If(c, _t(x), _t(y))))
        return IArr(out)

    def m_prod(interp, seq, **k):
        tot = z3.IntVal(1)
        for x in interp.iterate(seq):
            tot = tot * _t(x)
        tot = z3.simplify(tot)
        return tot.as_long() if z3.is_int_value(tot) else SInt(tot)
    I.models[np.array] = m_array
    I.models[np.count_nonzero] = m_count_nonzero
    I.models[np.where] = m_where
    I.models[np.prod] = m_prod


def prod(ts):
    out = z3.IntVal(1)
    for t in ts:
        out = out * t
    return out


def reshape_semantics(s, r, allowzero):
    """s: list of z3 Int terms (target), r: list of z3 Int terms (input dims) -> (valid: z3 Bool, outputs: list of terms).
    allowzero: python bool."""
    valid = []
    minus = [z3.simplify(x == -1) for x in s]
    n_minus = z3.Sum([z3.If(m, 1, 0) for m in minus]) if minus else z3.IntVal(0)
    valid.append(n_minus <= 1)
    fixed = []
    for i, x in enumerate(s):
        if allowzero:
            fixed.append(x)
            valid.append(z3.Or(x >= 0, x == -1))
        else:
            if i < len(r):
                fixed.append(z3.If(x == 0, r[i], x))
            else:
                fixed.append(x)
                valid.append(x != 0)
            valid.append(z3.Or(x >= 0, x == -1))
    total = prod(r)
    others = prod([z3.If(minus[i], z3.IntVal(1), fixed[i]) for i in range(len(s))])
    if allowzero:
        # a 0 and a -1 together are rejected
        valid.append(z3.Or(n_minus == 0, z3.And(*[x != 0 for x in s])))
    has_minus = n_minus == 1
    q = total / others  # z3 integer division; only meaningful under the side conditions below
    valid.append(z3.Implies(has_minus, z3.And(others != 0, total % others == 0)))
    valid.append(z3.Implies(z3.Not(has_minus), others == total))
    outs = [z3.If(minus[i], q, fixed[i]) for i in range(len(s))]
    return z3.And(*valid), outs, q


KINDS = [0, 2, 3, "N", "unknown"]


def pick_dims(ctx, W, tag, max_rank=3, min_rank=0, kinds=None):
    kinds = kinds or KINDS
    rank = min_rank + ctx.choose(max_rank - min_rank + 1, f"rank of {tag}")
    static, rt = [], []
    for i in range(rank):
        k = kinds[ctx.choose(len(kinds), f"{tag}[{i}]")]
        if isinstance(k, int):
            static.append(k)
            rt.append(z3.IntVal(k))
        elif k == "N":
            s, t = W.dim(f"{tag}_N{i}", f"{tag}{i}")
            static.append(s)
            rt.append(t)
        else:
            s, t = W.dim("unknown", f"{tag}{i}")
            static.append(s)
            rt.append(t)
    return static, rt


def s_flatten_to_reshape(ctx):
    """Flatten2Reshape: Flatten(x, axis) -> Reshape(x, const).  Post: whenever the rule fires, for EVERY binding of the
    symbolic dims of x (0 included) Reshape(x, const) is valid and yields (prod(r[:axis]), prod(r[axis:]))."""
    import onnx_ir as ir
    from onnxscript.rewriter.rules.common import _basic_rules
    I = Interp(ctx)
    W = World(I)
    install_numpy(I)
    shape_known = ctx.choose(2, "shape of x unknown") == 0
    if shape_known:
        static, rt = pick_dims(ctx, W, "x")
    else:
        static, rt = None, [ctx.int(f"rt_x{i}") for i in range(ctx.choose(4, "runtime rank of x"))]
        for t in rt:
            ctx.assume(t >= 0)
    k = len(rt)
    axis = ctx.choose(2 * 3 + 2, "axis") - 3  # -3..4 (an axis outside [-k, k] makes the ORIGINAL invalid: nothing to preserve)
    has_axis = axis != 1 or ctx.choose(2, "axis attribute present") == 0
    if not (-k <= axis <= k):
        ctx.cover("axis outside the rank: the original model is invalid")
        return
    a = axis + k if axis < 0 else axis
    x = W.value("x", dims=static, rt=rt, dtype=ir.DataType.FLOAT)
    node = W.node("Flatten", [x], attrs=({"axis": axis} if has_axis else {}))
    out_known = ctx.choose(2, "output shape annotated") == 1
    P_t, Q_t = z3.simplify(prod(rt[:a])), z3.simplify(prod(rt[a:]))
    out_static = None
    if out_known:
        def st(ds, t):
            if static is not None and all(isinstance(d, int) for d in ds):
                return z3.simplify(t).as_long()
            return ir.SymbolicDim(None)
        out_static = [st(static[:a] if static is not None else [None], P_t), st(static[a:] if static is not None else [None], Q_t)]
    out = W.value("out", dims=out_static, rt=[P_t, Q_t], dtype=ir.DataType.FLOAT)
    context = SObj(object, "context")
    context.fields.update(root=node, output_values=[out], nodes=[node])
    rule = SObj(_basic_rules.Flatten2Reshape, "rule")
    fired = I.truth(I.call(I.getattr(rule, "check"), [context, x]))
    if not fired:
        ctx.cover("Flatten2Reshape.check_failed")
        return
    made = []

    def m_tensor(interp, arr, name=None, **kw):
        made.append(arr)
        return ("tensor", len(made))
    I.models[ir.Tensor] = m_tensor
    r = I.call(I.getattr(rule, "rewrite"), [OpRecorder(), x])
    ok = isinstance(r, Call) and r.op == "Reshape" and len(r.args) == 2 and r.args[0] is x and isinstance(r.args[1], Call) and r.args[1].op == "initializer" \
        and len(made) == 1 and isinstance(made[0], NArr) and len(made[0].items) == 2 and set(r.kwargs) <= {"allowzero"}
    ctx.check("C05.rules.Flatten2Reshape.replacement_is_reshape_of_x_by_a_two_element_constant", ok, CL05)
    if not ok:
        return
    allowzero = bool(r.kwargs.get("allowzero", 0))
    s = [_t(v) for v in made[0].items]
    valid, outs, _q = reshape_semantics(s, rt, allowzero)
    ctx.witness.update({f"r{i}": t for i, t in enumerate(rt) if not z3.is_int_value(t)})
    items = [z3.simplify(t) for t in s]
    if static is not None and any(isinstance(d, int) and d == 0 for d in static):
        cat = "x has a static dim 0"
    elif z3.is_int_value(items[0]) and z3.is_int_value(items[1]) and (items[0].as_long(), items[1].as_long()) == (0, -1):
        cat = "target [0, -1]: first dim copied, second inferred"
    else:
        cat = "other targets"
    ctx.note(f"case: x{static} axis={axis} out={out_static} const={made[0].items}")
    ctx.check(f"C09.rules.Flatten2Reshape.reshape_is_valid_for_every_binding_of_the_dims[{cat}]", valid, CL09)
    ctx.check(f"C09.rules.Flatten2Reshape.reshape_yields_the_flattened_shape_for_every_binding[{cat}]", z3.Implies(valid, z3.And(outs[0] == P_t, outs[1] == Q_t)), CL09)


SCENARIOS.append(Scenario("C09.rules.Flatten2Reshape", s_flatten_to_reshape, [(BASIC, "Flatten2Reshape.check"), (BASIC, "Flatten2Reshape.rewrite")],
                          kind="bounded", bound="rank of x <= 3, static dims in {0, 2, 3}; named and unknown dims unbounded", trusted=TRUST, max_paths=60000))


def s_reshape_reshape(ctx):
    """ReshapeReshape: Reshape(Reshape(x, s1), s2) -> Reshape(x, const, allowzero).
    Post: when the rule fires, for EVERY binding of the dims on which the ORIGINAL pair of reshapes executes, the single
    Reshape is valid and yields the same output shape (the element order of a Reshape chain does not depend on the
    intermediate shape).  In the original the 0 entries of s2 copy dims of the INTERMEDIATE tensor (allowzero=0); in the
    rewritten node they would copy dims of x - so they must have been resolved."""
    import onnx_ir as ir
    from onnxscript.rewriter.rules.common import _basic_rules
    from onnxscript.rewriter import _ir_utils
    I = Interp(ctx)
    W = World(I)
    install_numpy(I)
    xs, xrt = pick_dims(ctx, W, "x", max_rank=2, kinds=[3, "N"])
    ms, mrt = pick_dims(ctx, W, "mid", max_rank=2, kinds=[0, 2, "N"])     # runtime shape of the intermediate Reshape(x, s1)
    for t in xrt + mrt:
        if not z3.is_int_value(t):
            # products of several symbolic dims are nonlinear: named dims range over the property's own binding set
            ctx.assume(z3.Or(*[t == v for v in (0, 1, 2, 3, 7)]))
    ctx.assume(prod(xrt) == prod(mrt))                 # the first reshape executed
    n = 1 + ctx.choose(2, "length of the second target")
    items = []
    for i in range(n):
        k = ["positive", "0", "-1"][ctx.choose(3, f"s2[{i}]")]
        if k == "positive":
            t = ctx.int(f"s2_{i}")
            ctx.assume(t > 0)
            ctx.witness[f"s2_{i}"] = t
            items.append(SInt(t))
        else:
            items.append(0 if k == "0" else -1)
    az_orig = 2 * ctx.choose(2, "allowzero of the second Reshape: absent / 1")
    allowzero_orig = az_orig == 2
    s2 = [_t(v) for v in items]
    valid0, outs0, _ = reshape_semantics(s2, mrt, allowzero_orig)
    ctx.assume(valid0)                                  # the original executes
    x = W.value("x", dims=xs, rt=xrt, dtype=ir.DataType.FLOAT)
    const_known = True if any(isinstance(d, int) for d in xs) else ctx.choose(2, "second target is a constant") == 0
    shape2 = W.value("shape", dims=[n], rt=[], dtype=ir.DataType.INT64, const=(W.tensor(items, ir.DataType.INT64) if const_known else None), initializer=const_known)
    I.models[_ir_utils.get_numpy_value] = lambda interp, v, *a, **k: (v.fields["const_value"].arr if isinstance(v, SObj) and v.fields.get("const_value") is not None else None)
    # the annotated output shape (sound: what shape inference can know): per dim static int (when the runtime value is a literal), or unknown
    out_known = ctx.choose(2, "output shape annotated") == 1
    out_static = None
    if out_known:
        out_static = []
        for i, t in enumerate(outs0):
            ts = z3.simplify(t)
            if z3.is_int_value(ts):
                out_static.append(ts.as_long())
            else:
                out_static.append(ir.SymbolicDim(None))
    out = W.value("out", dims=out_static, rt=outs0, dtype=ir.DataType.FLOAT)
    out.fields["name"] = "out"
    node2 = W.node("Reshape", [W.value("mid_value"), shape2], outputs=[out], attrs=({} if az_orig == 0 else {"allowzero": az_orig - 1}))
    context = SObj(object, "context")
    context.fields.update(root=node2, nodes=[node2, W.node("Reshape", [x, W.value("shape_ignored")])], output_values=[out])
    rule = SObj(_basic_rules.ReshapeReshape, "rule")
    try:
        fired = I.truth(I.call(I.getattr(rule, "check"), [context, x, W.value("shape_ignored"), shape2]))
    except PyRaise as e:
        ctx.check("C04.rules.ReshapeReshape.check_never_raises", False, f"C04 — raised {e.exc!r}")
        return
    if not fired:
        ctx.cover("ReshapeReshape.check_failed")
        return
    ctx.check("C09.rules.ReshapeReshape.fires_only_for_a_constant_target", const_known, CL09)
    made = []

    def m_tensor(interp, arr, name=None, **kw):
        made.append(arr)
        return ("tensor", len(made))
    I.models[ir.Tensor] = m_tensor
    r = I.call(I.getattr(rule, "rewrite"), [OpRecorder(), x, W.value("shape_ignored"), shape2])
    ok = isinstance(r, Call) and r.op == "Reshape" and len(r.args) == 2 and r.args[0] is x and isinstance(r.args[1], Call) and r.args[1].op == "initializer" \
        and len(made) == 1 and isinstance(made[0], NArr) and set(r.kwargs) <= {"allowzero"}
    ctx.check("C05.rules.ReshapeReshape.replacement_is_one_reshape_of_x_by_a_constant", ok, CL05)
    if not ok:
        return
    az = r.kwargs.get("allowzero", None)
    allowzero_new = (az == 1)
    s = [_t(v) for v in made[0].items]
    ctx.check("C09.rules.ReshapeReshape.new_target_has_the_length_of_the_old_one", len(s) == n, CL09)
    if len(s) != n:
        return
    valid, outs, _q = reshape_semantics(s, xrt, allowzero_new)
    ctx.note(f"case: x{xs} mid{ms} s2={items} allowzero={az_orig} out={out_static} -> const={made[0].items} allowzero={az}")
    ctx.check("C09.rules.ReshapeReshape.single_reshape_is_valid_for_every_binding_on_which_the_pair_executes", valid, CL09)
    ctx.check("C09.rules.ReshapeReshape.single_reshape_yields_the_shape_of_the_pair_for_every_binding",
              z3.Implies(valid, z3.And(*[a == b for a, b in zip(outs, outs0)])), CL09)


SCENARIOS.append(Scenario("C09.rules.ReshapeReshape", s_reshape_reshape, [(BASIC, "ReshapeReshape.check"), (BASIC, "ReshapeReshape.rewrite")],
                          kind="bounded", bound="ranks of x and of the intermediate <= 2, target length <= 2, static dims of x in {3}, of the intermediate in {0, 2}; named dims bound to {0,1,2,3,7} (the property's binding set); target values unbounded",
                          trusted=TRUST, max_paths=80000))
