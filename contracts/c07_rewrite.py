"""C07 — applying a rewrite replaces only the match.

Path contracts on onnxscript/rewriter/_rewrite_rule.py with rules, matches and replacement subgraphs
abstracted (a rule either does not apply or yields a replacement — both explored):

  RewriteRuleSet._apply_to_graph_or_function
      per node at most one rule fires (the first applicable one); the one call that changes the graph is
      replace_nodes_and_values(container, node, match.nodes if remove_nodes else [], new_nodes, match.outputs,
      new_outputs); count = number of replacements; new initializers are registered before the replacement
      (never for functions) and never replace a different existing initializer of the same name;
      the rule-name tag goes on new nodes only; pre/post visitors run once per container; every graph-valued
      attribute of every node is visited
  RewriteRuleSet.apply_to_model   original functions only; DCE iff some rule keeps nodes; NameFix iff count > 0
  RewriteRule.try_rewrite         replacement arity = pattern outputs; opset imports of container and main graph updated
  _update_opset_imports           every used domain imported; a conflicting version raises
Assumed (onnx_ir): replace_nodes_and_values / replace_all_uses_with do what their documentation says.
"""
from __future__ import annotations

import z3

from pyvc.harness import Scenario
from pyvc.interp import Interp, PyRaise
from pyvc.values import SObj, SStr, SInt, Opaque, term, wrap
from .c10_version import GraphLike

REL = "onnxscript/rewriter/_rewrite_rule.py"
CL = "C07: 'exactly the matched nodes are removed (none if the rule keeps nodes), the replacement's outputs take over every use of the matched outputs ... and all other nodes, values, graph input/output names and metadata are untouched'"
CL_INIT = "C07: 'the initializers, opset imports and functions the replacement needs are added, and all other nodes, values ... are untouched'"


def _rr():
    from onnxscript.rewriter import _rewrite_rule
    return _rewrite_rule


class Tok:
    def __init__(self, name):
        self.name = name
        self.metadata_props = {}
        self.attributes = {}

    def __repr__(self):
        return f"<{self.name}>"


def s_apply(ctx, container_is_function=False):
    import onnx_ir as ir
    import onnx_ir.convenience as convenience
    import onnxscript.optimizer
    rr = _rr()
    I = Interp(ctx)
    events = []
    n_nodes = 2
    nodes = []
    sub = GraphLike([], {})
    sub.initializers = {}
    for i in range(n_nodes):
        n = SObj(ir.Node, f"node{i}")
        attrs = {}
        if i == 1:
            a = SObj(ir.Attr, "graphattr")
            a.fields.update(type=ir.AttributeType.GRAPH, value=sub)
            attrs["body"] = a
        n.fields.update(attributes=attrs, metadata_props={}, name=f"node{i}")
        nodes.append(n)
    container = GraphLike(list(nodes), {})
    existing = Tok("existing_init")
    container.initializers = {"w": existing}
    # names an earlier pass / the model author may already have taken (the renaming must probe, not guess)
    taken = {}
    for nm in ("w_0", "w_1", "w_2"):
        if ctx.choose(2, f"an initializer named {nm} exists") == 1:
            taken[nm] = Tok("existing_" + nm)
    container.initializers.update(taken)
    before_inits = dict(container.initializers)
    if container_is_function:
        container_cls = ir.Function
    model = SObj(ir.Model, "model")
    model.fields.update(graph=container, functions={})
    # the graph being rewritten need not be the model's main graph (a control-flow body inside a model-local function is
    # rewritten with the function as root: the main graph is not an enclosing scope of it)
    main = container
    if not container_is_function and ctx.choose(2, "the graph being rewritten is not the model's main graph") == 1:
        main = GraphLike([], {})
        main.initializers = {}
        main.opset_imports = {"": 18}
        model.fields["graph"] = main
    rules = []
    fired = []
    for r_i in range(2):
        rule = SObj(rr.RewriteRule, f"rule{r_i}")
        remove_nodes = ctx.choose(2, f"rule{r_i} removes nodes") == 0

        def mk_try(rule=rule, r_i=r_i):
            def try_rewrite(*a, **k):
                raise AssertionError

            def model_try(interp, m, g, node, verbose=None, tracer=None):
                if not (isinstance(node, SObj) and node in nodes and g is container):
                    return None  # subgraph nodes / replacement nodes: no further matches in this driver
                if ctx.choose(2, f"rule{r_i} applies to {node.fields['name']}") == 1:
                    return None
                delta = SObj(rr.ReplacementSubgraph, "delta")
                match = SObj(object, "match")
                match.fields.update(nodes=[node], outputs=[Tok("old_out")])
                new_nodes = [Tok(f"new{r_i}a"), Tok(f"new{r_i}b")]
                inits = []
                if ctx.choose(2, "replacement has a new initializer") == 1:
                    t = Tok("new_init")
                    t.name = "w" if ctx.choose(2, "initializer name clashes with an existing one") == 1 else "fresh_w"
                    inits.append(t)
                    # a replacement may bring several initializers, and a rule author may reuse one name for two of them
                    if r_i == 0 and ctx.choose(2, "replacement has a second new initializer") == 1:
                        t2 = Tok("new_init2")
                        t2.name = t.name if ctx.choose(2, "the second one has the name of the first") == 1 else "other_w"
                        inits.append(t2)
                delta.fields.update(match=match, new_nodes=new_nodes, new_outputs=[Tok("new_out")], new_initializers=inits)
                fired.append((rule, node, delta))
                return delta
            interp_models[try_rewrite] = model_try
            return try_rewrite
        interp_models = I.models
        visits = {"pre": 0, "post": 0}

        def pre():
            raise AssertionError

        def post():
            raise AssertionError
        I.models[pre] = lambda interp, r_i=r_i: events.append(("pre", r_i))
        I.models[post] = lambda interp, r_i=r_i: events.append(("post", r_i))
        rule.fields.update(try_rewrite=mk_try(), remove_nodes=remove_nodes, as_function=False, name=f"rule{r_i}",
                           graph_pre_visitor=pre, graph_post_visitor=post)
        rules.append(rule)
    rs = SObj(rr.RewriteRuleSet, "ruleset")
    rs.fields.update(rules=rules, remove_unused_nodes=any(not r.fields["remove_nodes"] for r in rules))
    replaced = []

    def m_replace(interp, root, insertion_point, old_nodes, new_nodes, old_values, new_values):
        events.append(("replace", root, insertion_point, list(old_nodes), list(new_nodes), list(old_values), list(new_values),
                       dict(root.initializers)))
        for o in old_nodes:
            root.replace(o, new_nodes)
    I.models[convenience.replace_nodes_and_values] = m_replace
    I.models[rr.convenience.replace_nodes_and_values] = m_replace
    I.models[onnxscript.optimizer.basic_constant_propagation] = lambda interp, ns: events.append(("constprop", list(ns) if isinstance(ns, list) else ns))
    I.models[rr._default_metadata_merger.copy_merged_metadata] = lambda interp, a, b: None
    if container_is_function:
        # isinstance(graph_or_function, ir.Function) must hold for the container
        orig_isinstance = I.models[isinstance]

        def m_isinstance(interp, v, cls):
            if v is container and cls is ir.Function:
                return True
            return orig_isinstance(interp, v, cls)
        I.models[isinstance] = m_isinstance
    clo = I.closure_of(rr.RewriteRuleSet._apply_to_graph_or_function)
    count = I.run_closure(clo, [rs, model, container], {"verbose": None})
    repl = [e for e in events if e[0] == "replace"]
    # a firing whose new initializers could not be added to a function is skipped: no replacement for it
    effective = [f for f in fired if not (container_is_function and f[2].fields["new_initializers"])]
    ctx.check("C07.apply.count_is_number_of_replacements", count == len(repl) == len(effective), CL)
    per_node = {}
    for rule, node, delta in fired:
        per_node.setdefault(id(node), []).append(rule)
    ctx.check("C07.apply.at_most_one_effective_rule_per_node", len({id(f[1]) for f in effective}) == len(effective), CL)
    for (rule, node, delta), e in zip(effective, repl):
        _, root, ip, old_nodes, new_nodes, old_vals, new_vals, inits_then = e
        want_old = delta.fields["match"].fields["nodes"] if rule.fields["remove_nodes"] else []
        ctx.check("C07.apply.replacement_removes_exactly_the_match_or_nothing",
                  root is container and ip is node and old_nodes == list(want_old), CL)
        ctx.check("C07.apply.replacement_inserts_the_new_nodes_and_rewires_the_matched_outputs",
                  new_nodes == delta.fields["new_nodes"] and old_vals == delta.fields["match"].fields["outputs"]
                  and new_vals == delta.fields["new_outputs"], CL)
        for t in delta.fields["new_initializers"]:
            ctx.check("C07.apply.new_initializer_registered_before_the_replacement", inits_then.get(t.name) is t, CL_INIT)
        ctx.check("C07.apply.rule_name_tag_on_new_nodes_only",
                  all(n.metadata_props.get(rr.RULE_NAME_TAG) == rule.fields["name"] for n in delta.fields["new_nodes"])
                  and all(rr.RULE_NAME_TAG not in n.fields["metadata_props"] for n in nodes), CL)
    ctx.check("C07.apply.existing_initializer_with_the_same_name_is_not_replaced",
              all(container.initializers.get(k) is v for k, v in before_inits.items()), CL_INIT)
    if main is not container:
        ctx.check("C07.apply.initializers_of_another_graph_are_left_alone", main.initializers == {},
                  CL_INIT + " — an initializer registered in the main graph is out of scope inside a function body")
    if container_is_function:
        ctx.check("C07.apply.no_initializers_added_to_functions", set(container.initializers) == set(before_inits), CL_INIT)
    # each (container) gets every rule's pre and post visitor once: main container + the subgraph
    n_containers = 2
    ctx.check("C07.apply.visitors_called_once_per_container_and_rule",
              sorted(e for e in events if e[0] in ("pre", "post")) == sorted([("pre", 0), ("pre", 1), ("post", 0), ("post", 1)] * n_containers), CL)


def s_apply_to_model(ctx):
    import onnx_ir as ir
    import onnxscript.optimizer
    rr = _rr()
    I = Interp(ctx)
    events = []
    rs = SObj(rr.RewriteRuleSet, "ruleset")
    keeps = ctx.choose(2, "some rule keeps nodes") == 1
    rs.fields.update(rules=[], remove_unused_nodes=keeps)
    f0 = Tok("function0")
    graph = Tok("graph")
    model = SObj(ir.Model, "model")
    funcs = {"f0": f0}
    model.fields.update(graph=graph, functions=funcs)
    counts = {"graph": ctx.choose(2, "rewrites in graph"), "f0": ctx.choose(2, "rewrites in function")}

    def m_apply(interp, self, m, g, verbose=None, tracer=None):
        events.append(("apply", g))
        if g is graph:
            funcs["new_function"] = Tok("introduced_by_rewrite")
            return counts["graph"]
        return counts["f0"] if g is f0 else 0
    I.models[rr.RewriteRuleSet._apply_to_graph_or_function] = m_apply
    I.models[onnxscript.optimizer.basic_constant_propagation] = lambda interp, g: events.append(("constprop", g))
    I.models[onnxscript.optimizer.remove_unused_nodes] = lambda interp, m: events.append(("dce", m))
    I.instance_models = [(ir.passes.PassBase, lambda interp, p, m: events.append(("pass", type(p).__name__, m)))]
    I.models[isinstance] = (lambda orig: lambda interp, v, cls: True if (v is model and cls is ir.Model) else orig(interp, v, cls))(I.models[isinstance])
    clo = I.closure_of(rr.RewriteRuleSet.apply_to_model)
    total = I.run_closure(clo, [rs, model], {})
    applied = [e[1] for e in events if e[0] == "apply"]
    ctx.check("C07.apply_to_model.main_graph_then_original_functions_only", applied == [graph, f0], CL)
    ctx.check("C07.apply_to_model.count_is_sum", total == counts["graph"] + counts["f0"], CL)
    ctx.check("C07.apply_to_model.dce_iff_some_rule_keeps_nodes", (("dce", model) in events) == keeps, CL)
    ctx.check("C07.apply_to_model.namefix_iff_something_was_rewritten", (("pass", "NameFixPass", model) in events) == (total > 0),
              "C07: 'leaves a valid ... graph' — inserted values must get unique names")


def s_update_opset_imports(ctx):
    rr = _rr()
    I = Interp(ctx)
    have = ctx.choose(2, "domain already imported") == 0
    v_have = ctx.int("imported_version")
    v_new = ctx.int("used_version")
    none_version = ctx.choose(2, "used version unspecified") == 1
    imports = {"custom": wrap(v_have)} if have else {}
    g = SObj(object, "graph")
    g.fields["opset_imports"] = imports
    delta = SObj(object, "delta")
    delta.fields["used_opsets"] = [("custom", None if none_version else wrap(v_new))]
    clo = I.closure_of(rr._update_opset_imports)
    try:
        I.run_closure(clo, [g, delta], {})
    except PyRaise as e:
        ctx.check("C07.update_opset_imports.raises_only_on_version_conflict",
                  z3.And(z3.BoolVal(have and not none_version), v_have != v_new) if True else False,
                  "C07/C04: 'every domain used has an opset import' with a single version")
        return
    ctx.check("C07.update_opset_imports.used_domain_is_imported", "custom" in imports, "C04: 'every domain used has an opset import'")
    if "custom" not in imports:
        return
    if have:
        ctx.check("C07.update_opset_imports.existing_import_kept", term(imports["custom"]) == v_have, CL)
        if not none_version:
            ctx.check("C07.update_opset_imports.no_conflict_accepted", v_have == v_new, CL)
    else:
        ctx.check("C07.update_opset_imports.new_import_uses_given_version_or_1",
                  term(imports["custom"]) == (z3.IntVal(1) if none_version else v_new), CL)


def s_try_rewrite(ctx):
    import onnx_ir as ir
    rr = _rr()
    I = Interp(ctx)
    rule = SObj(rr.RewriteRule, "rule")
    matched = ctx.choose(2, "pattern matches") == 0
    n_pat = 1 + ctx.choose(2, "pattern outputs")
    n_rep = ctx.choose(4, "replacement outputs (0 = replacement function declines)")
    calls = []

    def f_match(*a, **k):
        raise AssertionError
    match = Tok("match")

    class M:
        def __init__(self, ok):
            self.ok = ok

        def __bool__(self):
            return self.ok
    mobj = M(matched)
    I.models[f_match] = lambda interp, *a, **k: (calls.append(("match", k.get("check_nodes_are_removable"))) or mobj)
    rep = SObj(object, "replacement_pattern")

    def f_get(m):
        raise AssertionError
    delta = SObj(rr.ReplacementSubgraph, "delta")
    delta.fields.update(new_outputs=[Tok(f"o{i}") for i in range(n_rep)], used_opsets=[("", 18)])
    I.models[f_get] = lambda interp, m: (delta if n_rep > 0 else None)
    rep.fields["get_replacement"] = f_get
    tp = SObj(object, "target_pattern")
    tp.fields["num_outputs"] = n_pat
    remove_nodes = ctx.choose(2, "remove_nodes") == 0
    rule.fields.update(match=f_match, _replacement_pattern=rep, _target_pattern=tp, remove_nodes=remove_nodes)
    kind = ["main graph", "function", "subgraph of a control-flow node"][ctx.choose(3, "container")]
    main = SObj(ir.Graph, "maingraph")
    container = main if kind == "main graph" else SObj(ir.Function if kind == "function" else ir.Graph, "container")
    container.fields["opset_imports"] = {}
    main.fields["opset_imports"] = {}
    model = SObj(ir.Model, "model")
    model.fields["graph"] = main
    clo = I.closure_of(rr.RewriteRule.try_rewrite)
    try:
        r = I.run_closure(clo, [rule, model, container, Tok("node")], {})
    except PyRaise as e:
        ctx.check("C07.try_rewrite.raises_only_on_output_arity_mismatch", matched and n_rep > 0 and n_rep != n_pat and isinstance(e.exc, ValueError), CL)
        return
    ctx.check("C07.try_rewrite.matcher_told_whether_nodes_will_be_removed", calls == [("match", remove_nodes)],
              "C06/C07: intermediate values may be used outside the match only if the rule keeps the nodes")
    if not matched or n_rep == 0:
        ctx.check("C07.try_rewrite.no_replacement_without_match_or_replacement", r is None, CL)
        return
    ctx.check("C07.try_rewrite.replacement_arity_equals_pattern_outputs", r is delta and n_rep == n_pat, CL)
    ctx.check("C07.try_rewrite.opset_imports_updated_for_container_and_main_graph",
              container.fields["opset_imports"] == {"": 18} and main.fields["opset_imports"] == {"": 18}, CL_INIT)


def _mk(fn, *a):
    def run(ctx):
        return fn(ctx, *a)
    return run


F = lambda *q: [(REL, x) for x in q]
SCENARIOS = [
    Scenario("C07.apply_to_graph", _mk(s_apply, False), F("RewriteRuleSet._apply_to_graph_or_function"), kind="bounded",
             bound="container with 2 nodes (one carrying a subgraph attribute), 2 rules, each rule applies or not per node, replacement with 2 nodes and 0-2 new initializers (fresh or clashing names, the second possibly named like the first)",
             trusted=["ir.convenience.replace_nodes_and_values (onnx_ir): removes exactly old_nodes, inserts new_nodes at the insertion point, redirects every use of old_values (incl. graph outputs and uses in nested subgraphs) to new_values"],
             max_paths=60000),
    Scenario("C07.apply_to_function", _mk(s_apply, True), F("RewriteRuleSet._apply_to_graph_or_function"), kind="bounded",
             bound="same driver with an ir.Function container", max_paths=60000),
    Scenario("C07.apply_to_model", s_apply_to_model, F("RewriteRuleSet.apply_to_model")),
    Scenario("C07.update_opset_imports", s_update_opset_imports, F("_update_opset_imports")),
    Scenario("C07.try_rewrite", s_try_rewrite, F("RewriteRule.try_rewrite")),
]


# ------------------------------------------------------------------ as_function: overload names, commute ---

class FnTable:
    """model.functions seen through `key in functions`: the set of overload names taken for (domain, name)"""

    def __contains__(self, key):
        raise AssertionError


def s_get_new_overload(ctx):
    """_get_new_overload: the returned overload is not taken, for ANY set of existing overloads (unbounded: loop
    invariant `overload >= 1`; the loop exits only through the membership test)."""
    from pyvc.interp import LoopSpec
    from pyvc.values import SSet, SBool, StrSort
    rr = _rr()
    used = ctx.const("taken_overloads", z3.SetSort(StrSort))

    def inv(interp, env, k, pre, it):
        return [("overload_positive", term(env.lookup("overload")) >= 1)]
    loops = {("_get_new_overload", 0): LoopSpec({"overload": lambda I: SInt(I.ctx.int("overload")),
                                                 "overload_name": lambda I: SStr(I.ctx.const("overload_name", StrSort))}, inv)}
    I = Interp(ctx, loops=loops)
    asked = []

    def m_contains(interp, slf, key):
        ok = isinstance(key, tuple) and len(key) == 3 and key[0] == "some.domain" and key[1] == "Fn"
        asked.append(ok)
        return SBool(z3.IsMember(term(key[2]), used)) if ok else False
    I.models[FnTable.__contains__] = m_contains
    model = SObj(object, "model")
    model.fields["functions"] = SObj(FnTable, "functions")
    r = I.run_closure(I.closure_of(rr._get_new_overload), [model, "some.domain", "Fn"], {})
    ctx.check("C07.as_function.new_overload_is_not_taken", z3.Not(z3.IsMember(term(r), used)) if isinstance(r, (str, SStr)) else False,
              "C07: 'the functions the replacement needs are added, and all other ... are untouched' — an existing function is never replaced")
    ctx.check("C07.as_function.new_overload_probes_the_identifier_of_this_function", all(asked) and len(asked) >= 1, CL_INIT)


def s_commute(ctx):
    """RewriteRule.commute(): every commuted copy is the same rule on another pattern — same replacement, condition,
    matcher class, name and flags (remove_nodes, as_function, visitors)."""
    import onnx_ir as ir
    rr = _rr()
    I = Interp(ctx)
    rule = SObj(rr.RewriteRule, "rule")
    pats = [Tok("p0"), Tok("p1")]
    tp = SObj(object, "target_pattern")

    def f_commute():
        raise AssertionError
    I.models[f_commute] = lambda interp: list(pats)
    tp.fields["commute"] = f_commute

    class Matcher:
        def __init__(self, pattern):
            self.pattern = pattern
    as_function = ctx.choose(2, "as_function") == 1
    remove_nodes = ctx.choose(2, "remove_nodes") == 1
    fields = dict(_target_pattern=tp, _replacement_pattern=Tok("replacement"), _condition_function=Tok("condition"), _matcher=Matcher(Tok("orig")),
                  _verbose=0, name="rule-name", remove_nodes=remove_nodes, graph_pre_visitor=Tok("pre"), graph_post_visitor=Tok("post"),
                  as_function=as_function)
    rule.fields.update(fields)
    made = []

    def m_rule(interp, *a, **k):
        made.append((a, k))
        return Tok(f"copy{len(made)}")
    I.models[rr.RewriteRule] = m_rule
    r = I.run_closure(I.closure_of(rr.RewriteRule.commute), [rule], {})
    import inspect
    params = list(inspect.signature(rr.RewriteRule.__init__).parameters)[1:]
    ok = len(made) == 2 and isinstance(r, list) and len(r) == 2
    ctx.check("C06.commute.one_copy_per_commuted_pattern", ok, "C06: 'commute=True generates the operand-swapped variants'")
    if not ok:
        return
    for (a, k), p in zip(made, pats):
        bound = dict(zip(params, a))
        bound.update(k)
        want = {"target_pattern": p, "replacement_pattern": fields["_replacement_pattern"], "condition_function": fields["_condition_function"],
                "verbose": 0, "name": "rule-name", "remove_nodes": remove_nodes, "graph_pre_visitor": fields["graph_pre_visitor"],
                "graph_post_visitor": fields["graph_post_visitor"], "as_function": as_function}
        got = {k2: bound.get(k2, inspect.signature(rr.RewriteRule.__init__).parameters[k2].default) for k2 in want}
        ctx.check("C07.commute.copy_keeps_every_setting_of_the_rule", all(got[k2] is want[k2] or got[k2] == want[k2] for k2 in want),
                  "C07: a rule applied with commute=True behaves like the rule on each operand order (as_function, remove_nodes, visitors, name)")
        m = bound.get("matcher")
        ctx.check("C06.commute.copy_gets_a_matcher_of_the_same_class_on_the_new_pattern", isinstance(m, Matcher) and m.pattern is p,
                  "C06: commuted variants are matched by the same matcher")


SCENARIOS += [
    Scenario("C07.as_function.get_new_overload", s_get_new_overload, F("_get_new_overload")),
    Scenario("C07.commute", s_commute, F("RewriteRule.commute", "RewriteRule.commute.replace_pattern")),
]


def s_get_new_overload_tables(ctx):
    """The same contract on concrete function tables (any implementation that inspects the table — membership,
    iteration, counting — can be executed): every subset of the overloads 1..3 of this function, plus unrelated
    functions with the same name in another domain / another name in the same domain."""
    import onnx_ir as ir
    rr = _rr()
    I = Interp(ctx)
    table = {}

    def add(domain, name, overload):
        f = SObj(ir.Function, f"fn_{domain}_{name}_{overload}")
        f.fields.update(domain=domain, name=name, overload=overload)

        def ident():
            raise AssertionError
        I.models[ident] = lambda interp: (domain, name, overload)
        f.fields["identifier"] = ident
        table[(domain, name, overload)] = f
    for ov in ("1", "2", "3"):
        if ctx.choose(2, f"overload {ov} of this function exists") == 1:
            add("some.domain", "Fn", ov)
    if ctx.choose(2, "a function of the same name exists in another domain") == 1:
        add("other.domain", "Fn", "1")
    if ctx.choose(2, "another function exists in the same domain") == 1:
        add("some.domain", "Other", "1")
    if ctx.choose(2, "an overload without a number exists") == 1:
        add("some.domain", "Fn", "")
    model = SObj(ir.Model, "model")
    model.fields["functions"] = table
    before = dict(table)
    r = I.run_closure(I.closure_of(rr._get_new_overload), [model, "some.domain", "Fn"], {})
    ctx.check("C07.as_function.new_overload_is_not_taken", isinstance(r, str) and ("some.domain", "Fn", r) not in before,
              "C07: 'the functions the replacement needs are added, and all other ... are untouched' — an existing function is never replaced")
    ctx.check("C07.as_function.get_new_overload_does_not_modify_the_model", table == before, CL_INIT)


SCENARIOS.append(Scenario("C07.as_function.get_new_overload[tables]", s_get_new_overload_tables, F("_get_new_overload"), kind="bounded",
                          bound="function tables over overloads 1..3 of the function, an unnumbered overload and two unrelated functions (all 64 subsets)"))


def s_apply_as_function(ctx):
    """as_function=True: the matched nodes become the body of a new model-local function.  The function must import
    every operator domain its (copied) nodes use — also when the match sits in a control-flow subgraph, whose own
    import table is empty or partial — it is registered under a fresh (domain, name, overload), and the call node
    carries that overload."""
    import onnx_ir as ir
    import onnx_ir.convenience as convenience
    import onnxscript.optimizer
    from pyvc.values import SInt
    rr = _rr()
    I = Interp(ctx)
    kind = ["main graph", "function", "subgraph"][ctx.choose(3, "container")]
    v_main, v_cont, v_cust = ctx.int("v_main_default"), ctx.int("v_container_default"), ctx.int("v_custom")
    n0 = SObj(ir.Node, "matched0")
    n1 = SObj(ir.Node, "matched1")
    n0.fields.update(domain="", attributes={}, metadata_props={}, name="n0")
    n1.fields.update(domain="custom", attributes={}, metadata_props={}, name="n1")
    n2 = SObj(ir.Node, "matched2")
    n2.fields.update(domain="", attributes={}, metadata_props={}, name="n2")
    main = GraphLike([n0, n1, n2] if kind == "main graph" else [], {})
    main.opset_imports = {"": SInt(v_main), "custom": SInt(v_cust)}
    main.initializers = {}
    if kind == "main graph":
        container = main
    else:
        container = GraphLike([n0, n1, n2], {})
        container.initializers = {}
        # a function has its own complete import table; a subgraph has none of its own (only what an earlier rewrite added)
        container.opset_imports = {"": SInt(v_cont), "custom": SInt(v_cust)} if kind == "function" else \
            ({"new.domain": 1} if ctx.choose(2, "subgraph table holds only the replacement's domain") == 1 else {})
    model = SObj(ir.Model, "model")
    model.fields.update(graph=main, functions={})
    rule = SObj(rr.RewriteRule, "rule")
    call_node = SObj(ir.Node, "call_node")
    call_node.fields.update(domain="new.domain", op_type="Fused", overload="", inputs=[Tok("x")], metadata_props={}, attributes={})
    delta = SObj(rr.ReplacementSubgraph, "delta")
    match = SObj(object, "match")
    # the matcher records nodes depth-first from the root: neither graph order nor its reverse in general
    match.fields.update(nodes=[n2, n0, n1], outputs=[Tok("old_out")])
    delta.fields.update(match=match, new_nodes=[call_node], new_outputs=[Tok("new_out")], new_initializers=[])
    fired = []

    def try_rewrite(*a, **k):
        raise AssertionError

    def model_try(interp, m, g, node, verbose=None, tracer=None):
        if node is n2 and g is container and not fired:
            fired.append(node)
            return delta
        return None
    I.models[try_rewrite] = model_try
    rule.fields.update(try_rewrite=try_rewrite, remove_nodes=True, as_function=True, name="rule", graph_pre_visitor=None, graph_post_visitor=None)
    rs = SObj(rr.RewriteRuleSet, "ruleset")
    rs.fields.update(rules=[rule], remove_unused_nodes=False)
    copied = []

    def m_copy(interp, inputs, nodes, outputs):
        copied.append((list(inputs), list(nodes), list(outputs)))
        return [Tok("f_in")], [Tok("copy0"), Tok("copy1")], [Tok("f_out")]
    I.models[rr._copy_for_function] = m_copy
    I.models[rr._get_new_overload] = lambda interp, m, d, n: "7"
    graphs = []

    def m_graph(interp, inputs, outputs, nodes=(), opset_imports=None, **k):
        g = SObj(ir.Graph, "fn_graph")
        g.fields.update(inputs=inputs, outputs=outputs, nodes=list(nodes), opset_imports=dict(opset_imports or {}))
        graphs.append(g)
        return g
    I.models[ir.Graph] = m_graph
    fns = []

    def m_function(interp, domain, name, overload="", graph=None, attributes=()):
        f = SObj(ir.Function, "new_function")

        def ident():
            raise AssertionError
        interp.models[ident] = lambda i2: (domain, name, overload)
        f.fields.update(domain=domain, name=name, overload=overload, graph=graph, identifier=ident)
        fns.append(f)
        return f
    I.models[ir.Function] = m_function
    I.models[convenience.replace_nodes_and_values] = lambda interp, root, ip, old, new, ov, nv: [root.replace(o, new) for o in old] and None
    I.models[rr.convenience.replace_nodes_and_values] = I.models[convenience.replace_nodes_and_values]
    I.models[onnxscript.optimizer.basic_constant_propagation] = lambda interp, ns: None
    I.models[rr._default_metadata_merger.copy_merged_metadata] = lambda interp, a, b: None
    if kind == "function":
        orig_isinstance = I.models[isinstance]
        I.models[isinstance] = lambda interp, v, cls: (True if (v is container and cls is ir.Function) else orig_isinstance(interp, v, cls))
    try:
        I.run_closure(I.closure_of(rr.RewriteRuleSet._apply_to_graph_or_function), [rs, model, container], {"verbose": None})
    except PyRaise as e:
        ctx.check("C07.as_function.apply_never_raises", False, CL)
        return
    ok = len(fns) == 1 and len(graphs) == 1 and fns[0].fields["graph"] is graphs[0]
    ctx.check("C07.as_function.one_function_is_built_from_the_matched_nodes", ok and len(copied) == 1 and copied[0][1] == [n0, n1, n2],
              CL_INIT + " — the copied nodes are the matched nodes in graph order")
    if not ok:
        return
    f = fns[0]
    ctx.check("C07.as_function.function_registered_under_a_fresh_identifier_and_the_call_node_names_it",
              model.fields["functions"].get(("new.domain", "Fused", "7")) is f and call_node.fields["overload"] == "7" and f.fields["overload"] == "7", CL_INIT)
    imp = graphs[0].fields["opset_imports"]
    ctx.check("C07.as_function.function_imports_every_domain_its_nodes_use", "" in imp and "custom" in imp,
              "C07: 'the opset imports and functions the replacement needs are added' / C04: 'every domain used has an opset import' — a function without "
              "an import for the default domain is rejected by the checker")
    if "" in imp and "custom" in imp:
        want_default = v_cont if kind == "function" else v_main
        ctx.check("C07.as_function.function_uses_the_versions_in_force_where_the_nodes_were", z3.And(term(imp[""]) == want_default, term(imp["custom"]) == v_cust), CL_INIT)


        ctx.check("C07.as_function.import_table_is_listed_in_the_order_of_the_enclosing_tables_under_every_set_iteration_order",
                  list(imp) == ["", "custom"],
                  "C14: 'the same serialized result in every process - regardless of hash randomisation' — the function's opset_import entries are "
                  "serialized in table order; the engine explores every iteration order of every set")


SCENARIOS.append(Scenario("C07.as_function.apply", s_apply_as_function, F("RewriteRuleSet._apply_to_graph_or_function"),
                          trusted=["_copy_for_function copies the given nodes (its own contract is not stated)", "ir.Graph / ir.Function constructors (onnx_ir)"]))


def s_copy_for_function(ctx):
    """_copy_for_function(inputs, nodes, outputs): the function body is an isomorphic copy of the matched nodes that shares
    NO value with the enclosing graph — formal parameters stand for the call's operands, constants captured from outside
    are re-created as Constant nodes in front, every other outside value is an error — with the same operators,
    attributes and output names."""
    import onnx_ir as ir
    rr = _rr()
    I = Interp(ctx)

    def val(name, const=None):
        v = SObj(ir.Value, name)
        v.fields.update(name=name, shape="shape:" + name, type="type:" + name, doc_string="", const_value=const)
        return v
    x, t, y = val("x"), val("t"), val("y")
    outside_kind = ["an operand of the call", "a constant", "a plain outside value"][ctx.choose(3, "the second operand of the first node is")]
    c = x if outside_kind == "an operand of the call" else val("c", "TENSOR" if outside_kind == "a constant" else None)
    with_none = ctx.choose(2, "the call has an omitted (None) operand") == 1
    attr = SObj(ir.Attr, "attr")
    attr.fields.update(name="axis", type=ir.AttributeType.INT, value=1)

    def f_isref():
        raise AssertionError
    I.models[f_isref] = lambda interp: False
    attr.fields["is_ref"] = f_isref
    from .irmodel import AttrDict
    n1, n2 = SObj(ir.Node, "n1"), SObj(ir.Node, "n2")
    n1.fields.update(domain="", op_type="Add", overload="", inputs=[x, c], outputs=[t], attributes=AttrDict({}), name="n1", doc_string="", metadata_props={"k": "v"})
    n2.fields.update(domain="custom", op_type="Foo", overload="ov", inputs=[t, None, x], outputs=[y], attributes=AttrDict({"axis": attr}), name="n2", doc_string="", metadata_props={})
    fresh = []

    def m_value(interp, name=None, shape=None, type=None, doc_string=None, **k):
        v = SObj(ir.Value, "fresh")
        v.fields.update(name=name, shape=shape, type=type, doc_string=doc_string, const_value=None)
        fresh.append(v)
        return v
    I.models[ir.Value] = m_value
    made = []

    def m_node(interp, domain, op_type, inputs=(), attributes=(), overload="", num_outputs=1, graph=None, name=None, doc_string=None, metadata_props=None, **k):
        n = SObj(ir.Node, "copy")
        outs = [m_value(interp) for _ in range(num_outputs)]
        n.fields.update(domain=domain, op_type=op_type, overload=overload, inputs=list(inputs), attributes=list(attributes), outputs=outs, name=name,
                        metadata_props=metadata_props, graph=graph)
        made.append(n)
        return n
    I.models[ir.Node] = m_node
    I.models[ir.AttrTensor] = lambda interp, name, t_: ("attr-tensor", name, t_)
    inputs = [x] + ([None] if with_none else [])
    try:
        r = I.run_closure(I.closure_of(rr._copy_for_function), [inputs, [n1, n2], [y]], {})
    except PyRaise as e:
        ctx.check("C07.as_function.copy.raises_only_for_an_outside_value_that_is_no_operand_and_no_constant",
                  outside_kind == "a plain outside value" and isinstance(e.exc, ValueError), CL_INIT)
        return
    ctx.check("C07.as_function.copy.an_uncopyable_outside_value_is_refused", outside_kind != "a plain outside value", CL_INIT)
    f_in, f_nodes, f_out = r
    originals = [x, t, y, c]
    ok = len(f_in) == len(inputs) and all(not any(v is o for o in originals) for v in f_in) and f_in[0].fields["name"] == "x" and f_in[0].fields["type"] == "type:x"
    ctx.check("C07.as_function.copy.one_fresh_formal_parameter_per_operand", ok, CL_INIT)
    n_const = 1 if outside_kind == "a constant" else 0
    ok = len(f_nodes) == 2 + n_const
    ctx.check("C07.as_function.copy.one_copy_per_node_plus_one_constant_per_captured_constant", ok, CL_INIT)
    if not ok:
        return
    consts, (c1, c2) = f_nodes[:n_const], f_nodes[n_const:]
    if n_const:
        k0 = consts[0]
        ctx.check("C07.as_function.copy.captured_constant_becomes_a_constant_node_in_front", k0.fields["op_type"] == "Constant" and k0.fields["domain"] == "" and
                  k0.fields["inputs"] == [] and k0.fields["attributes"] == [("attr-tensor", "value", "TENSOR")], CL_INIT)
    image_c = f_in[0] if outside_kind == "an operand of the call" else (consts[0].fields["outputs"][0] if n_const else None)
    ctx.check("C07.as_function.copy.copies_have_the_same_operator_overload_attributes_and_metadata",
              (c1.fields["domain"], c1.fields["op_type"], c1.fields["overload"], c1.fields["name"]) == ("", "Add", "", "n1") and
              (c2.fields["domain"], c2.fields["op_type"], c2.fields["overload"], c2.fields["name"]) == ("custom", "Foo", "ov", "n2") and
              c2.fields["attributes"] == [attr] and c1.fields["metadata_props"] == {"k": "v"} and c1.fields["metadata_props"] is not n1.fields["metadata_props"], CL_INIT)
    ctx.check("C07.as_function.copy.inputs_of_the_copies_are_the_images_of_the_original_inputs",
              len(c1.fields["inputs"]) == 2 and c1.fields["inputs"][0] is f_in[0] and c1.fields["inputs"][1] is image_c and
              len(c2.fields["inputs"]) == 3 and c2.fields["inputs"][0] is c1.fields["outputs"][0] and c2.fields["inputs"][1] is None and c2.fields["inputs"][2] is f_in[0],
              CL + " — the function computes what the matched nodes computed")
    ctx.check("C07.as_function.copy.no_value_is_shared_with_the_enclosing_graph",
              not any(any(v is o for o in originals) for n in f_nodes for v in list(n.fields["inputs"]) + list(n.fields["outputs"]) if v is not None), CL_INIT)
    ctx.check("C07.as_function.copy.outputs_are_the_images_of_the_matched_outputs_with_their_names", len(f_out) == 1 and f_out[0] is c2.fields["outputs"][0] and
              c2.fields["outputs"][0].fields["name"] == "y" and c1.fields["outputs"][0].fields["name"] == "t", CL_INIT)


SCENARIOS.append(Scenario("C07.as_function.copy", s_copy_for_function,
                          F("_copy_for_function", "_copy_for_function.copy_value", "_copy_for_function.copy_attr_value", "_copy_for_function.copy_node"), kind="bounded",
                          bound="two chained nodes, one call operand (+ optional None), one outside value (operand / constant / other)",
                          trusted=["ir.Value / ir.Node constructors (onnx_ir)"]))
