"""C20 — save_model_with_external_data: guard before any write, read-only on the model, sibling data file.

Path contract over a ghost effect log, proved for every path of the real function and for ANY number
of initializers (symbolic-length sequence; `Uninit(j)` says initializer j has no data):
  (1) every call of ir.save happens when no initializer is uninitialized; the ValueError path made no
      file-system effect;
  (2) nothing reachable from `model` is written (attribute stores), also inside the progress callback;
  (3) ir.save(model, model_path, external_data = basename(model_path) + ".data") — relative sibling.
Residual (not claimed): that onnx_ir.save round-trips and restores tensors on an I/O error.
"""
from __future__ import annotations

import importlib.util
import pathlib

import z3

from pyvc.harness import Scenario
from pyvc.interp import Interp, PyRaise
from pyvc.core import Undecided
from pyvc.values import SObj, SStr, SBool, SSeq, SOpt, Opaque, Obj, term

REL = "onnxscript/_framework_apis/torch_2_5.py"
CL1 = "C20: 'refuses a model with uninitialized initializers before writing anything'"
CL2 = "C20: 'leaves the in-memory model exactly as it was'"
CL3 = "C20: 'writes a model file and a sibling data file'"

Uninit = z3.Function("Uninit", z3.IntSort(), z3.BoolSort())
IsInput = z3.Function("IsInput", z3.IntSort(), z3.BoolSort())  # initializer j is also a graph input


def _forbid(what):
    def lazy(interp, obj, attr):
        raise Undecided(f"unmodelled access {what}.{attr} (frame cannot be established)")
    return lazy


def s_save(ctx):
    import onnx_ir as ir
    from onnxscript._framework_apis import torch_2_5
    I = Interp(ctx)
    owned = []

    def own(o):
        owned.append(o)
        return o
    n = ctx.int("n_initializers")
    ctx.assume(n >= 0)

    def elem(j):
        v = own(SObj(ir.Value, "init", lazy=_forbid("initializer")))
        t = own(SObj(ir.Tensor, "tensor", lazy=_forbid("tensor")))
        t.fields.update(name=Opaque("tname"), dtype=Opaque("dtype"), shape=Opaque("shape"))
        v.fields.update(name=Opaque("vname"), const_value=SOpt(Uninit(j), t))

        def is_graph_input():
            raise AssertionError
        I.models[is_graph_input] = lambda interp, j=j: SBool(IsInput(j))
        v.fields["is_graph_input"] = is_graph_input
        return v
    inits_seq = SSeq(n, elem, name="initializers")

    def values_fn():
        raise AssertionError
    I.models[values_fn] = lambda interp: inits_seq
    inits = own(SObj(object, "initializers", lazy=_forbid("model.graph.initializers")))
    inits.fields["values"] = values_fn
    graph = own(SObj(ir.Graph, "graph", lazy=_forbid("model.graph")))
    graph.fields["initializers"] = inits
    model = own(SObj(ir.Model, "model", lazy=_forbid("model")))
    model.fields["graph"] = graph

    path = ctx.const("model_path", z3.StringSort())
    base = ctx.const("basename", z3.StringSort())
    dirn = ctx.const("dirname", z3.StringSort())
    slash = z3.StringVal("/")
    ctx.assume(path == z3.Concat(dirn, base))
    ctx.assume(z3.Not(z3.Contains(base, slash)))
    ctx.assume(z3.Or(dirn == z3.StringVal(""), z3.SuffixOf(slash, dirn)))
    ctx.assume(z3.Length(base) > 0)
    model_path = SStr(path)

    fs_effects = []
    FS_WRITERS = ("mkdir", "touch", "write_text", "write_bytes", "open", "unlink", "rename", "replace", "rmdir", "symlink_to", "chmod")

    def path_lazy(what):
        def lazy(interp, obj, attr):
            if attr in FS_WRITERS:
                def effect(*a, **k):
                    raise AssertionError

                def m_effect(interp2, *a, **k):
                    fs_effects.append((what, attr))
                    j = z3.Int("j!fs")
                    ctx.check("C20.save.guard_dominates_every_file_system_effect",
                              z3.ForAll([j], z3.Implies(z3.And(j >= 0, j < n), z3.Not(Uninit(j)))),
                              CL1 + f" — {what}.{attr}() creates or changes a file-system entry")
                    return Opaque(f"{what}.{attr}()")
                interp.models[effect] = m_effect
                return effect
            raise Undecided(f"unmodelled access {what}.{attr} (frame cannot be established)")
        return lazy

    def m_path(interp, p):
        o = SObj(pathlib.PurePosixPath, "path", lazy=path_lazy("Path"))
        ok = isinstance(p, SStr) and p is model_path
        o.fields["name"] = SStr(base) if ok else Opaque("name")
        parent = SObj(pathlib.PurePosixPath, "parent_dir", lazy=path_lazy("Path.parent"))
        parent.fields["name"] = Opaque("dirname")
        o.fields["parent"] = parent
        return o
    I.models[pathlib.Path] = m_path
    # onnx_ir helpers that (by their documentation) rewrite the tensors / locations of the model they are given
    mutated = []
    for _nm in ("set_base_dir", "load_to_model", "unload_from_model", "convert_tensors_to_external", "convert_tensors_from_external"):
        _f = getattr(ir.external_data, _nm, None)
        if _f is not None:
            I.models[_f] = (lambda nm: lambda interp, *a, **k: mutated.append((nm, a)))(_nm)
    I.models[importlib.util.find_spec] = lambda interp, name: (object() if ctx.choose(2, "tqdm-installed") == 0 else None)
    pbar = SObj(object, "pbar")
    pbar.fields.update(total=None)

    def _upd():
        raise AssertionError

    def _desc(*a):
        raise AssertionError

    def _enter():
        raise AssertionError

    def _exit(*a):
        raise AssertionError

    def _tq():
        raise AssertionError
    I.models[_upd] = lambda interp, *a: None
    I.models[_desc] = lambda interp, *a: None
    I.models[_enter] = lambda interp: pbar
    I.models[_exit] = lambda interp, *a: False
    cm = SObj(object, "tqdm_cm")
    cm.fields.update(__enter__=_enter, __exit__=_exit)
    pbar.fields.update(update=_upd, set_description=_desc)
    I.models[_tq] = lambda interp, *a, **k: cm
    fake_tqdm = SObj(object, "tqdm_module")
    fake_tqdm.fields["tqdm"] = _tq
    I.import_overrides = {"tqdm": fake_tqdm}

    saves = []

    def m_save(interp, m, p, *rest, external_data=None, callback=None, **kw):
        saves.append({"model": m, "path": p, "external_data": external_data, "rest": rest, "kw": kw})
        # (1) guard dominance: at the moment of the first file-system effect no initializer is uninitialized
        j = z3.Int("j!save")
        ctx.check("C20.save.guard_dominates_every_save",
                  z3.ForAll([j], z3.Implies(z3.And(j >= 0, j < n), z3.Not(Uninit(j)))), CL1)
        if callback is not None:
            # the writer reports progress once per tensor: exercise the callback on a model-owned tensor
            k = ctx.int("k!cb")
            ctx.assume(z3.And(k >= 0, k < n))
            v = inits_seq.at(k)
            t = v.fields["const_value"].value
            meta = SObj(object, "callbackinfo")
            meta.fields.update(total=Opaque("total"), offset=Opaque("offset"), index=Opaque("index"))
            interp.call(callback, [t, meta])
            interp.call(callback, [t, meta])
        return None
    I.models[ir.save] = m_save
    verbose = [False, True, SBool(ctx.bool("verbose"))][ctx.choose(3, "verbose")]
    clo = I.closure_of(torch_2_5.save_model_with_external_data)
    raised = None
    try:
        I.run_closure(clo, [model, model_path, verbose], {})
    except PyRaise as e:
        raised = e.exc
    writes = [(o, f) for (o, f) in I.heap_writes if any(o is x for x in owned)]
    ctx.check("C20.save.model_is_read_only", len(writes) == 0, CL2)
    touched = [nm for nm, a in mutated if any(any(x is o for o in owned) for x in a)]
    ctx.check("C20.save.no_mutating_external_data_helper_is_applied_to_the_model", not touched,
              CL2 + " — set_base_dir / load_to_model / unload_from_model / convert_tensors_* rewrite the model they are given")
    # frame: a callee whose effect is not modelled may write anything reachable from its arguments
    def reaches_model(v, depth=0):
        if any(v is o for o in owned):
            return True
        if depth < 3 and isinstance(v, (list, tuple)):
            return any(reaches_model(x, depth + 1) for x in v)
        if depth < 3 and isinstance(v, dict):
            return any(reaches_model(x, depth + 1) for x in v.values())
        return False
    handed = [nm for nm, a, k in I.unmodelled_calls if reaches_model(a) or reaches_model(k)]
    ctx.check("C20.save.model_is_handed_only_to_callees_known_to_leave_it_unchanged", not handed,
              CL2 + " — besides ir.save (whose contract is assumed) nothing may receive the model or its tensors: passes and helpers work in place")
    if raised is not None:
        ctx.cover("save.refused")
        ctx.check("C20.save.refusal_is_ValueError_and_made_no_file_system_effect",
                  isinstance(raised, ValueError) and len(saves) == 0 and not fs_effects, CL1)
        j = z3.Int("j!r")
        ctx.check("C20.save.refuses_only_models_with_an_uninitialized_initializer",
                  z3.Exists([j], z3.And(j >= 0, j < n, Uninit(j))), CL1)
        return
    ctx.cover("save.saved" + (".with_callback" if saves and "callback" in str(saves[0]) else ""))
    ok1 = len(saves) == 1
    ctx.check("C20.save.exactly_one_save_on_success", ok1, CL3)
    if not ok1:
        return
    s = saves[0]
    ctx.check("C20.save.saves_the_given_model_to_the_given_path",
              s["model"] is model and s["path"] is model_path and not s["rest"] and not s["kw"], CL3)
    ed = s["external_data"]
    okd = isinstance(ed, (SStr, str))
    ctx.check("C20.save.external_data_is_given", okd, CL3)
    if okd:
        ctx.check("C20.save.data_file_is_sibling_basename_dot_data", term(ed) == z3.Concat(base, z3.StringVal(".data")), CL3)
        ctx.check("C20.save.data_path_is_relative", z3.Not(z3.Contains(term(ed), slash)), CL3)


def s_save_bounded(ctx):
    """Bounded companion: up to 2 initializers (uninitialized / in-memory / already external), ir.save may fail
    with OSError; at EVERY exit the model must be exactly as it was (transient changes must be undone on failure too)."""
    import onnx_ir as ir
    from onnxscript._framework_apis import torch_2_5
    I = Interp(ctx)
    k = ctx.choose(3, "n_initializers")
    vals = []
    for j in range(k):
        kind = ctx.choose(3, f"init{j}")  # 0 uninitialized, 1 in-memory, 2 external
        v = SObj(ir.Value, f"init{j}")
        t = None if kind == 0 else SObj(ir.ExternalTensor if kind == 2 else ir.Tensor, f"tensor{j}")
        if t is not None:
            t.fields.update(name=f"t{j}", dtype=Opaque("dtype"), shape=Opaque("shape"))
            if kind == 2:
                # an already-external tensor points at a data file of an EARLIER save: possibly of the same file name, in another directory
                loc = ["m.onnx.data", "other.data"][ctx.choose(2, f"init{j} external location")]
                t.fields.update(location=loc, base_dir="/some/other/dir", offset=0, length=8, path=f"/some/other/dir/{loc}")
        v.fields.update(name=f"w{j}", const_value=t)
        vals.append(v)
    # an initializer may ALSO be a graph input (a default the caller may override): still an initializer that must carry data
    also_input = [ctx.choose(2, f"init{j} is also a graph input") == 1 for j in range(k)]
    x_in = SObj(ir.Value, "x")
    x_in.fields.update(name="x", const_value=None)

    class Inits(dict):
        pass
    inits = Inits((f"w{j}", v) for j, v in enumerate(vals))
    graph = SObj(ir.Graph, "graph", lazy=_forbid("model.graph"))
    graph.fields["initializers"] = inits
    graph.fields["inputs"] = [x_in] + [v for v, gi in zip(vals, also_input) if gi]
    model = SObj(ir.Model, "model", lazy=_forbid("model"))
    model.fields["graph"] = graph

    def graphs():
        raise AssertionError
    I.models[graphs] = lambda interp: [graph]      # ir.Model.graphs(): the main graph and its subgraphs (none here)
    model.fields["graphs"] = graphs
    snapshot = [(v, dict(v.fields)) for v in vals] + [(graph, dict(graph.fields)), (model, dict(model.fields))]
    snap_t = [(v.fields["const_value"], dict(v.fields["const_value"].fields)) for v in vals if v.fields["const_value"] is not None]
    I.models[importlib.util.find_spec] = lambda interp, name: None
    fail = ctx.choose(2, "ir.save fails") == 1
    saves = []

    def m_save(interp, m, p, *rest, **kw):
        saves.append((m, p, kw))
        if fail:
            raise PyRaise(OSError("disk full"))
    I.models[ir.save] = m_save

    def m_convert(interp, tensors):
        return [SObj(ir.Tensor, "loaded") for _ in interp.iterate(tensors)]
    I.models[ir.external_data.convert_tensors_from_external] = m_convert

    unloads = []

    def m_unload(interp, m, base_dir=None, relative_path=None, *a, **kw):
        unloads.append((base_dir, relative_path))
        # onnx_ir.external_data.unload_from_model: writes the data file and REPLACES every initializer tensor of the model by an external one
        for v in vals:
            if v.fields["const_value"] is not None:
                nt = SObj(ir.ExternalTensor, "unloaded")
                nt.fields.update(name=v.fields["const_value"].fields.get("name"), location=relative_path, base_dir=base_dir, offset=0, length=8)
                v.fields["const_value"] = nt
        return m
    I.models[ir.external_data.unload_from_model] = m_unload
    clo = I.closure_of(torch_2_5.save_model_with_external_data)
    raised = None
    try:
        I.run_closure(clo, [model, "dir/m.onnx", False], {})
    except PyRaise as e:
        raised = e.exc
    same = all(o.fields == f0 for o, f0 in snapshot) and all(t.fields == f0 for t, f0 in snap_t) and \
        list(inits.items()) == [(f"w{j}", v) for j, v in enumerate(vals)]
    ctx.check("C20.save.bounded.model_exactly_as_before_at_every_exit" + (".when_save_fails" if raised and saves else ""), same, CL2)
    if any(v.fields["const_value"] is None for v in vals) and not saves:
        ctx.check("C20.save.bounded.uninitialized_refused_with_ValueError", isinstance(raised, ValueError), CL1)
    elif any(v.fields["const_value"] is None for v in vals):
        ctx.check("C20.save.bounded.uninitialized_refused_before_saving", False, CL1)
    if fail and saves:
        ctx.check("C20.save.bounded.io_error_propagates", isinstance(raised, OSError), CL2)
    if not any(v.fields["const_value"] is None for v in vals):
        # whatever the tensors are backed by (memory, or a data file of an earlier save somewhere else): one save of the given
        # model with the sibling data file - the loaded copy must find its data next to the model file
        # effect-based: the model file is written once, and the tensor data goes to the SIBLING file — through ir.save(external_data=...) or
        # through onnx_ir.external_data.unload_from_model(model, <directory of the model file>, "<name>.data") before the save
        via_save = saves[0][2].get("external_data") == "m.onnx.data" if saves else False
        via_unload = [u for u in unloads if u[1] == "m.onnx.data" and str(u[0]) in ("dir", "dir/")]
        ok = len(saves) == 1 and saves[0][0] is model and saves[0][1] == "dir/m.onnx" and (via_save or (len(unloads) == 1 and len(via_unload) == 1))
        ctx.check("C20.save.bounded.every_initialized_model_is_saved_once_with_the_sibling_data_file", ok, CL3)


SCENARIOS = [
    Scenario("C20.save_model_with_external_data", s_save,
             [(REL, "save_model_with_external_data"), (REL, "save_model_with_external_data.callback")],
             trusted=["onnx_ir.save(model, path, external_data=..., callback=...) writes the model and the data file and restores the in-memory tensors (dependency contract, not code of /repo)",
                      "pathlib.Path(p).name is the last path component (POSIX separator)",
                      "tqdm progress bar object is independent of the model"],
             assumptions=["model_path is a str with a non-empty last component; os.PathLike arguments not modelled"]),
    Scenario("C20.save_model_with_external_data[bounded, failing save]", s_save_bounded,
             [(REL, "save_model_with_external_data")], kind="bounded",
             bound="at most 2 initializers, each uninitialized / in-memory / already external and possibly also a graph input; ir.save succeeds or raises OSError"),
]
