"""C05 — shipped rewrite rules preserve semantics wherever they fire (first batch: element-level rules).

Method per rule class: an instance of the rule's target pattern is built from symbolic constants (every present/absent
combination of the optional operands), the REAL check() and rewrite() (and their helpers compute_constants,
compute_clip_min_max, extract_min_max) are executed symbolically, and the obligation
        check succeeded  ==>  [[pattern]](x) = [[replacement]](x)   for every real x and every value of the constants
is discharged over the reals with the element-level operator theory T1 (ONNX documentation):
        Clip(x, lo, hi) = min(hi, max(x, lo))   (also when lo > hi),  Relu(x) = max(x, 0),  Min / Max n-ary.
Rules: _fuse_relus_clips (4), _min_max_to_clip (4), _no_op pattern constants (tolerance).
Shape side-conditions (the fused constant must have the shape Clip/Min/Max needs) are checked on the recorded
shapes of the constants.  Floats are treated as reals (assumption listed).
"""
from __future__ import annotations

import functools

import z3

from pyvc.harness import Scenario
from pyvc.interp import Interp, PyRaise
from pyvc.values import SObj, SReal, SBool, Opaque, term, wrap
from .irmodel import World, OpRecorder, Call

CL = "C05: 'whenever the rule applies to a model, the rewritten model yields the same outputs as before for all inputs (same element type, same shape, equal values)'"
CLS = "C05: 'A rule whose algebraic side-condition cannot be established from the model itself ... value only approximately equal ... does not fire'"
CLG = ("C05: 'yields the same outputs as before for all inputs' / C04: 'initializers that are also graph inputs - defaults the caller may override - "
       "are never folded into constants' — the bound of a graph input with a default is not a constant")
RC = "onnxscript/rewriter/rules/common/"


def R(t):
    return t if isinstance(t, z3.ExprRef) else z3.RealVal(t)


def rmax(a, b):
    return z3.If(a >= b, a, b)


def rmin(a, b):
    return z3.If(a <= b, a, b)


def clip(x, lo, hi):
    y = x if lo is None else rmax(x, lo)
    return y if hi is None else rmin(y, hi)


class NP:
    """numpy stand-ins for scalar constants: SReal values with a recorded shape."""

    def __init__(self, interp):
        import numpy as np
        self.I = interp
        self.shapes = {}
        m = interp.models
        m[np.maximum] = lambda i, a, b: self.bin(a, b, rmax)
        m[np.minimum] = lambda i, a, b: self.bin(a, b, rmin)
        m[np.max] = lambda i, xs: self.red(xs, rmax)
        m[np.min] = lambda i, xs: self.red(xs, rmin)
        m[np.array] = lambda i, v, dtype=None: v
        m[np.isscalar] = lambda i, v: False
        m[np.size] = lambda i, v: self.size(v)
        m[functools.reduce] = lambda i, f, xs: self.reduce(f, xs)
        m[np.any] = lambda i, v: v
        m[np.all] = lambda i, v: v

    def const(self, name, shape=()):
        v = SReal(self.I.ctx.const(name, z3.RealSort()))
        self.shapes[id(v)] = (tuple(shape), v)
        self.I.ctx.witness[name] = v.t
        return v

    def shape(self, v):
        if isinstance(v, (int, float)):
            return ()
        return self.shapes.get(id(v), ((), v))[0]

    def size(self, v):
        n = 1
        for d in self.shape(v):
            n *= d
        return n

    def val(self, v):
        return R(v) if isinstance(v, (int, float)) else v.t

    def bin(self, a, b, f):
        r = SReal(f(self.val(a), self.val(b)))
        sa, sb = self.shape(a), self.shape(b)
        self.shapes[id(r)] = (sa if len(sa) >= len(sb) else sb, r)
        return r

    def red(self, xs, f):
        xs = list(self.I.iterate(xs))
        acc = self.val(xs[0])
        for x in xs[1:]:
            acc = f(acc, self.val(x))
        r = SReal(acc)
        self.shapes[id(r)] = ((), r)  # np.max/np.min over a list reduce to a 0-d value
        return r

    def reduce(self, f, xs):
        xs = list(self.I.iterate(xs))
        acc = xs[0]
        for x in xs[1:]:
            acc = self.I.call(f, [acc, x])
        return acc


def setup(ctx):
    import onnx_ir as ir
    I = Interp(ctx)
    W = World(I)
    N = NP(I)

    def m_tensor(interp, v, *a, **k):
        t = SObj(ir.Tensor, "newtensor")
        t.fields.update(pyvalue=v)

        def numpy_():
            raise AssertionError
        interp.models[numpy_] = lambda i2: v
        t.fields["numpy"] = numpy_
        return t
    I.models[ir.tensor] = m_tensor
    I.models[ir.convenience.get_const_tensor] = lambda interp, v: v.fields.get("const_value")
    return I, W, N


def const_input(I, W, N, name, shape=(), graph_input=False, known=True):
    import onnx_ir as ir
    v = N.const(name, shape)
    t = SObj(ir.Tensor, "t_" + name)

    def numpy_():
        raise AssertionError
    I.models[numpy_] = lambda i2: v
    t.fields["numpy"] = numpy_
    val = W.value(name, dims=list(shape), rt=[], dtype=ir.DataType.FLOAT, const=(t if known else None), graph_input=graph_input,
                  initializer=known)
    val.ghost_real = v
    return val


class OpRec(OpRecorder):
    """records op.X(...), op.initializer(tensor, name=...) and op.op(name, ...)"""

    def __getattr__(self, name):
        if name == "initializer":
            def f(tensor, name=None):
                c = Call("initializer", (tensor,), {"name": name})
                self.calls.append(c)
                return c
            f._pyvc_native = True
            return f
        if name == "op":
            def g(op_type, *args, **kwargs):
                c = Call(op_type, args, kwargs)
                self.calls.append(c)
                return c
            g._pyvc_native = True
            return g
        return super().__getattr__(name)


def init_value(N, c):
    """(real term, shape) of an op.initializer(...) call result"""
    t = c.args[0]
    v = t.fields["pyvalue"] if isinstance(t, SObj) else t
    return N.val(v), N.shape(v)


def with_producer(I, value, node):
    def producer():
        raise AssertionError
    I.models[producer] = lambda interp: node
    value.fields["producer"] = producer


# ------------------------------------------------------------------ _fuse_relus_clips ----------

def s_fuse_relus_clips(ctx, which):
    import onnx_ir as ir
    from onnxscript.rewriter.rules.common import _fuse_relus_clips as mod
    I, W, N = setup(ctx)
    cls = getattr(mod, which)
    rule = SObj(cls, "rule")
    typed = ctx.choose(2, "x has a type annotation") == 0
    x = W.value("x", dims=None, rt=[], dtype=(ir.DataType.FLOAT if typed else None))
    xr = ctx.const("x", z3.RealSort())

    def clip_node(tag):
        has_lo = ctx.choose(2, f"{tag} has min") == 0
        has_hi = ctx.choose(2, f"{tag} has max") == 0
        lo = const_input(I, W, N, tag + "_min") if has_lo else None
        hi = const_input(I, W, N, tag + "_max") if has_hi else None
        ins = [x]
        if has_lo or has_hi:
            ins.append(lo)
        if has_hi:
            ins.append(hi)
        return W.node("Clip", ins), (lo.ghost_real.t if lo is not None else None), (hi.ghost_real.t if hi is not None else None)
    kwargs = {}
    if which == "FuseSuccessiveClip":
        n1, l1, h1 = clip_node("first")
        n2, l2, h2 = clip_node("second")
        o1, o2 = n1.fields["outputs"][0], n2.fields["outputs"][0]
        with_producer(I, o1, n1)
        with_producer(I, o2, n2)
        kwargs = {"out_first_clip": o1, "out_second_clip": o2}
        original = clip(clip(xr, l1, h1), l2, h2)
    elif which == "FuseSuccessiveClipRelu":   # Clip(Relu(x))
        n1, l1, h1 = clip_node("first")
        o1 = n1.fields["outputs"][0]
        with_producer(I, o1, n1)
        kwargs = {"out_first_clip": o1}
        original = clip(rmax(xr, R(0)), l1, h1)
    else:                                     # FuseSuccessiveReluClip: Relu(Clip(x))
        n1, l1, h1 = clip_node("first")
        o1 = n1.fields["outputs"][0]
        with_producer(I, o1, n1)
        kwargs = {"out_first_clip": o1}
        original = rmax(clip(xr, l1, h1), R(0))
    chk = I.call(I.getattr(rule, "check"), [None], dict(kwargs))
    if not I.truth(chk):
        ctx.cover(f"{which}.check_failed")
        return
    op = OpRec()
    try:
        r = I.call(I.getattr(rule, "rewrite"), [op, x], dict(kwargs))
    except PyRaise as e:
        ctx.check(f"C04.rules.{which}.rewrite_never_raises_after_a_successful_check", False, "C04: 'optimize, rewrite ... return without raising'")
        return
    ok = isinstance(r, Call) and r.op == "Clip" and r.args and r.args[0] is x
    ctx.check(f"C05.rules.{which}.replacement_is_one_clip_of_x", ok, CL)
    if not ok:
        return
    ctx.cover(f"{which}.rewritten")
    ext = list(r.args[1:])
    lo = init_value(N, ext[0])[0] if len(ext) > 0 and ext[0] is not None else None
    hi = init_value(N, ext[1])[0] if len(ext) > 1 and ext[1] is not None else None
    ctx.check(f"C05.rules.{which}.same_values_for_every_input_and_every_bounds", original == clip(xr, lo, hi), CL)


# ------------------------------------------------------------------ _min_max_to_clip -----------

def s_min_max(ctx, which):
    import onnx_ir as ir
    from onnxscript.rewriter.rules.common import _min_max_to_clip as mod
    I, W, N = setup(ctx)
    cls = getattr(mod, which)
    rule = SObj(cls, "rule")
    x = W.value("x", dims=None, rt=[], dtype=ir.DataType.FLOAT)
    x.fields["name"] = "x"
    xr = ctx.const("x", z3.RealSort())
    ops = {"FuseSuccessiveMin": ("Min", "Min"), "FuseSuccessiveMax": ("Max", "Max"),
           "FuseMaxMinToClip": ("Max", "Min"), "FuseMinMaxToClip": ("Min", "Max")}[which]
    shapes = [(), (1,), (1, 1), (3,)]

    overridable = []

    def mk(tag, op_type):
        k = 1 + ctx.choose(2, f"constants of {tag}")
        cs = []
        for j in range(k):
            shp = shapes[ctx.choose(len(shapes), f"shape of {tag}{j}")]
            gi = (tag == "c" and j == 0) and ctx.choose(2, "first constant is an initializer that is also a graph input") == 1
            overridable.append(gi)
            cs.append(const_input(I, W, N, f"{tag}{j}", shp, graph_input=gi))
        n = W.node(op_type, [x] + cs)
        return n, cs
    n1, c1 = mk("c", ops[0])
    n2, c2 = mk("d", ops[1])
    o1, o2 = n1.fields["outputs"][0], n2.fields["outputs"][0]
    with_producer(I, o1, n1)
    with_producer(I, o2, n2)
    f = {"Min": rmin, "Max": rmax}

    def nary(op_type, first, cs):
        acc = first
        for c in cs:
            acc = f[op_type](acc, c.ghost_real.t)
        return acc
    original = nary(ops[1], nary(ops[0], xr, c1), c2)
    chk = I.call(I.getattr(rule, "check"), [None, o1, o2], {})
    if not I.truth(chk):
        ctx.cover(f"{which}.check_failed")
        return
    ctx.check(f"C05.rules.{which}.does_not_fire_on_an_overridable_initializer", not any(overridable), CLG)
    if any(overridable):
        return
    op = OpRec()
    r = I.call(I.getattr(rule, "rewrite"), [op, x, o1, o2], {})
    want_op = {"FuseSuccessiveMin": "Min", "FuseSuccessiveMax": "Max"}.get(which, "Clip")
    ok = isinstance(r, Call) and r.op == want_op and r.args and r.args[0] is x
    ctx.check(f"C05.rules.{which}.replacement_is_one_{want_op}_of_x", ok, CL)
    if not ok:
        return
    ctx.cover(f"{which}.rewritten")
    vals = [init_value(N, a) for a in r.args[1:]]
    if want_op == "Clip":
        okn = len(vals) == 2
        ctx.check(f"C05.rules.{which}.clip_gets_min_and_max", okn, CL)
        if not okn:
            return
        new = clip(xr, vals[0][0], vals[1][0])
        # Clip requires 0-d min/max, and Min/Max broadcast x with their constants: the result shape of the original
        # is broadcast(x, constants); Clip(x) has the shape of x.  Equal only if every constant is 0-d (or broadcasts to x).
        all_scalar0d = all(N.shape(c.ghost_real) == () for c in c1 + c2)
        ctx.check(f"C05.rules.{which}.same_output_shape_as_the_min_max_chain", all_scalar0d,
                  "C05: 'same element type, same shape' — Min/Max broadcast x against [1] / [1,1] constants, Clip(x, lo, hi) keeps the shape of x")
    else:
        new = xr
        for v, _s in vals:
            new = f[want_op](new, v)
    ctx.check(f"C05.rules.{which}.same_values_for_every_input_and_every_constants", original == new, CL)


# ------------------------------------------------------------------ _no_op constants -----------

def s_noop_constants(_ctx):
    """x+0, x-0, x*1, x/1 -> Identity: the rule may fire only if the constant IS 0 (resp. 1).  The pattern constant is
    matched with math.isclose(value, c, rel_tol, abs_tol); ground obligation per rule: the tolerances are zero."""
    from contracts.c17_opsets import Agg
    from onnxscript.rewriter.rules.common import _no_op
    from onnxscript.rewriter import _pattern_ir
    agg = Agg()
    n = 0
    for nm in ("mul_by_1_rule", "add_0_rule", "sub_0_rule", "div_by_1_rule"):
        rule = getattr(_no_op, nm)
        pat = rule._target_pattern
        consts = []
        for node in pat:
            for v in node.inputs:
                if isinstance(v, _pattern_ir.Constant):
                    consts.append(v)
        for c in consts:
            n += 1
            exact = c._rel_tol == 0 and c._abs_tol == 0
            agg.ob("C05.rules.no_op.pattern_constant_matches_only_the_exact_value", exact,
                   f"{nm}: pattern constant {c._value!r} is matched with rel_tol={c._rel_tol}, abs_tol={c._abs_tol}: a value within the tolerance "
                   f"(e.g. {c._value + (c._abs_tol or 0) / 2!r}) fires the rule and the operation is dropped", CLS, case=nm)
    return {"obligations": agg.obs, "paths": n, "covered": [f"pattern_constants={n}"], "notes": [], "functions": []}


def s_pattern_constant_overridable(ctx):
    """A numeric literal in a pattern (x + 0, x * 1, ...) must not match a value that is an initializer AND a graph
    input: the caller may feed another value (real SimplePatternMatcher._match_constant)."""
    import numpy as np
    import onnx_ir as ir
    from onnxscript.rewriter import _matcher, _pattern_ir
    I = Interp(ctx)
    self = SObj(_matcher.SimplePatternMatcher, "matcher")

    def fail(*a, **k):
        raise AssertionError
    I.models[fail] = lambda interp, *a, **k: False
    self.fields["fail"] = fail
    pc = SObj(_pattern_ir.Constant, "constpattern")
    as_list = ctx.choose(2, "pattern constant is a list") == 1
    pc.fields.update(_value=([0.0] if as_list else 0.0), value=([0.0] if as_list else 0.0), _rel_tol=0.0, _abs_tol=0.0)
    arr = np.zeros((1,) if as_list else (), dtype=np.float32)
    tensor = SObj(ir.Tensor, "tensor")

    def numpy_():
        raise AssertionError
    I.models[numpy_] = lambda interp: arr
    tensor.fields["numpy"] = numpy_
    value = SObj(ir.Value, "value")
    gi = ctx.choose(2, "value is also a graph input") == 1

    def f_gi():
        raise AssertionError
    I.models[f_gi] = lambda interp: gi
    value.fields.update(const_value=tensor, name="v", is_graph_input=f_gi)
    r = I.run_closure(I.closure_of(_matcher.SimplePatternMatcher._match_constant), [self, pc, value], {})
    if gi:
        ctx.check("C05.rules.pattern_constant.not_matched_by_an_overridable_initializer", r is False, CLG)
    else:
        ctx.check("C05.rules.pattern_constant.matched_by_a_true_constant_of_that_value", r is True, CL)


def _mk(fn, *a):
    def run(ctx):
        return fn(ctx, *a)
    return run


FRC = RC + "_fuse_relus_clips.py"
FMM = RC + "_min_max_to_clip.py"
T1 = ["ONNX operator documentation: Clip(x, lo, hi) = min(hi, max(x, lo)) also for lo > hi; Relu; n-ary Min/Max with broadcasting",
      "numpy maximum/minimum/max/min on scalars"]
A1 = ["floats treated as mathematical reals in the element-level comparison"]
SCENARIOS = [
    Scenario(f"C05.rules.fuse_relus_clips.{w}", _mk(s_fuse_relus_clips, w),
             [(FRC, f"{w}.compute_clip_min_max" if w != "FuseSuccessiveReluClip" else "FuseSuccessiveClipRelu.compute_clip_min_max"),
              (FRC, "_FuseReluClipBase.rewrite"), (FRC, "_FuseReluClipBase.check"), (FRC, "_FuseReluClipBase.extract_min_max")],
             trusted=T1, assumptions=A1)
    for w in ("FuseSuccessiveClip", "FuseSuccessiveClipRelu", "FuseSuccessiveReluClip")
] + [
    Scenario(f"C05.rules.min_max_to_clip.{w}", _mk(s_min_max, w),
             [(FMM, f"{w}.compute_constants"), (FMM, "_FuseMinMaxBase.rewrite"), (FMM, "_FuseMinMaxBase.check"), (FMM, "_FuseMinMaxBase._is_scalar")],
             kind="bounded", bound="1-2 constants per Min/Max node, constant shapes in {(), (1,), (1,1), (3,)}; all values unbounded reals",
             trusted=T1, assumptions=A1, max_paths=20000)
    for w in ("FuseSuccessiveMin", "FuseSuccessiveMax", "FuseMaxMinToClip", "FuseMinMaxToClip")
] + [
    Scenario("C05.rules.pattern_constant.overridable", s_pattern_constant_overridable, [("onnxscript/rewriter/_matcher.py", "SimplePatternMatcher._match_constant")]),
    Scenario("C05.rules.no_op.constants", s_noop_constants, kind="evaluation",
             trusted=["_matcher._match_constant semantics (C06.matcher.match_constant)"]),
]




# ------------------------------------------------------------------ _basic_rules: TransposeTranspose ---

def s_transpose_transpose(ctx, n):
    """Transpose(Transpose(x, p1), p2): axis i of the result is axis p1[p2[i]] of x (ONNX Transpose: out.shape[i] =
    in.shape[perm[i]]).  The real rewrite() is run on symbolic permutations of rank n."""
    from pyvc.values import SInt
    from onnxscript.rewriter.rules.common import _basic_rules as mod
    import onnx_ir as ir
    I = Interp(ctx)
    W = World(I)
    rule = SObj(mod.TransposeTranspose, "rule")
    perms = []
    for nm in ("p1", "p2"):
        ts = [ctx.int(f"{nm}_{i}") for i in range(n)]
        for t in ts:
            ctx.assume(z3.And(t >= 0, t < n))
        if n > 1:
            ctx.assume(z3.Distinct(*ts))
        for i, t in enumerate(ts):
            ctx.witness[f"{nm}_{i}"] = t
        perms.append(ts)
    attrs = []
    for nm, ts in zip(("perm1", "perm2"), perms):
        a = SObj(ir.Attr, nm)

        def as_ints(ts=ts):
            raise AssertionError
        I.models[as_ints] = lambda interp, ts=ts: [SInt(t) for t in ts]

        def is_ref():
            raise AssertionError
        I.models[is_ref] = lambda interp: False
        a.fields.update(as_ints=as_ints, is_ref=is_ref)
        attrs.append(a)
    x = W.value("x", dims=None, rt=[], dtype=ir.DataType.FLOAT)
    op = OpRec()
    r = I.call(I.getattr(rule, "rewrite"), [op, x, attrs[0], attrs[1]])
    p1, p2 = perms

    def sel(ts, idx):
        acc = ts[-1]
        for j in range(n - 2, -1, -1):
            acc = z3.If(idx == j, ts[j], acc)
        return acc
    want = [sel(p1, p2[i]) for i in range(n)]
    if isinstance(r, Call) and r.op == "Identity":
        ctx.check("C05.rules.TransposeTranspose.identity_only_when_the_composition_is_the_identity",
                  z3.And(*[want[i] == i for i in range(n)]), CL)
        return
    ok = isinstance(r, Call) and r.op == "Transpose" and r.args and r.args[0] is x and isinstance(r.kwargs.get("perm"), list) and len(r.kwargs["perm"]) == n
    ctx.check("C05.rules.TransposeTranspose.replacement_is_one_transpose_of_x", ok, CL)
    if ok:
        ctx.check("C05.rules.TransposeTranspose.fused_perm_is_p1_after_p2", z3.And(*[term(g) == w for g, w in zip(r.kwargs["perm"], want)]),
                  "C05: perm composition — axis i of Transpose(Transpose(x, p1), p2) is axis p1[p2[i]] of x")


SCENARIOS += [
    Scenario(f"C05.rules.basic.TransposeTranspose[rank {n}]", _mk(s_transpose_transpose, n),
             [(RC + "_basic_rules.py", "TransposeTranspose.rewrite"), (RC + "_basic_rules.py", "TransposeTranspose._apply_transposes"),
              (RC + "_basic_rules.py", "TransposeTranspose._apply_transpose")],
             kind="bounded", bound=f"rank {n}; every pair of permutations (symbolic)",
             trusted=["ONNX Transpose: output.shape[i] = input.shape[perm[i]]"], max_paths=20000)
    for n in (1, 2, 3)
]


# ------------------------------------------------------------------ TransposeTranspose for EVERY rank (deductive) ---

def s_transpose_transpose_anyrank(ctx):
    """Transpose(Transpose(x, p1), p2) for permutations of ANY length n: the fused perm computed by the real _apply_transposes /
    _apply_transpose (list built by item assignment in a loop: inductive invariant) has, at an arbitrary (Skolem) position j0, the value
    p1[p2[j0]]; Identity is returned only if the composition is the identity."""
    from pyvc.interp import LoopSpec
    from pyvc.values import SInt, SSeq
    from onnxscript.rewriter.rules.common import _basic_rules as mod
    import onnx_ir as ir
    I = Interp(ctx)
    I.quant_skolem = True
    W = World(I)
    I_ = z3.IntSort()
    n = ctx.int("rank")
    ctx.assume(n >= 0)
    j0 = ctx.int("j0")
    ctx.assume(z3.And(j0 >= 0, j0 < n))
    ctx.witness.update(rank=n, j0=j0)
    P = {"perm1": z3.Function("perm1", I_, I_), "perm2": z3.Function("perm2", I_, I_)}

    def perm_seq(nm):
        def get(i):
            i = z3.simplify(i)
            ctx.assume(z3.And(P[nm](i) >= 0, P[nm](i) < n))    # a valid perm attribute: entries are axes of the input
            return SInt(P[nm](i))
        return SSeq(n, get, name=nm)
    attrs = []
    for nm in ("perm1", "perm2"):
        a = SObj(ir.Attr, nm)

        def as_ints():
            raise AssertionError

        def is_ref():
            raise AssertionError
        I.models[as_ints] = lambda interp, nm=nm: perm_seq(nm)
        I.models[is_ref] = lambda interp: False
        a.fields.update(as_ints=as_ints, is_ref=is_ref)
        attrs.append(a)
    # positions of interest: j0 in the second application, p2[j0] in the first one
    ctx.assume(z3.And(P["perm2"](j0) >= 0, P["perm2"](j0) < n))
    S = [j0, P["perm2"](j0)]
    H = {}

    def elem(seq, s):
        """term of seq[s] without forking (base function + ghost log of item assignments)"""
        base = getattr(seq, "base_fn", None)
        t = base(s) if base is not None else term(seq.at(s))
        for idx, v in getattr(seq, "stored", []):
            t = z3.If(s == idx, term(v), t)
        return t

    def mk_res(interp):
        R = z3.Function(ctx.fresh("res"), I_, I_)
        L = ctx.int("len_res")
        ctx.assume(L >= 0)
        r = SSeq(L, lambda i: SInt(R(z3.simplify(i))), name="res")
        r.mutable = True
        r.base_fn = R
        return r

    def inv(interp, env, k, pre, it):
        res, on, perm = env.lookup("res"), env.lookup("on"), env.lookup("perm")
        out = [("res_has_the_length_of_on", res.len == on.len)]
        for tag, s in zip(("j0", "p2_j0"), S):
            ps = term(perm.at(s))
            out.append((f"res_at_{tag}_is_on_at_perm_{tag}_once_passed",
                        z3.Implies(z3.And(k > s, s < perm.len), elem(res, s) == elem(on, ps))))
        return out
    I.loops[("TransposeTranspose._apply_transpose", 0)] = LoopSpec({"res": mk_res}, inv)
    rule = SObj(mod.TransposeTranspose, "rule")
    x = W.value("x", dims=None, rt=[], dtype=ir.DataType.FLOAT)
    op = OpRec()
    try:
        r = I.call(I.getattr(rule, "rewrite"), [op, x, attrs[0], attrs[1]])
    except PyRaise:
        ctx.check("C04.rules.TransposeTranspose.any_rank.rewrite_never_raises", False, "C04")
        return
    want = P["perm1"](P["perm2"](j0))
    CLT = "C05: perm composition — axis i of Transpose(Transpose(x, p1), p2) is axis p1[p2[i]] of x (every rank)"
    if isinstance(r, Call) and r.op == "Identity":
        I.instantiate_forall(j0)
        ctx.cover("TransposeTranspose.any_rank.identity")
        ctx.check("C05.rules.TransposeTranspose.any_rank.identity_only_when_the_composition_is_the_identity", want == j0, CLT)
        return
    ok = isinstance(r, Call) and r.op == "Transpose" and r.args and r.args[0] is x and isinstance(r.kwargs.get("perm"), SSeq)
    ctx.check("C05.rules.TransposeTranspose.any_rank.replacement_is_one_transpose_of_x", ok, CLT)
    if ok:
        ctx.cover("TransposeTranspose.any_rank.transpose")
        last = r.kwargs["perm"]
        ctx.check("C05.rules.TransposeTranspose.any_rank.fused_perm_has_the_rank_of_x", last.len == n, CLT)
        ctx.check("C05.rules.TransposeTranspose.any_rank.fused_perm_is_p1_after_p2", elem(last, j0) == want, CLT)


SCENARIOS.append(Scenario("C05.rules.basic.TransposeTranspose[any rank]", s_transpose_transpose_anyrank,
                          [(RC + "_basic_rules.py", "TransposeTranspose.rewrite"), (RC + "_basic_rules.py", "TransposeTranspose._apply_transposes"),
                           (RC + "_basic_rules.py", "TransposeTranspose._apply_transpose")],
                          trusted=["ONNX Transpose: output.shape[i] = input.shape[perm[i]]; a valid perm attribute lists axes of the input"],
                          assumptions=["loop invariant stated at the two Skolem positions j0 and p2[j0]; `first == last` used at j0 only; termination not proved"]))
