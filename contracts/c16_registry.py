"""C16 — every registered torch_lib overload binds to its ATen schema.

Deductive part (string theory + path contracts on the real code):
  registration._check_and_normalize_names  accepted  <=>  ns::name[.overload] and not *.default
      (the shipped regular expression is translated, on every run, from `_QUALIFIED_OPERATOR_NAME_REGEX.pattern`
       into a z3 regular expression and compared with the language written from the property text)
  registration.Registry.register           at most one real and one complex function per name; first wins
  registration.torch_op.wrapper            private functions are not registered; every name of the tuple is
Data part (exhaustive over the finite registry, decided by evaluation against the installed torch):
  for every meta of get_torchlib_ops(): overload exists in torch.ops; bind(torch schema, op signature) is total.
"""
from __future__ import annotations

import re

import z3

from pyvc.harness import Scenario
from pyvc.interp import Interp, PyRaise
from pyvc.values import SObj, SStr, SBool, Opaque, term, wrap

REL = "onnxscript/function_libs/torch_lib/registration.py"
CL_NAME = "C16: 'Names are well-formed with default overloads spelled without .default'"
CL_ONE = "C16: 'each (name, real/complex) pair resolves to exactly one function'"

DROPPABLE = {"generator", "layout", "device", "pin_memory", "memory_format", "requires_grad"}


# ------------------------------------------------------------------ regex -> z3 -------------

def re_to_z3(pattern):
    """Translate the subset of `re` used by the registry (literals, classes, groups, + * ?, anchors)."""
    try:
        import re._parser as sre_parse  # py3.11+
        import re._constants as C
    except ImportError:  # pragma: no cover
        import sre_parse
        import sre_constants as C

    def cls(items):
        parts = []
        for op, av in items:
            if op is C.LITERAL:
                parts.append(z3.Re(chr(av)))
            elif op is C.RANGE:
                parts.append(z3.Range(chr(av[0]), chr(av[1])))
            else:
                raise ValueError(f"unsupported class item {op}")
        return parts[0] if len(parts) == 1 else z3.Union(*parts)

    def seq(items):
        rs = []
        for op, av in items:
            if op is C.AT:
                continue  # ^ and $ : fullmatch semantics
            if op is C.LITERAL:
                rs.append(z3.Re(chr(av)))
            elif op is C.IN:
                rs.append(cls(av))
            elif op is C.SUBPATTERN:
                rs.append(seq(av[3]))
            elif op is C.MAX_REPEAT:
                lo, hi, sub = av
                r = seq(sub)
                if (lo, hi) == (0, 1):
                    rs.append(z3.Option(r))
                elif lo == 1 and hi == C.MAXREPEAT:
                    rs.append(z3.Plus(r))
                elif lo == 0 and hi == C.MAXREPEAT:
                    rs.append(z3.Star(r))
                else:
                    rs.append(z3.Loop(r, lo, hi))
            else:
                raise ValueError(f"unsupported regex construct {op}")
        if not rs:
            return z3.Re("")
        return rs[0] if len(rs) == 1 else z3.Concat(*rs)
    return seq(sre_parse.parse(pattern))


def spec_language():
    word = z3.Plus(z3.Union(z3.Range("a", "z"), z3.Range("A", "Z"), z3.Range("0", "9"), z3.Re("_")))
    over = z3.Plus(z3.Union(z3.Range("a", "z"), z3.Range("A", "Z"), z3.Range("0", "9"), z3.Re("_"), z3.Re(".")))
    return z3.Concat(word, z3.Re("::"), word, z3.Option(z3.Concat(z3.Re("."), over)))


def s_check_names(ctx):
    from onnxscript.function_libs.torch_lib import registration
    I = Interp(ctx)
    shipped = re_to_z3(registration._QUALIFIED_OPERATOR_NAME_REGEX.pattern)

    def m_fullmatch(interp, s):
        return wrap(z3.InRe(term(s), shipped))
    I.models[registration._QUALIFIED_OPERATOR_NAME_REGEX.fullmatch] = m_fullmatch
    n = z3.String("name")
    ctx.witness["name"] = n
    as_tuple = ctx.choose(2, "tuple?") == 1
    arg = (SStr(n),) if as_tuple else SStr(n)
    clo = I.closure_of(registration._check_and_normalize_names)
    wellformed = z3.And(z3.InRe(n, spec_language()), z3.Not(z3.SuffixOf(z3.StringVal(".default"), n)))
    try:
        r = I.run_closure(clo, [arg], {})
    except PyRaise as e:
        ctx.cover("names.rejected")
        ctx.check("C16.registration.check_names.rejects_only_malformed_names", z3.Not(wellformed), CL_NAME)
        ctx.check("C16.registration.check_names.rejection_is_ValueError", isinstance(e.exc, ValueError), CL_NAME)
        return
    ctx.cover("names.accepted")
    ctx.check("C16.registration.check_names.accepted_names_are_wellformed_and_not_dot_default", wellformed, CL_NAME)
    ctx.check("C16.registration.check_names.returns_the_names_as_tuple",
              isinstance(r, tuple) and len(r) == 1 and isinstance(r[0], SStr) and r[0].t is n, CL_NAME)


def m_setdefault(interp, d, key, default):
    import ast as _ast
    for kk in list(d.keys()):
        if interp.truth(interp.compare(_ast.Eq, kk, key)):
            return d[kk]
    d[key] = default
    return default


def s_register(ctx):
    """Three registrations with symbolic (possibly equal) names and real/complex flags: afterwards every
    name has at most one real and one complex function, and it is the first one registered."""
    from onnxscript.function_libs.torch_lib import registration
    I = Interp(ctx)
    reg = SObj(registration.Registry, "registry")
    store = {}
    reg.fields["_registry"] = store
    names = [z3.String(f"n{i}") for i in range(3)]
    flags = [[False, True][ctx.choose(2, f"complex{i}")] for i in range(3)]
    funcs = [object() for _ in range(3)]
    clo = I.closure_of(registration.Registry.register)
    # dict.setdefault with a symbolic key: scan for an equal key (python semantics of == on str)
    orig_call = I.call

    def call(f, args=(), kwargs=None):
        if getattr(f, "__name__", "") == "setdefault" and getattr(f, "__self__", None) is store:
            return m_setdefault(I, store, *args)
        return orig_call(f, args, kwargs)
    I.call = call
    for i in range(3):
        I.run_closure(clo, [reg, funcs[i], SStr(names[i])], {"complex": flags[i]})
    # invariant
    import ast as _ast
    for key, ov in store.items():
        ctx.check("C16.registration.register.at_most_one_real_and_one_complex_per_name",
                  len(ov.fields["overloads"]) <= 1 and len(ov.fields["complex"]) <= 1, CL_ONE)
    # keys pairwise distinct as strings (one entry per name)
    keys = list(store.keys())
    for a in range(len(keys)):
        for b in range(a + 1, len(keys)):
            ctx.check("C16.registration.register.one_entry_per_name", term(keys[a]) != term(keys[b]), CL_ONE)
    # first registration wins: for each i, the function stored for (name_i, kind_i) is funcs[j] for the least j
    # with the same name and kind
    for i in range(3):
        entry = None
        for key, ov in store.items():
            if I.truth(I.compare(_ast.Eq, key, SStr(names[i]))):
                entry = ov
                break
        ok = entry is not None
        ctx.check("C16.registration.register.name_is_registered", ok, CL_ONE)
        if not ok:
            continue
        lst = entry.fields["complex" if flags[i] else "overloads"]
        first = None
        for j in range(i + 1):
            if flags[j] == flags[i] and I.truth(I.compare(_ast.Eq, SStr(names[j]), SStr(names[i]))):
                first = funcs[j]
                break
        ctx.check("C16.registration.register.first_registration_wins", len(lst) == 1 and lst[0] is first, CL_ONE)


def s_wrapper(ctx):
    """torch_op(...).wrapper: private functions are not registered; every name of the tuple is."""
    import onnxscript
    from onnxscript.function_libs.torch_lib import registration
    I = Interp(ctx)
    registered = []
    reg = SObj(registration.Registry, "registry")
    I.models[registration.Registry.register] = lambda interp, slf, f, name, complex=False: registered.append((slf, f, name, complex))
    processed = object()
    I.models[onnxscript.script] = lambda interp, *a, **k: (lambda f: processed)
    I.models[onnxscript.values.TracedOnnxFunction] = lambda interp, *a, **k: processed
    I.models[onnxscript.values.Opset] = lambda interp, *a, **k: Opaque("opset")
    private = [False, True][ctx.choose(2, "private")]
    cplx = [False, True][ctx.choose(2, "complex")]
    trace_only = [False, True][ctx.choose(2, "trace_only")]
    names = ("aten::foo", "aten::foo.Tensor") if ctx.choose(2, "tuple") else "aten::foo"
    deco = I.call(registration.torch_op, [names], {"registry": reg, "private": private, "complex": cplx, "trace_only": trace_only})
    r = I.call(deco, [lambda x: x])
    want = [] if private else list(names if isinstance(names, tuple) else (names,))
    ctx.check("C16.registration.torch_op.registers_every_name_unless_private",
              [x[2] for x in registered] == want and all(x[0] is reg and x[1] is processed and x[3] is cplx for x in registered), CL_ONE)
    ctx.check("C16.registration.torch_op.returns_the_processed_function", r is processed, CL_ONE)


# ------------------------------------------------------------------ data obligation ---------

TENSOR_TYPES = ("Tensor", "Tensor?", "Tensor[]", "Tensor?[]", "Tensor(a)", "Tensor(a!)")


def _is_tensor_type(t):
    s = str(t)
    return s.startswith("Tensor") or s.startswith("List[Tensor") or s.startswith("Optional[Tensor") or s.startswith("List[Optional[Tensor")


def _attr_accepts(attr_type, torch_type):
    """May a (non-tensor) ATen argument of this type be stored in an ONNX attribute of this type?  Only clear
    mismatches are rejected (a number into a string, a float into an integer attribute, a list into a scalar ...);
    Scalar / SymInt / ScalarType / Optional forms are accepted where a numeric attribute can hold them."""
    import onnx_ir as ir
    A = ir.AttributeType
    t = str(torch_type).replace("Optional[", "").rstrip("]") if str(torch_type).startswith("Optional[") else str(torch_type)
    scal = {"int": {A.INT, A.FLOAT}, "SymInt": {A.INT, A.FLOAT}, "bool": {A.INT}, "float": {A.FLOAT}, "str": {A.STRING},
            "number": {A.INT, A.FLOAT}, "Scalar": {A.INT, A.FLOAT}, "ScalarType": {A.INT}, "Layout": {A.INT}, "MemoryFormat": {A.INT}, "Device": {A.STRING, A.INT}}
    lst = {"List[int]": {A.INTS}, "List[SymInt]": {A.INTS}, "List[float]": {A.FLOATS}, "List[bool]": {A.INTS}, "List[str]": {A.STRINGS}}
    if t in scal:
        return attr_type in scal[t]
    if t in lst:
        return attr_type in lst[t]
    return True   # types this table does not know are not judged


def s_registry_data(_ctx):
    import onnx
    import onnx_ir as ir
    import torch
    from onnxscript._framework_apis import torch_2_5
    from onnxscript import values
    from contracts.c17_opsets import Agg
    agg = Agg()
    metas = torch_2_5.get_torchlib_ops()
    # history independence (C14 for this anchor): a SECOND call in the same process (a second export) describes the same registry
    again = torch_2_5.get_torchlib_ops()
    k1 = sorted((m.qualified_name, bool(m.is_complex), id(m.function)) for m in metas)
    k2 = sorted((m.qualified_name, bool(m.is_complex), id(m.function)) for m in again)
    agg.ob("C16.registry.a_second_call_returns_the_same_metas", k1 == k2 and len(again) == len(metas),
           f"first call {len(metas)} entries, second call {len(again)}", CL_ONE)
    skipped = []
    n = 0
    seen = {}
    cl = "C16: 'binding a call's arguments the way the exporter does ... gives every tensor argument to an input parameter and every non-tensor argument to a parameter that accepts it, leaves no required parameter of the function unbound, and drops only arguments that cannot affect the result'"
    for meta in metas:
        n += 1
        qn = meta.qualified_name
        where = f"{qn} -> {getattr(meta.function, 'name', meta.function)}"
        m = re.fullmatch(r"([A-Za-z0-9_]+)::([A-Za-z0-9_]+)(?:\.([A-Za-z0-9._]+))?", qn)
        agg.ob("C16.registry.name_wellformed_without_dot_default", bool(m) and not qn.endswith(".default"), where, CL_NAME)
        key = (qn, meta.is_complex)
        agg.ob("C16.registry.one_function_per_name_and_kind", key not in seen, f"{where} (also {seen.get(key)})", CL_ONE)
        seen[key] = where
        if not m:
            continue
        ns, name, overload = m.group(1), m.group(2), m.group(3) or "default"
        if ns in ("_operator", "math"):
            # FX call targets that are Python builtins (operator.add, math.ceil): "PyTorch defines the operator"
            # means the Python module defines that function; there is no torch schema to bind against
            import math as _math
            import operator as _operator
            pymod = {"_operator": _operator, "math": _math}[ns]
            agg.ob("C16.registry.python_builtin_target_exists", overload == "default" and callable(getattr(pymod, name, None)),
                   f"{where}: {ns}.{name} is not a function of the Python module", case=qn)
            continue
        if ns == "quantized_decomposed":
            try:
                import torch.ao.quantization.fx._decomposed  # noqa: F401  (registers the namespace)
            except Exception:  # noqa: BLE001
                pass
        if ns == "torchvision":
            try:
                import torchvision  # noqa: F401
            except Exception:  # noqa: BLE001
                skipped.append(qn)
                continue
        try:
            packet = getattr(getattr(torch.ops, ns), name)
            op = getattr(packet, overload)
            schema = op._schema
        except Exception as e:  # noqa: BLE001
            if True:
                agg.ob("C16.registry.torch_defines_the_overload", False, f"{where}: torch.ops.{ns}.{name}.{overload}: {e!r}"[:300],
                       "C16: 'For each operator name under which a function is registered, PyTorch defines that operator overload'", case=qn)
            continue
        agg.ob("C16.registry.torch_defines_the_overload", True, where)
        try:
            sig = meta.function.op_signature
        except Exception as e:  # noqa: BLE001
            agg.ob("C16.registry.function_has_an_op_signature", False, f"{where}: {e!r}"[:300], cl)
            continue
        agg.ob("C16.registry.function_has_an_op_signature", sig is not None, where, cl)
        if sig is None:
            continue
        params = list(sig.params)
        pos = [a for a in schema.arguments if not a.kwarg_only]
        kwo = [a for a in schema.arguments if a.kwarg_only]
        bound = set()
        has_variadic = any(isinstance(p, ir.schemas.Parameter) and p.variadic for p in params)
        # positional schema arguments are consumed by the function's parameters in order
        for i, a in enumerate(pos):
            if i >= len(params):
                if has_variadic:
                    continue
                agg.ob("C16.registry.dropped_arguments_cannot_affect_the_result", a.name in DROPPABLE or a.has_default_value() and False,
                       f"{where}: positional schema argument #{i} '{a.name}: {a.type}' has no parameter left ({[p.name for p in params]})", cl, case=f"{qn}:{a.name}")
                continue
            p = params[i]
            bound.add(p.name)
            if _is_tensor_type(a.type):
                agg.ob("C16.registry.tensor_argument_goes_to_an_input_parameter", isinstance(p, ir.schemas.Parameter),
                       f"{where}: tensor argument '{a.name}: {a.type}' bound to attribute parameter '{p.name}'", cl, case=f"{qn}:{a.name}")
            elif isinstance(p, ir.schemas.AttributeParameter) and a.name not in DROPPABLE:
                agg.ob("C16.registry.non_tensor_argument_goes_to_a_parameter_that_accepts_it", _attr_accepts(p.type, a.type),
                       f"{where}: positional schema argument #{i} '{a.name}: {a.type}' lands on attribute parameter '{p.name}' of type {p.type.name}", cl, case=f"{qn}:{a.name}")
        for a in kwo:
            match = [p for p in params if p.name == a.name]
            if not match:
                agg.ob("C16.registry.dropped_arguments_cannot_affect_the_result", a.name in DROPPABLE,
                       f"{where}: keyword-only schema argument '{a.name}: {a.type}' is dropped (no parameter of that name)", cl, case=f"{qn}:{a.name}")
                continue
            p = match[0]
            bound.add(p.name)
            if _is_tensor_type(a.type):
                agg.ob("C16.registry.tensor_argument_goes_to_an_input_parameter", isinstance(p, ir.schemas.Parameter),
                       f"{where}: tensor argument '{a.name}' bound to attribute parameter", cl, case=f"{qn}:{a.name}")
            elif isinstance(p, ir.schemas.AttributeParameter) and a.name not in DROPPABLE:
                agg.ob("C16.registry.non_tensor_argument_goes_to_a_parameter_that_accepts_it", _attr_accepts(p.type, a.type),
                       f"{where}: keyword-only schema argument '{a.name}: {a.type}' bound to attribute parameter '{p.name}' of type {p.type.name}", cl, case=f"{qn}:{a.name}")
        for p in params:
            if p.name in bound:
                continue
            agg.ob("C16.registry.no_required_parameter_left_unbound", not p.required,
                   f"{where}: required parameter '{p.name}' receives no schema argument (schema: {schema})"[:400], cl, case=f"{qn}:{p.name}")
        # scripted functions pass the ONNX checker
        f = meta.function
        if isinstance(f, values.OnnxFunction):
            try:
                fp = f.to_function_proto()
                onnx.checker.check_function(fp)
                ok, msg = True, ""
            except Exception as e:  # noqa: BLE001
                ok, msg = False, repr(e)[:300]
            agg.ob("C16.registry.scripted_function_proto_passes_checker", ok, f"{where}: {msg}",
                   "C16: 'every scripted (non trace-only) function's FunctionProto passes the ONNX checker'", case=qn)
    notes = [f"not-decided (library not installed, operator namespace unavailable): {', '.join(skipped)}"] if skipped else []
    return {"obligations": agg.obs, "paths": n, "covered": [f"registered_functions={n}"], "notes": notes, "functions": []}


SCENARIOS = [
    Scenario("C16.registration.check_names", s_check_names, [(REL, "_check_and_normalize_names")],
             trusted=["re.Pattern.fullmatch == membership in the regular language of the pattern (translated from the shipped pattern text on every run)"]),
    Scenario("C16.registration.register", s_register, [(REL, "Registry.register"), (REL, "OverloadedFunction.__init__")],
             kind="bounded", bound="three registrations with symbolic names (any equalities) and real/complex flags"),
    Scenario("C16.registration.torch_op", s_wrapper, [(REL, "torch_op"), (REL, "torch_op.wrapper")]),
    Scenario("C16.registry.data", s_registry_data, [("onnxscript/_framework_apis/torch_2_5.py", "get_torchlib_ops")], kind="evaluation",
             trusted=["installed torch (torch.ops.*._schema) and onnx.checker as data oracles",
                      "exporter binding rule transcribed from torch.onnx._internal.exporter._building._construct_named_inputs_and_attrs"]),
]


def s_op_signature_from_function(_ctx):
    """_schemas.op_signature_from_function executed from source on functions covering every annotation form torch_lib
    uses: a parameter is an ATTRIBUTE iff its annotation is int / float / bool / str or a Sequence of those (an
    Optional[...] of them is an INPUT that may be absent — the same rule as torch.onnx's own copy of this function, which
    binds the ATen arguments), otherwise an INPUT; order, names, required-ness (= no default) and defaults are kept; parameters annotated with the
    same TypeVar share one type constraint; each returned value becomes one output."""
    import typing
    from typing import Optional, Sequence, TypeVar
    import onnx_ir as ir
    from contracts.c17_opsets import Agg
    from pyvc.core import Ctx
    from onnxscript.ir import _schemas
    from onnxscript.onnx_types import FLOAT, INT64, TensorType
    agg = Agg()
    cl = "C16: 'its Python signature, as read by the exporter, accepts the ATen schema's arguments: tensor arguments map to inputs, scalar/list arguments to attributes'"
    from contracts import c16_samples as S
    f1, f2, f3, f4, f5, f6 = S.f1, S.f2, S.f3, S.f4, S.f5, S.f6
    ATTR = ir.AttributeType
    want = {
        "f1": [("self", "in", True, "TReal"), ("other", "in", True, "TReal"), ("alpha", ATTR.FLOAT, False, 1.0)],
        "f2": [("x", "in", True, None), ("dims", ATTR.INTS, True, None), ("keepdim", ATTR.INT, False, False), ("dtype", ATTR.INT, False, -1)],
        "f3": [("x", "in", True, "TAny"), ("weight", "in", False, "TAny"), ("eps", "in", False, "T_eps"), ("mode", ATTR.STRING, False, "mean")],
        "f4": [("tensors", "in", True, "Sequence_TReal"), ("dim", ATTR.INT, False, 0)],
        "f5": [("x", "in", True, "T_x"), ("scale", ATTR.FLOATS, False, (1.0, 2.0))],
        "f6": [("x", "in", True, None), ("idx", "in", False, None), ("names", "in", False, "T_names")],
    }
    outs = {"f1": 1, "f2": 1, "f3": 2, "f4": 1, "f5": 0, "f6": 1}
    n = 0
    for fn in (f1, f2, f3, f4, f5, f6):
        n += 1
        name = fn.__name__
        ctx = Ctx([], {"solver_s": 0.0, "queries": 0})
        I = Interp(ctx)
        try:
            sig = I.run_closure(I.closure_of(_schemas.op_signature_from_function), [fn, "aten", name], {})
            got = []
            for p in sig.params:
                if isinstance(p, ir.schemas.AttributeParameter):
                    dv = p.default.value if p.default is not None else None
                    got.append((p.name, p.type, p.required, dv))
                else:
                    got.append((p.name, "in", p.required, p.type_constraint.name))
            exp_ = []
            for (pn, kind, req, extra), g in zip(want[name], got):
                exp_.append((pn, kind, req, g[3] if (kind == "in" and extra is None) else extra))
            ok = got == exp_ and len(got) == len(want[name]) and len(sig.outputs) == outs[name] and sig.domain == "aten" and sig.name == name
            shared = True
            byname = {}
            for p in sig.params:
                if not isinstance(p, ir.schemas.AttributeParameter):
                    shared = shared and byname.setdefault(p.type_constraint.name, p.type_constraint) is p.type_constraint
            ok = ok and shared
            detail = f"{name}: parameters {got}, outputs {len(sig.outputs)}; expected {exp_}, outputs {outs[name]}"
        except Exception as e:  # noqa: BLE001
            ok, detail = False, f"{name}: {type(e).__name__}: {e}"
        agg.ob("C16.schemas.op_signature_from_function.annotations_decide_inputs_and_attributes", ok, detail, cl, case=name)
    return {"obligations": agg.obs, "paths": n, "covered": [f"signature_forms={n}"], "notes": [], "functions": []}


SCENARIOS.append(Scenario("C16.schemas.op_signature_from_function", s_op_signature_from_function,
                          [("onnxscript/ir/_schemas.py", "op_signature_from_function"), ("onnxscript/ir/_schemas.py", "get_attr_type"),
                           ("onnxscript/ir/_schemas.py", "_get_type_constraint_name")], kind="evaluation",
                          trusted=["inspect.signature / typing.get_type_hints (CPython)", "ir.schemas.Parameter / AttributeParameter / OpSignature (onnx_ir)"]))
