"""C03 / C04 — FoldConstantsPass.process_node and the graph-level plumbing of constant folding.

  process_node       path contract: the reference evaluator is reached only if the node is not a Constant, has no
                     graph-valued attribute, is not non-deterministic, none of its inputs is a graph input, every input has
                     a constant value, should_fold is not False, and (default rules) the op is not blacklisted and the
                     input-size gate is respected; an input is substituted only by an ir.Value sym value; an exception of a
                     partial evaluator surfaces as RuntimeError (documented), an exception inside the reference evaluator
                     does not surface at all
  _sym_value_can_replace_graph_output / visit_graph
                     a graph output is replaced only by a value produced in that graph that is not already an output and
                     not a graph input, and it takes over the output's name
  _clear_unused_initializers   an initializer is dropped only if it has no uses and is not a graph output
  FoldConstantsPass.call       per-run state is reset before visiting; NameFixPass runs iff something was modified
"""
from __future__ import annotations

import z3

from pyvc.harness import Scenario
from pyvc.interp import Interp, PyRaise
from pyvc.values import SObj, SInt, Opaque, term, SBool
from .irmodel import World, NArr, OpRecorder
from .c10_version import GraphLike

REL = "onnxscript/optimizer/_constant_folding.py"
CL03 = "C03: 'optimize ... produces the same outputs as the original model' — a node is evaluated at optimisation time only when every input is a true constant and the operator is deterministic"
CL04 = "C04: 'The graph's declared inputs and outputs keep their names, order and declared types, and initializers that are also graph inputs ... are never folded into constants'"


def _cf():
    from onnxscript.optimizer import _constant_folding
    return _constant_folding


def s_process_node(ctx, opkind=0):
    import onnx_ir as ir
    cf = _cf()
    I = Interp(ctx)
    W = World(I)
    p = SObj(cf.FoldConstantsPass, "pass")
    state = I.instantiate(cf.OptimizerState, [], {})
    limit = 100
    sf = [None, True, False][ctx.choose(3, "should_fold")]

    def should_fold(n):
        raise AssertionError
    I.models[should_fold] = lambda interp, n: sf
    # opkind >= 4: an operator whose meaning changed at some opset version (the reference implementation has the newer one only);
    # the model's opset version is then arbitrary
    CHANGED = {4: ("Softmax", 13), 5: ("LogSoftmax", 13), 6: ("Hardmax", 13)}
    opset_version = 18
    if opkind in CHANGED:
        from pyvc.values import SInt as _SInt
        vterm = ctx.int("opset_version")
        ctx.assume(vterm >= 1)
        ctx.witness["opset_version"] = vterm
        opset_version = _SInt(vterm)
    p.fields.update(_state=state, _opset_imports={"": opset_version}, shape_inference=False, input_size_limit=limit, output_size_limit=limit,
                    should_fold=should_fold, _modified=False)
    flags = {"is_constant_op": opkind == 1, "blacklisted": opkind == 2, "always_fold_op": opkind == 3}
    for nm in ("has_graph_attribute", "non_deterministic"):
        flags[nm] = ctx.choose(2, nm) == 1
    inputs = []
    info = []
    for i in range(2):
        present = ctx.choose(2, f"input{i} present") == 0
        if not present:
            inputs.append(None)
            info.append(None)
            continue
        gi = ctx.choose(2, f"input{i} is a graph input") == 1
        has_const = ctx.choose(2, f"input{i} has a constant value") == 0
        size = ([10, 1000][ctx.choose(2, f"input{i} large")] if i == 0 else 10) if has_const else 0
        single_consumer = ctx.choose(2, f"input{i} single consumer") == 0 if (has_const and size > limit) else True
        t = None
        if has_const:
            t = W.tensor([1] * 2, ir.DataType.INT64)
            t.fields["size"] = size
        v = W.value(f"in{i}", dims=[2], rt=[], dtype=ir.DataType.INT64, const=t, graph_input=gi, initializer=has_const,
                    n_uses=(1 if single_consumer else 2))
        inputs.append(v)
        info.append((gi, has_const, size, single_consumer))
    op_type = "Constant" if flags["is_constant_op"] else ("ConstantOfShape" if flags["blacklisted"] else ("Transpose" if flags["always_fold_op"] else "Add"))
    if opkind in CHANGED:
        op_type = CHANGED[opkind][0]
    attrs = {}
    node = W.node(op_type, inputs, attrs=attrs)
    attr_kind = ["none", "int", "reference"][ctx.choose(3, "attribute")]
    if attr_kind != "none":
        a = SObj(ir.Attr, "axis")
        is_ref = attr_kind == "reference"
        a.fields.update(name="axis", type=ir.AttributeType.INT, value=(None if is_ref else 7), ref_attr_name=("outer_axis" if is_ref else None))

        def f_is_ref():
            raise AssertionError
        I.models[f_is_ref] = (lambda r: lambda interp: r)(is_ref)
        a.fields["is_ref"] = f_is_ref
        node.fields["attributes"]["axis"] = a
    if flags["has_graph_attribute"]:
        a = SObj(ir.Attr, "body")
        a.fields.update(name="body", type=ir.AttributeType.GRAPH, value=Opaque("graph"))
        node.fields["attributes"]["body"] = a
    replaced_inputs = []

    def rip(i, v):
        raise AssertionError
    I.models[rip] = lambda interp, i, v: replaced_inputs.append((i, v))
    node.fields["replace_input_with"] = rip
    # one input may be known to equal another value (Identity chain): substitution must use ir.Value sym values only
    alias = None
    if inputs[0] is not None and ctx.choose(2, "input0 has a sym value") == 1:
        kind = ctx.choose(2, "sym value kind")
        if kind == 0:
            alias = W.value("alias", dims=[2], rt=[], dtype=ir.DataType.INT64)
            I.call(I.getattr(state, "set_sym_value"), [inputs[0], alias])
        else:
            I.call(I.getattr(state, "set_sym_value"), [inputs[0], ir.Shape([2])])
    evals = []
    I.models[cf._is_non_deterministic_op] = lambda interp, n: flags["non_deterministic"]
    I.models[cf._process_constant_node] = lambda interp, n: None
    I.models[cf.registry.lookup_evaluators] = lambda interp, d, o, v: []
    DEF = list(cf.DEFAULT_CONSTANT_FOLD_BLACKLIST)
    okev = ctx.choose(2, "reference evaluation succeeds") == 0
    eval_kwargs = []
    I.models[cf._reference_evaluator.evaluate] = lambda interp, *a, **k: (evals.append(a) or eval_kwargs.append(k) or (NArr([1, 2], None) if okev else None))
    # the folded value is named like the node's output (new_initializer, real behaviour); the graph may ALREADY hold an initializer of
    # that name: values of inlined If branches keep their names until NameFixPass runs at the end of the pass
    new_init = SObj(ir.Value, "folded")
    new_init.fields["name"] = "t"
    I.models[cf.FoldConstantsPass.new_initializer] = lambda interp, s, n, arr: new_init
    I.models[cf.FoldConstantsPass.new_constant] = lambda interp, s, n, arr: None
    g = SObj(ir.Graph, "graph")
    other = SObj(ir.Value, "other_initializer")
    other.fields["name"] = "t"
    name_taken = ctx.choose(2, "the graph already has an initializer named like the folded output") == 1
    inits = {"t": other} if name_taken else {}
    g.fields["initializers"] = inits

    def reg(v):
        raise AssertionError

    def m_reg(interp, v):
        # onnx_ir Graph.register_initializer: a DIFFERENT value registered under the same name is an error
        nm = v.fields["name"]
        if nm in inits and inits[nm] is not v:
            raise PyRaise(ValueError(f"Initializer '{nm}' is already registered, but it is not the same object"))
        inits[nm] = v
    I.models[reg] = m_reg
    g.fields["register_initializer"] = reg
    node.fields["graph"] = g
    clo = I.closure_of(cf.FoldConstantsPass.process_node)
    try:
        r = I.run_closure(clo, [p, node, False], {})
    except PyRaise as e:
        if name_taken and isinstance(e.exc, ValueError) and "already registered" in str(e.exc):
            # its own obligation name, so that the recorded finding explains exactly this cause and nothing else
            ctx.check("C04.folding.process_node.never_raises_when_an_initializer_is_already_named_like_the_folded_output", False, "C04: 'return without raising'")
        else:
            ctx.check("C04.folding.process_node.never_raises_without_partial_evaluators", False, "C04: 'return without raising'")
        return
    if name_taken:
        ctx.check("C04.folding.process_node.an_existing_initializer_of_the_same_name_is_kept", inits.get("t") is other and other.fields["name"] == "t",
                  "C04: 'the result is a valid model' - no initializer is dropped or overwritten")
    if new_init in inits.values():
        ctx.cover("process_node.folded_value_registered")
        ctx.check("C04.folding.process_node.the_folded_value_is_registered_under_its_own_name",
                  [k for k, v in inits.items() if v is new_init] == [new_init.fields["name"]], "C04: 'the result is a valid model'")
    if alias is not None:
        ctx.check("C03.folding.process_node.input_substituted_by_equal_value", replaced_inputs == [(0, alias)], CL03)
    else:
        ctx.check("C03.folding.process_node.no_substitution_without_value_sym", replaced_inputs == [], CL03)
    present = [x for x in info if x is not None]
    if evals:
        ctx.cover("process_node.evaluated")
        guards = (not flags["is_constant_op"] and not flags["has_graph_attribute"] and not flags["non_deterministic"]
                  and not any(gi for gi, _, _, _ in present) and all(hc for _, hc, _, _ in present) and sf is not False)
        ctx.check("C03.folding.process_node.evaluation_only_behind_all_guards", guards, CL03)
        ctx.check("C04.folding.process_node.no_evaluation_of_nodes_reading_graph_inputs", not any(gi for gi, _, _, _ in present), CL04)
        ctx.check("C03.folding.process_node.no_evaluation_with_an_unresolved_attribute_reference", attr_kind != "reference",
                  CL03 + " — inside a function an attribute may refer to the function's attribute parameter: its value is not known, the operator's default must not be used")
        a = evals[-1]
        if opkind in CHANGED:
            import z3 as _z3
            from pyvc.values import term as _term
            ctx.check("C03.folding.process_node.no_reference_evaluation_of_an_operator_under_an_opset_that_predates_the_implemented_semantics",
                      _term(a[2]) >= CHANGED[opkind][1],
                      CL03 + " — Softmax / LogSoftmax / Hardmax before opset 13 coerce the input to 2D around axis (default 1); onnx.reference implements the opset-13 meaning for every version")
        vals = list(a[3:])
        pos_ok = len(vals) == len(inputs) and all((v is None) == (x is None) and (x is None or v is x.fields["const_value"].arr) for v, x in zip(vals, inputs))
        ctx.check("C03.folding.process_node.evaluator_gets_every_input_at_its_own_position", a[:2] == ("", op_type) and pos_ok,
                  CL03 + " — an omitted optional input stays an empty position, the later inputs must not move")
        kw = eval_kwargs[-1]
        ctx.check("C03.folding.process_node.evaluator_gets_the_attributes_by_name", set(kw) == set(node.fields["attributes"]) and
                  (attr_kind != "int" or kw.get("axis") == 7), CL03)
        if sf is None:
            large = [sz > limit for _, _, sz, _ in present]
            gate = (not flags["blacklisted"]) and ((not any(large)) or (op_type == "Transpose" and all(sc or not lg for (_, _, _, sc), lg in zip(present, large))))
            ctx.check("C03.folding.process_node.default_rules_respect_blacklist_and_input_size_limit", gate,
                      "C03: 'under any combination of its options ... input/output size limits'")
    else:
        ctx.cover("process_node.not_evaluated")
        ctx.check("C03.folding.process_node.no_replacement_without_evaluation", r is None, CL03)


def s_can_replace_output(ctx):
    import onnx_ir as ir
    cf = _cf()
    I = Interp(ctx)
    graph, other = SObj(ir.Graph, "graph"), SObj(ir.Graph, "othergraph")
    has_producer = ctx.choose(2, "sym value has a producer") == 0
    same_graph = ctx.choose(2, "producer in this graph") == 0
    already_output = ctx.choose(2, "sym value is already a graph output") == 1
    prod = SObj(ir.Node, "producer")
    prod.fields["graph"] = graph if same_graph else other
    sv = SObj(ir.Value, "sym")

    def producer():
        raise AssertionError

    def igo():
        raise AssertionError
    I.models[producer] = lambda interp: prod if has_producer else None
    I.models[igo] = lambda interp: already_output
    sv.fields.update(producer=producer, is_graph_output=igo, name="s")
    out = SObj(ir.Value, "out")
    r = I.run_closure(I.closure_of(cf._sym_value_can_replace_graph_output), [graph, sv, out], {})
    ctx.check("C04.folding.sym_value_can_replace_graph_output.iff_produced_here_and_not_an_output",
              r is (has_producer and same_graph and not already_output), CL04)


def s_visit_graph_outputs(ctx):
    """visit_graph: a graph output is replaced only under _sym_value_can_replace_graph_output and keeps its name."""
    import onnx_ir as ir
    cf = _cf()
    I = Interp(ctx)
    p = SObj(cf.FoldConstantsPass, "pass")
    state = I.instantiate(cf.OptimizerState, [], {})
    p.fields.update(_state=state, _modified=False)
    out = SObj(ir.Value, "out")
    out.fields["name"] = "Y"
    alias = SObj(ir.Value, "alias")
    alias.fields["name"] = "tmp"
    kind = ctx.choose(3, "sym value of the output")  # none / a value / a shape
    if kind == 1:
        I.call(I.getattr(state, "set_sym_value"), [out, alias])
    elif kind == 2:
        I.call(I.getattr(state, "set_sym_value"), [out, ir.Shape([2])])
    allowed = ctx.choose(2, "replacement allowed") == 0
    I.models[cf._sym_value_can_replace_graph_output] = lambda interp, g, s, o: allowed
    I.models[cf.FoldConstantsPass.visit_node] = lambda interp, s, n, g: None
    graph = GraphLike([], {})
    graph.outputs = [out]
    graph.inputs = ["IN"]
    I.run_closure(I.closure_of(cf.FoldConstantsPass.visit_graph), [p, graph], {})
    if kind == 1 and allowed:
        ctx.check("C04.folding.visit_graph.replaced_output_keeps_the_output_name", graph.outputs == [alias] and alias.fields["name"] == "Y", CL04)
        # the renamed value and the old output now carry the same name: the pass must report the model as modified,
        # which is what makes call() run NameFixPass ("value names are unique")
        ctx.check("C04.folding.visit_graph.renaming_an_output_marks_the_model_modified", p.fields["_modified"] is True,
                  "C04: 'value names are unique' — two values named like the output exist until NameFixPass, which runs only when _modified is set")
    else:
        ctx.check("C04.folding.visit_graph.output_untouched_otherwise", graph.outputs == [out] and out.fields["name"] == "Y" and alias.fields["name"] == "tmp", CL04)
    ctx.check("C04.folding.visit_graph.graph_inputs_never_written", graph.inputs == ["IN"], CL04)


def s_clear_unused_initializers(ctx):
    import onnx_ir as ir
    cf = _cf()
    I = Interp(ctx)
    W = World(I)
    inits = {}
    g = SObj(ir.Graph, "graph")
    g.fields["initializers"] = inits
    vals, facts = [], []
    for i in range(2):
        is_init = ctx.choose(2, f"value{i} is an initializer") == 0
        n_uses = ctx.choose(2, f"value{i} still used")
        is_out = ctx.choose(2, f"value{i} is a graph output") == 1
        v = W.value(f"w{i}", dims=[1], rt=[], const=Opaque("t"), initializer=is_init, graph_output=is_out, n_uses=n_uses)
        v.fields["graph"] = g
        if is_init:
            inits[f"w{i}"] = v
        vals.append(v)
        facts.append((is_init, n_uses, is_out))
    I.run_closure(I.closure_of(cf._clear_unused_initializers), [vals], {})
    for i, (is_init, n_uses, is_out) in enumerate(facts):
        if is_init:
            dropped = f"w{i}" not in inits
            ctx.check("C04.folding.clear_unused_initializers.dropped_iff_unused_and_not_an_output", dropped == (n_uses == 0 and not is_out),
                      "C04: 'nothing the result still references (initializer, function) has been removed'")


def s_call_resets_state(ctx):
    import onnx_ir as ir
    cf = _cf()
    I = Interp(ctx)
    p = SObj(cf.FoldConstantsPass, "pass")
    old_state = Opaque("state of the previous run")
    p.fields.update(_counts={"stale": 1}, _sizes={"stale": 1}, _modified=True, _state=old_state, _opset_imports={"old": 1})
    events = []
    modifies = ctx.choose(2, "this run modifies the model") == 1

    def m_visit_graph(interp, self, g):
        events.append(("state_at_visit", self.fields["_state"], dict(self.fields["_counts"]), self.fields["_modified"], self.fields["_opset_imports"]))
        if modifies:
            self.fields["_modified"] = True
    I.models[cf.FoldConstantsPass.visit_graph] = m_visit_graph
    I.models[cf.FoldConstantsPass.visit_function] = lambda interp, s, f: events.append(("function", f))
    I.instance_models = [(ir.passes.PassBase, lambda interp, pp, m: events.append(("pass", type(pp).__name__)))]
    model = SObj(ir.Model, "model")
    model.fields.update(graph=Opaque("graph"), functions={"f": "F"}, opset_imports={"": 18})
    r = I.run_closure(I.closure_of(cf.FoldConstantsPass.call), [p, model], {})
    st = [e for e in events if e[0] == "state_at_visit"][0]
    ctx.check("C14.folding.call.per_run_state_reset_before_visiting",
              st[1] is not old_state and st[2] == {} and st[3] is False and st[4] == {"": 18},
              "C14: 'regardless of which other scripts or models ... were handled earlier in the same process by the same decorator, pass and rule objects'")
    ctx.check("C04.folding.call.namefix_iff_modified", (("pass", "NameFixPass") in events) == modifies, "C04: 'value names are unique'")
    ctx.check("C03.folding.call.visits_every_function", ("function", "F") in events, CL03)


F = lambda *q: [(REL, x) for x in q]
SCENARIOS = [
    Scenario(f"C03.folding.process_node[{['Add', 'Constant', 'ConstantOfShape (blacklisted)', 'Transpose (always-fold)', 'Softmax (any opset)', 'LogSoftmax (any opset)', 'Hardmax (any opset)'][k]}]", (lambda k: lambda ctx: s_process_node(ctx, k))(k), F("FoldConstantsPass.process_node", "_is_onnx_op", "_is_control_flow_op"), kind="bounded",
             bound="node with <= 2 inputs; every combination of the guard flags, should_fold in {None, True, False}, small/large constants, single/multiple consumers",
             trusted=["onnx.reference evaluators compute what the runtime computes FOR THE NEWEST VERSION of the operator they implement; utils.is_onnx_domain",
                      "ONNX changelog: Softmax / LogSoftmax / Hardmax changed meaning at opset 13; onnx.reference implements one version of them"], max_paths=40000, budget_s=900)
    for k in range(7)
] + [
    Scenario("C04.folding.sym_value_can_replace_graph_output", s_can_replace_output, F("_sym_value_can_replace_graph_output")),
    Scenario("C04.folding.visit_graph_outputs", s_visit_graph_outputs, F("FoldConstantsPass.visit_graph")),
    Scenario("C04.folding.clear_unused_initializers", s_clear_unused_initializers, F("_clear_unused_initializers")),
    Scenario("C04.folding.call", s_call_resets_state, F("FoldConstantsPass.call", "FoldConstantsPass._reset")),
]


def s_move_initializers(ctx):
    """_move_initializers_to_graph (inlining a constant-condition If): every initializer of the branch ends up in the main
    graph under a name that clashes neither with an existing initializer nor with another moved one; nothing is lost."""
    import onnx_ir as ir
    cf = _cf()
    I = Interp(ctx)
    names = ["w", "w_1", "w_2"]
    src_names = [n for n in names if ctx.choose(2, f"branch has {n}") == 0]
    dst_names = [n for n in names if ctx.choose(2, f"main graph has {n}") == 0]
    src_vals = {}
    for n in src_names:
        v = SObj(ir.Value, "branch_" + n)
        v.fields["name"] = n
        src_vals[n] = v
    dst_vals = {n: "main_" + n for n in dst_names}
    src = SObj(ir.Graph, "branch")
    src.fields["initializers"] = dict(src_vals)
    dst = SObj(ir.Graph, "main")
    dst_inits = dict(dst_vals)
    dst.fields["initializers"] = dst_inits
    failed = []

    def reg(v):
        raise AssertionError

    def m_reg(interp, v):
        nm = v.fields["name"]
        if nm in dst_inits and dst_inits[nm] is not v:
            failed.append(nm)
            raise PyRaise(ValueError(f"initializer {nm} already registered"))
        dst_inits[nm] = v
    I.models[reg] = m_reg
    dst.fields["register_initializer"] = reg
    try:
        I.run_closure(I.closure_of(cf._move_initializers_to_graph), [src, dst], {})
    except PyRaise as e:
        ctx.check("C04.folding.move_initializers.never_raises", False, "C04: 'return without raising'")
        return
    moved = [v for v in dst_inits.values() if isinstance(v, SObj)]
    ctx.check("C04.folding.move_initializers.every_branch_initializer_moved", sorted(id(v) for v in moved) == sorted(id(v) for v in src_vals.values())
              and src.fields["initializers"] == {}, "C04: 'nothing the result still references (initializer, function) has been removed'")
    ctx.check("C04.folding.move_initializers.existing_initializers_untouched", all(dst_inits.get(n) == "main_" + n for n in dst_names), CL04)
    ctx.check("C04.folding.move_initializers.names_unique_in_the_destination", all(dst_inits[v.fields["name"]] is v for v in moved),
              "C04: 'value names are unique'")
    # C15 frame: on the ModelProto entry of optimize() the IR initializers are views of the caller's TensorProtos
    # (onnx_ir: deserialize_model wraps them in TensorProtoTensor; ir.Value.name = s also sets const_value.name, and
    # TensorProtoTensor.name writes proto.name — cross-checked natively in tools/engine_selftest.py).  A functional variant must
    # therefore not rename, in place, an initializer object that came from the argument.
    renamed = [o for o, f in I.heap_writes if f == "name" and any(o is v for v in src_vals.values())]
    ctx.check("C15.optimizer.optimize.proto_form.argument_not_written_through_a_renamed_initializer", not renamed,
              "C15: 'In-place variants mutate the object they were given; the others leave their argument unchanged'")


SCENARIOS.append(Scenario("C04.folding.move_initializers", s_move_initializers, F("_move_initializers_to_graph"), kind="bounded",
                          bound="initializer names drawn from {w, w_1, w_2} in branch and main graph (all 64 combinations)"))


def s_reference_evaluator(ctx):
    """ReferenceEvaluator.evaluate / get_evaluator are total: whatever the reference implementation does (missing
    operator, any exception raised while loading or evaluating — IndexError for an out-of-range Gather in a dead branch,
    ZeroDivisionError, a library-specific error ...), the optimizer sees None ("cannot fold") and never an exception."""
    import onnx
    cf = _cf()
    I = Interp(ctx)

    class LibraryError(Exception):
        pass
    excs = [IndexError("index 5 is out of bounds"), ZeroDivisionError("division by zero"), KeyError("k"), OverflowError("x"),
            LibraryError("reference implementation failed"), RuntimeError("r"), TypeError("t"), ValueError("v"), NotImplementedError("n"),
            AttributeError("a"), AssertionError("assert")]
    how = ["load fails", "no implementation", "eval raises", "eval returns"][ctx.choose(4, "behaviour of the reference implementation")]
    exc = excs[ctx.choose(len(excs), "exception")] if how in ("load fails", "eval raises") else None
    result = Opaque("value")

    def ev(*a, **k):
        raise AssertionError
    seen = []

    def m_ev(interp, *a, **k):
        seen.append((a, k))
        if how == "eval raises":
            raise PyRaise(exc)
        return result
    I.models[ev] = m_ev
    impl = SObj(object, "op_impl_class")
    impl.fields["eval"] = ev

    def m_load(interp, domain, op, version, *a, **k):
        if how == "load fails":
            raise PyRaise(exc)
        if how == "no implementation":
            raise PyRaise(onnx.reference.op_run.RuntimeContextError("no implementation") if hasattr(onnx.reference, "op_run") and hasattr(onnx.reference.op_run, "RuntimeContextError") else NotImplementedError("none"))
        return impl
    I.models[onnx.reference.ops.load_op] = m_load
    r_self = SObj(cf.ReferenceEvaluator, "ref")
    try:
        r = I.run_closure(I.closure_of(cf.ReferenceEvaluator.evaluate), [r_self, "", "Gather", 13, "in0", "in1"], {"axis": 0})
    except PyRaise as e:
        ctx.check("C04.folding.reference_evaluator.never_raises", False, "C04: 'optimize, rewrite and fold_constants return without raising'")
        return
    ctx.check("C04.folding.reference_evaluator.never_raises", True, "C04: 'optimize, rewrite and fold_constants return without raising'")
    if how == "eval returns":
        ctx.check("C03.folding.reference_evaluator.returns_what_the_reference_implementation_computed", r is result and
                  seen == [(("in0", "in1"), {"axis": 0})], CL03)
    else:
        ctx.check("C03.folding.reference_evaluator.none_when_not_evaluated", r is None, CL03)


SCENARIOS.append(Scenario("C04.folding.reference_evaluator", s_reference_evaluator,
                          [(REL, "ReferenceEvaluator.evaluate"), (REL, "ReferenceEvaluator.get_evaluator")],
                          trusted=["onnx.reference.ops.load_op / OpRun.eval may raise any Exception subclass"]))


def s_replace_node(ctx):
    """replace_node: exactly the folded node is replaced (new nodes inserted at its position, its outputs redirected to
    the new outputs), unused initializers are cleared only for graphs, and the model is reported as modified."""
    import onnx_ir as ir
    cf = _cf()
    I = Interp(ctx)
    p = SObj(cf.FoldConstantsPass, "pass")
    p.fields.update(_modified=False)
    is_graph = ctx.choose(2, "root is a graph (0) or a function (1)") == 0
    root = SObj(ir.Graph if is_graph else ir.Function, "root")
    a, b = SObj(ir.Value, "a"), SObj(ir.Value, "b")
    ins = [a, None, b] if ctx.choose(2, "an optional input is omitted") == 1 else [a, b]
    outs = [SObj(ir.Value, "out0")]
    node = SObj(ir.Node, "node")
    node.fields.update(inputs=ins, outputs=outs, graph=root, domain="", op_type="Add", name="n")
    new_nodes = [SObj(ir.Node, "new")] if ctx.choose(2, "replacement has nodes") == 1 else []
    new_outs = [SObj(ir.Value, "newout")]
    rep = I.call(cf.Replacement, [new_outs, new_nodes])
    log = []
    I.models[cf._record_contributing_values] = lambda interp, n, r: log.append(("record", n, r))

    def m_replace(interp, root_, ins_point, old_nodes, new_nodes_, old_values, new_values):
        log.append(("replace", root_, ins_point, list(old_nodes), list(new_nodes_), list(old_values), list(new_values)))
        node.fields["graph"] = None
        node.fields["inputs"] = [None] * len(node.fields["inputs"])   # the detached node loses its inputs
    I.models[ir.convenience.replace_nodes_and_values] = m_replace
    I.models[cf._clear_unused_initializers] = lambda interp, vals: log.append(("clear", list(vals)))
    try:
        I.run_closure(I.closure_of(cf.FoldConstantsPass.replace_node), [p, node, rep, root], {})
    except PyRaise as e:
        ctx.check("C04.folding.replace_node.never_raises", False, CL04)
        return
    reps = [e for e in log if e[0] == "replace"]
    ok = len(reps) == 1 and reps[0][1] is root and reps[0][2] is node and reps[0][3] == [node] and reps[0][4] == new_nodes \
        and reps[0][5] == outs and reps[0][6] == new_outs
    ctx.check("C04.folding.replace_node.replaces_exactly_the_folded_node_and_redirects_its_outputs", ok,
              "C03/C04: only the folded node is removed; its outputs are replaced by the new outputs, position for position")
    clears = [e for e in log if e[0] == "clear"]
    if is_graph:
        ctx.check("C04.folding.replace_node.initializers_of_the_removed_node_are_checked_for_further_use",
                  len(clears) == 1 and clears[0][1] == [a, b] and log.index(clears[0]) > log.index(reps[0]) if reps else False, CL04)
    else:
        ctx.check("C04.folding.replace_node.functions_have_no_initializers_to_clear", not clears, CL04)
    ctx.check("C04.folding.replace_node.marks_the_model_modified", p.fields["_modified"] is True,
              "C04: 'value names are unique' — NameFixPass runs only when the pass reports a modification")
    recs = [e for e in log if e[0] == "record"]
    ctx.check("C03.folding.replace_node.provenance_recorded_before_the_node_is_detached", len(recs) == 1 and recs[0][1] is node and
              recs[0][2] is rep and (not reps or log.index(recs[0]) < log.index(reps[0])), CL03)


def s_visit_node(ctx):
    import onnx_ir as ir
    cf = _cf()
    I = Interp(ctx)
    p = SObj(cf.FoldConstantsPass, "pass")
    is_function = ctx.choose(2, "root is a function") == 1
    root = SObj(ir.Function if is_function else ir.Graph, "root")
    node = SObj(ir.Node, "node")
    a1, a2 = SObj(ir.Attr, "attr1"), SObj(ir.Attr, "attr2")
    node.fields["attributes"] = {"then_branch": a1, "axis": a2}
    folds = ctx.choose(2, "process_node returns a replacement") == 1
    rep = SObj(cf.Replacement, "replacement")
    log = []
    I.models[cf.FoldConstantsPass.process_node] = lambda interp, s, n, is_function=None: (log.append(("process", n, is_function)) or (rep if folds else None))
    I.models[cf.FoldConstantsPass.visit_attribute] = lambda interp, s, a: log.append(("attr", a))
    I.models[cf.FoldConstantsPass.replace_node] = lambda interp, s, n, r, rt: log.append(("replace", n, r, rt))
    I.run_closure(I.closure_of(cf.FoldConstantsPass.visit_node), [p, node, root], {})
    ctx.check("C03.folding.visit_node.process_node_told_whether_the_container_is_a_function", log[:1] == [("process", node, is_function)],
              "C04: initializers cannot be added to functions: the folding result must be a Constant node there")
    if folds:
        ctx.check("C03.folding.visit_node.replacement_applied_to_this_node_in_this_container", log[1:] == [("replace", node, rep, root)], CL03)
    else:
        ctx.check("C03.folding.visit_node.subgraphs_of_an_unfolded_node_are_visited", log[1:] == [("attr", a1), ("attr", a2)],
                  "C03: nodes inside If/Loop bodies are optimized too; every attribute is offered to visit_attribute")


SCENARIOS += [
    Scenario("C04.folding.replace_node", s_replace_node, F("FoldConstantsPass.replace_node"),
             trusted=["ir.convenience.replace_nodes_and_values(root, insertion_point, old_nodes, new_nodes, old_values, new_values) (onnx_ir)"]),
    Scenario("C03.folding.visit_node", s_visit_node, F("FoldConstantsPass.visit_node")),
]


def s_if_op(ctx):
    """if_op partial evaluator: If with a constant condition is replaced by the nodes of the SELECTED branch; the If
    outputs become that branch's outputs (same order); the other branch is not touched; the branch graph is emptied so
    that its nodes and values are free to move; its initializers go to the enclosing graph; an unknown condition keeps
    the node."""
    import onnx_ir as ir
    from .c10_version import GraphLike
    cf = _cf()
    I = Interp(ctx)
    state = I.instantiate(cf.OptimizerState, [], {})
    cond = [None, True, False][ctx.choose(3, "condition known as")]
    I.models[cf._get_bool_value] = lambda interp, v: cond

    def mk_branch(tag):
        n_nodes = 1 + ctx.choose(2, f"{tag} has two nodes")
        nodes = []
        for i in range(n_nodes):
            nd = SObj(ir.Node, f"{tag}_n{i}")
            o = SObj(ir.Value, f"{tag}_v{i}")
            o.fields["name"] = f"{tag}_v{i}"
            nd.fields.update(name=f"{tag}_n{i}", outputs=[o])
            nodes.append(nd)
        g = GraphLike(list(nodes), {})
        g.outputs = [nodes[-1].fields["outputs"][0]]
        if ctx.choose(2, f"{tag} returns the same value twice") == 1:
            g.outputs = g.outputs * 2
        g.initializers = {}
        removed = []
        g.remove = lambda ns: (removed.extend(ns), [list.remove(g, x) for x in list(ns)])[0]
        g.remove._pyvc_native = True
        g.removed = removed
        a = SObj(ir.Attr, f"{tag}_attr")
        a.fields.update(type=ir.AttributeType.GRAPH, name=f"{tag}_branch")

        def as_graph():
            raise AssertionError
        I.models[as_graph] = lambda interp: g
        a.fields["as_graph"] = as_graph
        return g, a, nodes
    tg, ta, tn = mk_branch("then")
    eg, ea, en = mk_branch("else")
    n_out = max(len(tg.outputs), len(eg.outputs))
    if len(tg.outputs) != len(eg.outputs):
        ctx.cover("branches with different output counts: not a valid If")
        return
    outs = []
    for i in range(n_out):
        o = SObj(ir.Value, f"if_out{i}")
        o.fields["name"] = f"y{i}"
        outs.append(o)
    has_graph = ctx.choose(2, "the If node is attached to a graph") == 0
    main = SObj(ir.Graph, "main")
    node = SObj(ir.Node, "if_node")
    from .irmodel import AttrDict
    node.fields.update(op_type="If", name="ifn", inputs=[SObj(ir.Value, "cond")], outputs=outs, attributes=AttrDict({"then_branch": ta, "else_branch": ea}),
                       graph=(main if has_graph else None))
    moved = []
    I.models[cf._move_initializers_to_graph] = lambda interp, src, dst: moved.append((src, dst))
    t_before, e_before = (list(tg), list(tg.outputs)), (list(eg), list(eg.outputs))
    try:
        r = I.run_closure(I.closure_of(cf.if_op), [node, OpRecorder(), state], {})
    except PyRaise as e:
        ctx.check("C04.folding.if_op.never_raises", False, "C04: 'return without raising'")
        return
    if cond is None:
        ctx.check("C03.folding.if_op.kept_when_the_condition_is_not_a_known_constant", r is None and (list(tg), list(tg.outputs)) == t_before and
                  (list(eg), list(eg.outputs)) == e_before and not moved, CL03)
        return
    sel, sel_before, oth, oth_before = (tg, t_before, eg, e_before) if cond else (eg, e_before, tg, t_before)
    ok = r is not None and not isinstance(r, OpRecorder)
    ctx.check("C03.folding.if_op.constant_condition_inlines_a_branch", ok, CL03)
    if not ok:
        return
    f = r.fields if isinstance(r, SObj) else None
    new_outputs = list(f["new_outputs"]) if f else list(r.new_outputs)
    new_nodes = list(f["new_nodes"]) if f else list(r.new_nodes)
    ctx.check("C03.folding.if_op.replacement_is_the_selected_branch_then_iff_true", new_nodes == sel_before[0] and all(a is b for a, b in zip(new_outputs, sel_before[1]))
              and len(new_outputs) == len(sel_before[1]), CL03 + " — If(cond) computes then_branch when cond is true, else_branch otherwise")
    ctx.check("C03.folding.if_op.the_other_branch_is_untouched", (list(oth), list(oth.outputs)) == oth_before, CL03)
    ctx.check("C04.folding.if_op.selected_branch_graph_is_emptied_before_its_nodes_move", list(sel) == [] and list(sel.outputs) == [] and sel.removed == sel_before[0],
              "C04: 'the result is a valid model' — a node belongs to one graph")
    ctx.check("C04.folding.if_op.branch_initializers_move_to_the_enclosing_graph", moved == ([(sel, main)] if has_graph else []), "C04: nothing the branch needs is lost")
    names = [v.fields["name"] for nd in new_nodes for v in nd.fields["outputs"]]
    last = sel_before[1][-1]
    ctx.check("C04.folding.if_op.output_value_takes_the_name_of_an_If_output", last.fields["name"] in [o.fields["name"] for o in outs],
              "C04: 'same graph input/output names' — an If output that is a graph output keeps its name")
    ctx.check("C04.folding.if_op.moved_nodes_get_names_prefixed_by_the_If_node", all(nd.fields["name"].startswith("ifn_") for nd in new_nodes), "C04: 'node names are unique'")


SCENARIOS.append(Scenario("C03.folding.if_op", s_if_op, F("if_op", "if_op.rename"), kind="bounded",
                          bound="branches of 1-2 nodes, 1-2 outputs (possibly the same value twice)",
                          trusted=["ir.Graph.remove / outputs (onnx_ir); _move_initializers_to_graph has its own contract"]))


# ------------------------------------------------------------------ process_node for a node with ANY number of inputs (deductive) ---

def s_process_node_anyinputs(ctx, opkind=0):
    """FoldConstantsPass.process_node on a node with ANY number of inputs (each absent / a value with arbitrary flags): the substitution
    loop (inductive invariant on a ghost log of replace_input_with calls) and the guard chain of any()/all() over the inputs, used at ONE
    arbitrary (Skolem) input position j0.  Reference evaluation happens only behind every guard, gets every input at its own position,
    and the default size rule is respected."""
    import onnx_ir as ir
    from pyvc.interp import LoopSpec, StarArgs
    from pyvc.values import SSeq, SInt
    cf = _cf()
    I = Interp(ctx)
    I.quant_skolem = True
    W = World(I)
    I_ = z3.IntSort()
    B_ = z3.BoolSort()
    n = ctx.int("n_inputs")
    ctx.assume(n >= 0)
    j0 = ctx.int("j0")
    ctx.assume(z3.And(j0 >= 0, j0 < n))
    ctx.witness.update(n=n, j0=j0)
    absent = z3.Function("absent", I_, B_)
    symkind = z3.Function("sym_value_kind", I_, I_)      # 0 none, 1 an equal ir.Value, 2 a Shape
    # flags of the ORIGINAL input i (o=0) and of the value it is known to equal (o=1)
    gi = z3.Function("is_graph_input", I_, I_, B_)
    hasc = z3.Function("has_const_value", I_, I_, B_)
    size = z3.Function("const_size", I_, I_, I_)
    single = z3.Function("single_consumer", I_, I_, B_)
    limit = 100
    sf = [None, True, False][ctx.choose(3, "should_fold")]
    p = SObj(cf.FoldConstantsPass, "pass")

    def should_fold(nd):
        raise AssertionError
    I.models[should_fold] = lambda interp, nd: sf
    state = SObj(cf.OptimizerState, "state")
    p.fields.update(_state=state, _opset_imports={"": 18}, shape_inference=False, input_size_limit=limit, output_size_limit=limit,
                    should_fold=should_fold, _modified=False)
    flags = {"is_constant_op": opkind == 1, "blacklisted": opkind == 2, "always_fold_op": opkind == 3}
    for nm in ("has_graph_attribute", "non_deterministic"):
        flags[nm] = ctx.choose(2, nm) == 1
    cache = {}
    ghost = {"R": z3.K(I_, z3.BoolVal(False))}     # ghost: positions on which replace_input_with was called (with the equal value)

    def mk_value(i, o):
        key = (i.get_id(), o)
        if key in cache:
            return cache[key]
        ctx.assume(size(i, z3.IntVal(o)) >= 0)
        t = None
        oo = z3.IntVal(o)
        if ctx.branch(hasc(i, oo)):
            t = W.tensor([1] * 2, ir.DataType.INT64)
            t.fields["size"] = SInt(size(i, oo))
        v = SObj(ir.Value, f"in_{'alias' if o else 'orig'}")
        v.idx, v.o = i, o
        v.fields.update(name=("alias" if o else "in"), shape=None, type=None, dtype=ir.DataType.INT64, const_value=t, meta={}, metadata_props={})

        def igi():
            raise AssertionError

        def cons():
            raise AssertionError
        I.models[igi] = lambda interp, i=i, oo=oo: SBool(gi(i, oo))
        I.models[cons] = lambda interp, i=i, oo=oo: ([("consumer", 0)] if interp.ctx.branch(single(i, oo)) else [("consumer", 0), ("consumer", 1)])
        v.fields.update(is_graph_input=igi, consumers=cons, uses=cons)
        cache[key] = v
        return v

    def eff(i):
        """which value position i of node.inputs holds NOW: the equal value once replace_input_with(i, ...) was called"""
        return z3.Select(ghost["R"], i)

    def input_at(i):
        i = z3.simplify(i)
        if ctx.branch(absent(i)):
            return None
        return mk_value(i, 1) if ctx.branch(eff(i)) else mk_value(i, 0)
    inputs = SSeq(n, input_at, name="node.inputs")
    op_type = "Constant" if flags["is_constant_op"] else ("ConstantOfShape" if flags["blacklisted"] else ("Transpose" if flags["always_fold_op"] else "Add"))
    node = W.node(op_type, [], attrs={})
    node.fields["inputs"] = inputs
    attr_kind = ["none", "int", "reference"][ctx.choose(3, "attribute")]
    if attr_kind != "none":
        a = SObj(ir.Attr, "axis")
        is_ref = attr_kind == "reference"
        a.fields.update(name="axis", type=ir.AttributeType.INT, value=(None if is_ref else 7), ref_attr_name=("outer_axis" if is_ref else None))

        def f_is_ref():
            raise AssertionError
        I.models[f_is_ref] = (lambda r: lambda interp: r)(is_ref)
        a.fields["is_ref"] = f_is_ref
        node.fields["attributes"]["axis"] = a
    if flags["has_graph_attribute"]:
        a = SObj(ir.Attr, "body")
        a.fields.update(name="body", type=ir.AttributeType.GRAPH, value=Opaque("graph"))
        node.fields["attributes"]["body"] = a
    wrong_sub = []

    def rip(i, v):
        raise AssertionError

    def m_rip(interp, i, v):
        it = term(i)
        # ghost: the position now holds the equal value; anything else handed over is recorded as a wrong substitution
        if not (isinstance(v, SObj) and getattr(v, "o", None) == 1 and interp.ctx.branch(v.idx == it)):
            wrong_sub.append((i, v))
        ghost["R"] = z3.Store(ghost["R"], it, z3.BoolVal(True))
        inputs._cache = {}
    I.models[rip] = m_rip
    node.fields["replace_input_with"] = rip

    def m_get_sym(interp, slf, v):
        if v is None or getattr(v, "o", 1) == 1:
            return None
        k = symkind(v.idx)
        ctx.assume(z3.And(k >= 0, k <= 2))
        if interp.ctx.branch(k == 0):
            return None
        if interp.ctx.branch(k == 1):
            return mk_value(v.idx, 1)
        return ir.Shape([2])
    I.models[cf.OptimizerState.get_sym_value] = m_get_sym

    def want_replaced(i):
        return z3.And(z3.Not(absent(i)), symkind(i) == 1)

    def heap_havoc(interp, env):
        ghost["R"] = z3.Const(ctx.fresh("replaced"), z3.ArraySort(I_, B_))
        inputs._cache = {}
        p.fields["_modified"] = SBool(ctx.bool("modified"))

    def inv(interp, env, k, pre, it):
        return [("position_j0_substituted_iff_it_has_an_equal_value_once_the_loop_passed_it",
                 z3.And(z3.Implies(k > j0, eff(j0) == want_replaced(j0)), z3.Implies(k <= j0, z3.Not(eff(j0))))),
                ("only_equal_values_are_substituted", z3.BoolVal(not wrong_sub))]
    I.loops[("FoldConstantsPass.process_node", 0)] = LoopSpec({}, inv, heap_havoc=heap_havoc)
    evals = []
    eval_kwargs = []
    I.models[cf._is_non_deterministic_op] = lambda interp, nd: flags["non_deterministic"]
    I.models[cf._process_constant_node] = lambda interp, nd: None
    I.models[cf.registry.lookup_evaluators] = lambda interp, d, o, v: []
    okev = ctx.choose(2, "reference evaluation succeeds") == 0
    I.models[cf._reference_evaluator.evaluate] = lambda interp, *a, **k: (evals.append(a) or eval_kwargs.append(k) or (NArr([1, 2], None) if okev else None))
    I.models[cf.FoldConstantsPass.new_initializer] = lambda interp, s, nd, arr: "new_initializer_value"
    I.models[cf.FoldConstantsPass.new_constant] = lambda interp, s, nd, arr: None
    I.models[cf._get_numpy_value] = lambda interp, x, *a, **k: (None if x is None else ("numpy value of", x))
    g = SObj(object, "graph")

    def reg(v):
        raise AssertionError
    I.models[reg] = lambda interp, v: None
    g.fields["register_initializer"] = reg
    node.fields["graph"] = g
    clo = I.closure_of(cf.FoldConstantsPass.process_node)
    try:
        r = I.run_closure(clo, [p, node, False], {})
    except PyRaise:
        ctx.check("C04.folding.process_node.any_inputs.never_raises_without_partial_evaluators", False, "C04: 'return without raising'")
        return
    TAG = "C03.folding.process_node.any_inputs."
    ctx.check(TAG + "input_j0_substituted_iff_the_state_knows_an_equal_value", eff(j0) == want_replaced(j0), CL03)
    ctx.check(TAG + "only_equal_values_are_substituted", not wrong_sub, CL03)
    if not evals:
        ctx.cover("process_node.any_inputs.not_evaluated")
        ctx.check(TAG + "no_replacement_without_evaluation", r is None, CL03)
        return
    ctx.cover("process_node.any_inputs.evaluated")
    I.instantiate_forall(j0)          # the any()/all() guards held for every input: use them at j0
    o = z3.If(eff(j0), 1, 0)          # the value position j0 holds after the substitution
    present = z3.Not(absent(j0))
    ctx.check(TAG + "evaluation_only_behind_the_node_level_guards",
              not flags["is_constant_op"] and not flags["has_graph_attribute"] and not flags["non_deterministic"] and sf is not False, CL03)
    ctx.check("C04.folding.process_node.any_inputs.no_evaluation_of_nodes_reading_graph_inputs", z3.Implies(present, z3.Not(gi(j0, o))), CL04)
    ctx.check(TAG + "evaluation_only_if_every_present_input_is_constant", z3.Implies(present, hasc(j0, o)), CL03)
    ctx.check(TAG + "no_evaluation_with_an_unresolved_attribute_reference", attr_kind != "reference", CL03)
    a = evals[-1]
    ok = len(a) == 4 and a[:2] == ("", op_type) and isinstance(a[3], StarArgs)
    ctx.check(TAG + "evaluator_called_with_domain_op_version_and_the_inputs", ok, CL03)
    if ok:
        vals = a[3].seq
        ctx.check(TAG + "evaluator_gets_one_value_per_input_position", vals.len == n, CL03 + " — an omitted optional input stays an empty position")
        e = vals.at(j0)
        if e is None:
            ctx.check(TAG + "evaluator_gets_every_input_at_its_own_position", absent(j0), CL03)
        else:
            okpos = isinstance(e, tuple) and isinstance(e[1], SObj)
            ctx.check(TAG + "evaluator_gets_every_input_at_its_own_position",
                      z3.And(z3.BoolVal(okpos), present, e[1].idx == j0, z3.BoolVal(e[1].o == 1) == eff(j0)) if okpos else False, CL03)
    kw = eval_kwargs[-1]
    ctx.check(TAG + "evaluator_gets_the_attributes_by_name", set(kw) == set(node.fields["attributes"]) and (attr_kind != "int" or kw.get("axis") == 7), CL03)
    if sf is None:
        large = z3.And(present, size(j0, o) > limit)
        ctx.check(TAG + "default_rules_respect_blacklist_and_input_size_limit",
                  z3.And(z3.BoolVal(not flags["blacklisted"]), z3.Implies(large, z3.And(z3.BoolVal(op_type == "Transpose"), single(j0, o)))),
                  "C03: 'under any combination of its options ... input/output size limits'")


for _k, _nm in ((0, "plain op"), (1, "Constant"), (2, "blacklisted op"), (3, "always-fold op")):
    SCENARIOS.append(Scenario(f"C03.folding.process_node[any number of inputs, {_nm}]", (lambda k: lambda ctx: s_process_node_anyinputs(ctx, k))(_k), F("FoldConstantsPass.process_node"),
                              trusted=["registered partial evaluators and _get_numpy_value have their own contracts (c03_folding); ir.Node.replace_input_with (onnx_ir) replaces input i",
                                       "OptimizerState.get_sym_value is abstract: what the state knows about an input is an arbitrary function of the position"],
                              assumptions=["loop invariant and the any()/all() guards are used at one arbitrary (Skolem) input position; termination not proved"],
                              max_paths=40000, budget_s=900))


# ------------------------------------------------------------------ _do_inference: which constants reach ONNX shape inference ---

def s_do_inference(ctx):
    """FoldConstantsPass._do_inference hands ONNX shape inference the VALUES of some inputs (data-dependent shapes: Reshape targets,
    Slice bounds ...): only of inputs that are constants — never of an initializer that is also a graph input (a default the caller may
    override), whose value would otherwise be baked into the inferred (static) output shape."""
    import onnx
    import onnx_ir as ir
    from contracts.irmodel import World
    cf = _cf()
    I = Interp(ctx)
    W = World(I)
    p = SObj(cf.FoldConstantsPass, "pass")
    p.fields.update(_opset_imports={"": 18})
    vals, facts = [], []
    for i in range(2):
        has_const = ctx.choose(2, f"input{i} has a constant value") == 0
        gi = ctx.choose(2, f"input{i} is a graph input") == 1
        small = ctx.choose(2, f"input{i} is small") == 0
        t = W.tensor([1, 2] if small else list(range(30)), ir.DataType.INT64) if has_const else None
        v = W.value(f"in{i}", dims=[2 if small else 30], rt=[], dtype=ir.DataType.INT64, const=t, initializer=has_const, graph_input=gi)
        vals.append(v)
        facts.append((has_const, gi, small, t))
    node = W.node("Reshape", vals)
    given = []
    I.models[ir.serde.serialize_tensor] = lambda interp, t: ("tensor proto of", t)
    I.models[ir.serde.serialize_type] = lambda interp, t: ("type proto", t)
    I.models[ir.serde.serialize_shape_into] = lambda interp, tp, sh: None
    I.models[ir.serde.serialize_node] = lambda interp, n: ("node proto", n)
    I.models[onnx.defs.get_schema] = lambda interp, *a, **k: "schema"
    I.models[onnx.shape_inference.infer_node_outputs] = lambda interp, schema, nodeproto, types, data=None, *a, **k: (given.append(dict(data or {})) or {})
    try:
        I.call(I.getattr(p, "_do_inference"), [node])
    except PyRaise:
        ctx.check("C04.folding.do_inference.never_raises", False, "C04: 'return without raising'")
        return
    if not given:
        ctx.cover("do_inference.skipped")
        return
    ctx.cover("do_inference.ran")
    data = given[-1]
    for i, (has_const, gi, small, t) in enumerate(facts):
        nm = f"in{i}"
        if nm in data:
            ctx.check("C04.folding.do_inference.no_value_of_an_overridable_initializer_reaches_shape_inference", not gi,
                      "C04: 'initializers that are also graph inputs (overridable defaults) are never folded into constants'")
            ctx.check("C04.folding.do_inference.only_constant_values_reach_shape_inference", has_const and data[nm] == ("tensor proto of", t), "C03/C04")


SCENARIOS.append(Scenario("C04.folding.do_inference", s_do_inference,
                          F("FoldConstantsPass._do_inference", "FoldConstantsPass._do_inference.get_constant_value", "FoldConstantsPass._do_inference.get_type", "_get_numpy_value"),
                          kind="bounded", bound="a node with two inputs, each with / without a constant value, graph input or not, 2 or 30 elements",
                          trusted=["onnx.shape_inference.infer_node_outputs (onnx): uses the given input data for data-dependent output shapes"]))
