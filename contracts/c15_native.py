"""C15 — the functional (non-in-place) entry points on REAL ModelProtos: the argument is byte-for-byte what it was (evaluation over a small family of
models x entry points).  The deductive wrapper contracts (c15_wrappers.py) model deserialization abstractly; this scenario checks the one thing they
have to assume about onnx_ir — whether anything reachable from the argument is written — on the real objects."""
from __future__ import annotations

from pyvc.harness import Scenario

NATIVE = '''
import sys
import numpy as np
import onnx
from onnx import helper as oh, TensorProto as TP, numpy_helper
import onnxscript.optimizer, onnxscript.rewriter
def model(kind):
    x, y = oh.make_tensor_value_info("x", TP.FLOAT, [1]), oh.make_tensor_value_info("y", TP.FLOAT, [1])
    if kind == "Constant node whose tensor has no name":
        c = oh.make_node("Constant", [], ["one"], value=oh.make_tensor("", TP.FLOAT, [1], [1.5]))
        g = oh.make_graph([c, oh.make_node("Add", ["x", "one"], ["y"])], "g", [x], [y])
    elif kind == "Constant node whose tensor is named like its output":
        c = oh.make_node("Constant", [], ["one"], value=oh.make_tensor("one", TP.FLOAT, [1], [1.5]))
        g = oh.make_graph([c, oh.make_node("Add", ["x", "one"], ["y"])], "g", [x], [y])
    else:
        g = oh.make_graph([oh.make_node("Mul", ["x", "w"], ["y"])], "g", [x], [y], [numpy_helper.from_array(np.array([2.0], np.float32), "w")])
    return oh.make_model(g, opset_imports=[oh.make_opsetid("", 18)], ir_version=9)
bad = 0
for kind in ("Constant node whose tensor has no name", "Constant node whose tensor is named like its output", "initializer"):
    for name, fn in (("optimizer.optimize", onnxscript.optimizer.optimize), ("rewriter.rewrite", onnxscript.rewriter.rewrite)):
        m = model(kind)
        before = m.SerializeToString()
        fn(m)
        if m.SerializeToString() != before:
            after = onnx.ModelProto(); after.ParseFromString(before)
            diff = [(a.name, [t.t.name for t in a.attribute]) for a in m.graph.node if a.op_type == "Constant"]
            print(f"CHANGED {name} | {kind} | the argument was written: Constant tensors are now named {diff}")
            bad += 1
        else:
            print(f"SAME {name} | {kind}")
sys.exit(1 if bad else 0)
'''


def s_functional_variants(_ctx):
    import subprocess
    import sys
    import tempfile
    from contracts.c17_opsets import Agg
    agg = Agg()
    with tempfile.NamedTemporaryFile("w", suffix=".py", delete=False) as f:
        f.write(NATIVE)
    p = subprocess.run([sys.executable, f.name], capture_output=True, text=True, timeout=900)
    lines = [ln for ln in p.stdout.splitlines() if ln.startswith(("SAME", "CHANGED"))]
    cl = "C15: 'the functional variants do not write their argument'"
    agg.ob("C15.native.every_case_ran", len(lines) == 6, (p.stdout + p.stderr)[-400:], cl)
    for ln in lines:
        parts = [x.strip() for x in ln.split("|")]
        v, api = parts[0].split(" ", 1)
        kind = parts[1] if len(parts) > 1 else ""
        agg.ob("C15.native.functional_variant_leaves_its_ModelProto_argument_byte_for_byte", v == "SAME", ln, cl, case=f"{api}: {kind}")
    return {"obligations": agg.obs, "paths": len(lines), "covered": [f"cases={len(lines)}"], "notes": [], "functions": []}


SCENARIOS = [
    Scenario("C15.native.functional_variants", s_functional_variants,
             [("onnxscript/optimizer/__init__.py", "optimize"), ("onnxscript/rewriter/__init__.py", "rewrite"), ("onnxscript/optimizer/_constant_folding.py", "_process_constant_node")],
             kind="evaluation", trusted=["protobuf SerializeToString as the notion of 'unchanged'"]),
]
