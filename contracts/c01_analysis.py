"""Contracts for onnxscript/_internal/analysis.py (C01; shared by C02/C14).

Every postcondition below is the soundness direction the property needs: the analysis result must
*contain* what the textbook dataflow theory (theories/dataflow.py) says, for every AST.  Functions
are verified one by one; a call to a function under contract is replaced by its contract
(for recursive calls this is the induction hypothesis: partial correctness).
"""
from __future__ import annotations

import ast

import z3

from pyvc.harness import Scenario
from pyvc.interp import Interp, LoopSpec, SDict, PyRaise, Closure
from pyvc.values import SObj, SSet, SSeq, SStr, Opaque, StrSet
from theories import astmodel as A
from theories import dataflow as D

REL = "onnxscript/_internal/analysis.py"
CL = "C01: 'both equal the result of reading the source as ordinary Python control flow' — the analysis may over-approximate, never miss a use/definition"


def _mod():
    from onnxscript._internal import analysis
    return analysis


def fresh_set(interp, base="S"):
    return SSet(interp.ctx.const(base, StrSet), "str")


# ---------------------------------------------------------------------------- contracts ----

def c_used_vars(interp, args, kwargs):
    (expr,) = args
    r = fresh_set(interp, "uv")
    interp.ctx.assume(D.sup(r.t, D.uses_opt(interp, expr)))
    return r


def c_lhs_vars(interp, args, kwargs):
    """ASSUMED (body not verified: set comprehension with an asserting helper): returns LhsV(lhs),
    or raises AssertionError for unsupported targets."""
    (lhs,) = args
    if interp.ctx.choose(2, "lhs-ok") == 1:
        raise PyRaise(AssertionError("Only simple assignments supported."))
    r = fresh_set(interp, "lhs")
    interp.ctx.assume(r.t == D.LhsV(lhs.ref))
    return r


def c_assigned_vars(interp, args, kwargs):
    self, stmt = args
    r = fresh_set(interp, "av")
    if isinstance(stmt, SSeq):
        interp.ctx.assume(D.sup(r.t, D.maydef_block(stmt.blk)))
    else:
        interp.ctx.assume(D.sup(r.t, D.MayDef(stmt.ref)))
    return r


def c_live_visit(interp, args, kwargs):
    """do_liveness_analysis.visit(stmt, live_out): R ⊇ Live(stmt, live_out)."""
    stmt, live_out = args
    r = fresh_set(interp, "live")
    interp.ctx.assume(D.sup(r.t, D.live(stmt.ref, as_set_term(live_out))))
    return r


def c_visit_block(interp, args, kwargs):
    block, live_out = args
    r = fresh_set(interp, "liveB")
    interp.ctx.assume(D.sup(r.t, D.liveB(block.blk, as_set_term(live_out))))
    return r


def c_outer_scope_variables(interp, args, kwargs):
    return fresh_set(interp, "osv")


def K(qn):
    return (REL, qn)


LIVE = "AstAnalyzer.do_liveness_analysis"
EXP = "AstAnalyzer.exposed_uses"

CONTRACTS = {
    K("_used_vars"): c_used_vars,
    K("_lhs_vars"): c_lhs_vars,
    K("AstAnalyzer.assigned_vars"): c_assigned_vars,
    K(LIVE + ".visit"): c_live_visit,
    K(LIVE + ".do_visit.visit_block"): c_visit_block,
    K(EXP + ".visit"): c_live_visit,
    K(EXP + ".visit_block"): c_visit_block,
    K("AstAnalyzer.outer_scope_variables"): c_outer_scope_variables,
}


# ---------------------------------------------------------------------------- helpers ------

def new_analyzer(interp):
    an = _mod().AstAnalyzer
    self = SObj(an, "analyzer")

    def cc_default(I, k):
        i = I.ctx.choose(3, "cc")
        I.ctx.assume(D.CC(k.ref) == i)
        return [None, True, False][i]
    d = SDict("_constant_if_condition")
    d.default = cc_default
    self.fields["_constant_if_condition"] = d
    self.fields["_live_in"] = SDict("_live_in")
    self.fields["_live_out"] = SDict("_live_out")
    self.fields["_formatter"] = _formatter
    return self


def _formatter(node, msg):
    """Stand-in for sourceinfo.Formatter (message text is not part of any obligation)."""
    return "<message>"


def models():
    return {ast.iter_child_nodes: A.model_iter_child_nodes, _formatter: lambda interp, node, msg: "<message>"}


def prefix_inv(fn, var="result"):
    """invariant `var ⊇ pre ∪ fn(block, k)` for forward accumulation loops."""
    def inv(interp, env, k, pre, it):
        D.unfold_prefix(interp.ctx, it.blk, k - 1)
        D.unfold_prefix(interp.ctx, it.blk, k)
        cur = as_set_term(env.lookup(var))
        return [("acc", z3.And(D.sup(cur, pre), D.sup(cur, fn(it.blk, k))))]
    return inv


def snap(var="result"):
    def f(interp, env, it):
        return as_set_term(env.lookup(var))
    return f


def havoc_set(var):
    return {var: lambda I: fresh_set(I, var)}


# ---------------------------------------------------------------------------- scenarios ----

def s_used_vars(ctx):
    an = _mod()
    loops = {
        ("_used_vars", 0): LoopSpec(havoc_set("result"), prefix_inv(D.UsesKw), snapshot=snap()),
        ("_used_vars", 1): LoopSpec(havoc_set("result"), prefix_inv(D.UsesL), snapshot=snap()),
    }
    I = Interp(ctx, contracts=CONTRACTS, models=models(), loops=loops)
    mode = ctx.choose(2, "none?")
    expr = None if mode == 0 else A.new_expr(z3.Const("e", A.Obj), "e")
    clo = I.closure_of(an._used_vars)
    r = I.run_closure(clo, [expr], {})
    if expr is not None:
        D.unfold_expr(I, expr)
        ctx.cover("used_vars." + I.class_of(expr).__name__)
    if isinstance(r, set):
        r = SSet(_lit(r), "str")
    ctx.check("C01.analysis._used_vars.result_contains_uses", D.sup(r.t, D.uses_opt(I, expr)), CL)


def _lit(s):
    t = D.EMPTY
    for x in s:
        t = z3.SetAdd(t, z3.StringVal(x))
    return t


def as_set_term(r):
    if isinstance(r, SSet):
        return r.t
    if isinstance(r, (set, frozenset)):
        return _lit(r)
    raise AssertionError(f"not a set: {r!r}")


def s_assigned_vars(ctx):
    loops = {("AstAnalyzer.assigned_vars.assigned_in_block", 0):
             LoopSpec(havoc_set("result"), prefix_inv(D.MayDefP), snapshot=snap())}
    I = Interp(ctx, contracts=CONTRACTS, models=models(), loops=loops)
    self = new_analyzer(I)
    islist = ctx.choose(2, "list?") == 1
    if islist:
        stmt = A.new_block(ctx, z3.Const("blk", A.Blk), "stmt", "stmts")
        stmt.pytype = list
    else:
        stmt = A.new_stmt(z3.Const("s", A.Obj), "s")
    clo = I.closure_of(_mod().AstAnalyzer.assigned_vars)
    try:
        r = I.run_closure(clo, [self, stmt], {})
    except PyRaise as e:
        # refusal is allowed only for unsupported kinds / bad targets
        if not islist:
            cls = I.class_of(stmt)
            ok = cls is A.OtherStmt or isinstance(e.exc, (AssertionError, TypeError))
            ctx.check("C01.analysis.assigned_vars.raises_only_for_unsupported", ok,
                      "C01: 'A program is either refused at decoration time or translated faithfully'")
        return
    if islist:
        goal = D.sup(as_set_term(r), D.maydef_block(stmt.blk))
    else:
        D.unfold_stmt(I, stmt)
        ctx.cover("assigned_vars." + I.class_of(stmt).__name__)
        if I.class_of(stmt) is A.OtherStmt:
            return
        goal = D.sup(as_set_term(r), D.MayDef(stmt.ref))
    ctx.check("C01.analysis.assigned_vars.result_contains_maydef", goal, CL)


def _block_inv_reversed(var="live_out"):
    """`for s in reversed(block): live_out = visit(s, live_out)`: after j steps,
    live_out ⊇ GenB(b, n-j) ∪ (L0 − KillB(b, n-j))."""
    def inv(interp, env, k, pre, it):
        b = it.base_blk
        n = A.Len(b)
        D.unfold_end(interp.ctx, b)
        D.unfold_block(interp.ctx, b, n - k)
        D.unfold_block(interp.ctx, b, n - k - 1)
        cur = env.lookup(var)
        return [("suffix", D.sup(as_set_term(cur), z3.SetUnion(D.GenB(b, n - k), D.minus(pre, D.KillB(b, n - k)))))]
    return inv


def _m_reversed(interp, v):
    from pyvc.interp import _m_reversed as base
    r = base(interp, v)
    if isinstance(v, SSeq) and hasattr(v, "blk"):
        r.base_blk = v.blk
    return r


def _nested(I, outer_fn, path, args_per_level):
    """Closure of a nested function: enter each enclosing function with placeholder arguments."""
    clo = I.closure_of(outer_fn)
    env = None
    for name, args in zip(path, args_per_level):
        env = I.enter_and_define(clo, args)
        clo = env.vars[name]
    return clo


def _live_loops(prefix):
    fix_havoc = {
        "prev": lambda I: (None if I.ctx.choose(2, "prev-none") == 0 else fresh_set(I, "prev")),
        "curr": lambda I: fresh_set(I, "curr"),
    }

    def fix_inv(is_for):
        def inv(interp, env, k, pre, it):
            stmt = env.lookup("stmt")
            L = env.lookup("live_out").t
            b = A.blk("body")(stmt.ref)
            curr, prev = env.lookup("curr"), env.lookup("prev")
            i = D.single(A.IdOf(A.child("target")(stmt.ref))) if is_for else D.EMPTY
            out = [("contains_live_out", D.sup(curr.t, D.minus(L, i)))]
            if prev is not None:
                out.append(("post_fixpoint", D.sup(curr.t, D.minus(D.liveB(b, prev.t), i))))
            if not is_for:
                out.append(("contains_cond", D.sup(curr.t, D.Uses(A.child("test")(stmt.ref)))))
            return out
        return inv
    return {
        (prefix + ".do_visit.visit_block", 0): LoopSpec(havoc_set("live_out"), _block_inv_reversed(),
                                                        snapshot=lambda I, env, it: env.lookup("live_out").t),
        (prefix + ".do_visit", 0): LoopSpec(fix_havoc, fix_inv(True)),
        (prefix + ".do_visit", 1): LoopSpec(fix_havoc, fix_inv(False)),
    }


def _mk_live_interp(ctx):
    m = models()
    m[reversed] = _m_reversed
    return Interp(ctx, contracts=CONTRACTS, models=m, loops=_live_loops(LIVE))


def s_live_do_visit(ctx):
    I = _mk_live_interp(ctx)
    self = new_analyzer(I)
    stmt = A.new_stmt(z3.Const("s", A.Obj), "s")
    L = fresh_set(I, "L")
    fun = SObj(ast.FunctionDef, "fun", lazy=A._lazy)
    clo = _nested(I, _mod().AstAnalyzer.do_liveness_analysis, ["do_visit"], [[self, fun]])
    try:
        r = I.run_closure(clo, [stmt, L], {})
    except PyRaise as e:
        cls = I.class_of(stmt)
        ok = cls is A.OtherStmt or isinstance(e.exc, (AssertionError, TypeError))
        ctx.check("C01.analysis.liveness.do_visit.raises_only_for_unsupported", ok,
                  "C01: refused or translated faithfully")
        return
    cls = D.unfold_stmt(I, stmt)
    ctx.cover("do_visit." + cls.__name__)
    if cls is A.OtherStmt:
        return  # a statement kind outside the modelled grammar that the analysis accepts: refusing it is the converter's job (C02)
    for fld in ("body", "orelse"):
        if fld in A.GRAMMAR.get(cls, {}) and A.GRAMMAR[cls][fld] == "stmt*":
            D.unfold_end(ctx, A.blk(fld)(stmt.ref))
    ctx.check(f"C01.analysis.liveness.do_visit.{cls.__name__}.live_in_contains_Live",
              D.sup(as_set_term(r), D.live(stmt.ref, L.t)), CL)
    if cls in (ast.For, ast.While):
        b = A.blk("body")(stmt.ref)
        i = D.single(A.IdOf(A.child("target")(stmt.ref))) if cls is ast.For else D.EMPTY
        ctx.check(f"C01.analysis.liveness.do_visit.{cls.__name__}.result_is_post_fixpoint",
                  D.sup(as_set_term(r), D.minus(D.liveB(b, as_set_term(r)), i)),
                  "C01: loop-carried variables — the set given to the body's last analysis pass must cover the loop head")


def s_live_visit_block(ctx):
    I = _mk_live_interp(ctx)
    self = new_analyzer(I)
    fun = SObj(ast.FunctionDef, "fun", lazy=A._lazy)
    stmt = A.new_stmt(z3.Const("s", A.Obj), "s")
    L = fresh_set(I, "L")
    clo = _nested(I, _mod().AstAnalyzer.do_liveness_analysis, ["do_visit", "visit_block"],
                  [[self, fun], [stmt, L]])
    block = A.new_block(ctx, z3.Const("blk", A.Blk), "stmt", "block")
    L0 = fresh_set(I, "L0")
    r = I.run_closure(clo, [block, L0], {})
    ctx.check("C01.analysis.liveness.visit_block.result_contains_LiveB",
              D.sup(as_set_term(r), D.liveB(block.blk, L0.t)), CL)


def s_live_visit(ctx):
    """visit records the sets the converter later reads: _live_out[stmt] is the set passed in,
    _live_in[stmt] the result of do_visit."""
    contracts = dict(CONTRACTS)
    contracts[K(LIVE + ".do_visit")] = c_live_visit
    m = models()
    I = Interp(ctx, contracts=contracts, models=m)
    self = new_analyzer(I)
    fun = SObj(ast.FunctionDef, "fun", lazy=A._lazy)
    clo = _nested(I, _mod().AstAnalyzer.do_liveness_analysis, ["visit"], [[self, fun]])
    stmt = A.new_stmt(z3.Const("s", A.Obj), "s")
    L = fresh_set(I, "L")
    r = I.run_closure(clo, [stmt, L], {})
    lo = self.fields["_live_out"].store.get(("obj", id(stmt)))
    li = self.fields["_live_in"].store.get(("obj", id(stmt)))
    ctx.check("C01.analysis.liveness.visit.records_live_out", lo is not None and lo[1] is L, CL)
    ctx.check("C01.analysis.liveness.visit.records_live_in",
              li is not None and isinstance(li[1], SSet) and isinstance(r, SSet)
              and bool(z3.is_true(z3.simplify(li[1].t == r.t))), CL)
    ctx.check("C01.analysis.liveness.visit.result_contains_Live", D.sup(as_set_term(r), D.live(stmt.ref, L.t)), CL)


def _exp_loops():
    return {(EXP + ".visit_block", 0): LoopSpec(havoc_set("live_out"), _block_inv_reversed(),
                                                snapshot=lambda I, env, it: env.lookup("live_out").t)}


def s_exposed_visit(ctx):
    m = models()
    m[reversed] = _m_reversed
    I = Interp(ctx, contracts=CONTRACTS, models=m, loops=_exp_loops())
    self = new_analyzer(I)
    stmts = A.new_block(ctx, z3.Const("top", A.Blk), "stmt", "stmts")
    clo = _nested(I, _mod().AstAnalyzer.exposed_uses, ["visit"], [[self, stmts]])
    stmt = A.new_stmt(z3.Const("s", A.Obj), "s")
    L = fresh_set(I, "L")
    L_before = L.t
    try:
        r = I.run_closure(clo, [stmt, L], {})
    except PyRaise as e:
        cls = I.class_of(stmt)
        ok = cls is A.OtherStmt or isinstance(e.exc, (AssertionError, TypeError))
        ctx.check("C01.analysis.exposed_uses.visit.raises_only_for_unsupported", ok, "C01: refused or translated faithfully")
        return
    cls = D.unfold_stmt(I, stmt)
    ctx.cover("exposed.visit." + cls.__name__)
    if cls is A.OtherStmt:
        return
    for fld in ("body", "orelse"):
        if A.GRAMMAR.get(cls, {}).get(fld) == "stmt*":
            D.unfold_end(ctx, A.blk(fld)(stmt.ref))
    if cls is ast.FunctionDef:
        # a nested function definition uses nothing by itself; obligation: result ⊇ L − {name}
        ctx.check("C01.analysis.exposed_uses.visit.FunctionDef.keeps_other_live_vars",
                  D.sup(as_set_term(r), D.minus(L_before, D.single(A.IdOf(stmt.ref)))), CL)
        return
    ctx.check(f"C01.analysis.exposed_uses.visit.{cls.__name__}.contains_Live",
              D.sup(as_set_term(r), D.live(stmt.ref, L_before)), CL)


def s_exposed_visit_block(ctx):
    m = models()
    m[reversed] = _m_reversed
    I = Interp(ctx, contracts=CONTRACTS, models=m, loops=_exp_loops())
    self = new_analyzer(I)
    stmts = A.new_block(ctx, z3.Const("top", A.Blk), "stmt", "stmts")
    clo = _nested(I, _mod().AstAnalyzer.exposed_uses, ["visit_block"], [[self, stmts]])
    block = A.new_block(ctx, z3.Const("blk", A.Blk), "stmt", "block")
    L0 = fresh_set(I, "L0")
    r = I.run_closure(clo, [block, L0], {})
    ctx.check("C01.analysis.exposed_uses.visit_block.result_contains_LiveB",
              D.sup(as_set_term(r), D.liveB(block.blk, L0.t)), CL)


def s_exposed_uses(ctx):
    I = Interp(ctx, contracts=CONTRACTS, models=models())
    self = new_analyzer(I)
    stmts = A.new_block(ctx, z3.Const("top", A.Blk), "stmt", "stmts")
    clo = I.closure_of(_mod().AstAnalyzer.exposed_uses)
    r = I.run_closure(clo, [self, stmts], {})
    ctx.check("C01.analysis.exposed_uses.result_contains_GenB",
              D.sup(as_set_term(r), D.GenB(stmts.blk, 0)),
              "C01: loop state = assigned ∩ (exposed_uses ∪ live_out) — upward-exposed uses must not be missed")


F = lambda *qns: [(REL, q) for q in qns]

SCENARIOS = [
    Scenario("C01.analysis._used_vars", s_used_vars, F("_used_vars")),
    Scenario("C01.analysis.assigned_vars", s_assigned_vars,
             F("AstAnalyzer.assigned_vars", "AstAnalyzer.assigned_vars.assigned_in_block", "_get_loop_var",
               "AstAnalyzer.constant_if_condition")),
    Scenario("C01.analysis.liveness.do_visit", s_live_do_visit, F(LIVE + ".do_visit")),
    Scenario("C01.analysis.liveness.visit_block", s_live_visit_block, F(LIVE + ".do_visit.visit_block")),
    Scenario("C01.analysis.liveness.visit", s_live_visit, F(LIVE + ".visit")),
    Scenario("C01.analysis.exposed_uses.visit", s_exposed_visit, F(EXP + ".visit")),
    Scenario("C01.analysis.exposed_uses.visit_block", s_exposed_visit_block, F(EXP + ".visit_block")),
    Scenario("C01.analysis.exposed_uses", s_exposed_uses, F(EXP)),
]


def s_constant_if_conditions(ctx):
    """_compute_constant_if_conditions: an `if name:` is folded at script time only when `name` is a global that
    is assigned NOWHERE in the function body; the recorded value is bool(globals[name])."""
    I = Interp(ctx, contracts=CONTRACTS, models=models())
    self = new_analyzer(I)
    self.fields["_constant_if_condition"] = {}
    fun = SObj(ast.FunctionDef, "fun", ref=z3.Const("fun", A.Obj), lazy=A._lazy)
    ifn = SObj(ast.If, "ifnode", ref=z3.Const("ifn", A.Obj), lazy=A._lazy)
    other = A.new_stmt(z3.Const("other", A.Obj), "other", kinds=[ast.Assign, ast.Return])
    I.models[ast.walk] = lambda interp, node: [fun, other, ifn]
    # the parameters of the function: one of each kind, names symbolic (they may or may not coincide with the condition's name)
    pnames = {k: z3.Const("param_" + k, z3.StringSort()) for k in ("posonly", "plain", "kwonly", "vararg", "kwarg")}
    mk = lambda k: ast.arg(arg=SStr(pnames[k]), annotation=None)
    fun.fields["args"] = ast.arguments(posonlyargs=[mk("posonly")], args=[mk("plain")], vararg=mk("vararg"), kwonlyargs=[mk("kwonly")],
                                       kw_defaults=[None], kwarg=mk("kwarg"), defaults=[])
    gval = [0, 1, "", "x", None][ctx.choose(5, "global value")]
    globs = {"g": gval}
    clo = I.closure_of(_mod().AstAnalyzer._compute_constant_if_conditions)
    I.run_closure(clo, [self, fun, globs], {})
    rec = self.fields["_constant_if_condition"]
    body_defs = D.maydef_block(A.blk("body")(fun.ref))
    if not rec:
        ctx.cover("constant_if.not_folded")
        return
    ctx.cover("constant_if.folded")
    ctx.check("C01.analysis.constant_if.only_if_nodes_are_recorded", list(rec.keys()) == [ifn] or all(k is ifn for k in rec), CL)
    test = ifn.fields.get("test")
    ok = isinstance(test, SObj) and I.class_of(test) is ast.Name
    ctx.check("C01.analysis.constant_if.condition_is_a_plain_name", ok, CL)
    if not ok:
        return
    name = A.IdOf(test.ref)
    ctx.check("C01.analysis.constant_if.name_is_a_global", name == z3.StringVal("g"), CL)
    ctx.check("C01.analysis.constant_if.name_assigned_nowhere_in_the_function", z3.Not(z3.IsMember(name, body_defs)),
              "C01: 'reading the source as ordinary Python control flow' — a local variable that shadows a global must not be folded to the global's truth value")
    ctx.check("C01.analysis.constant_if.name_is_not_a_parameter_of_the_function", z3.And(*[name != p for p in pnames.values()]),
              "C01: 'reading the source as ordinary Python control flow' — a parameter that shadows a global is a run-time value (eager mode "
              "uses the argument), it must not be folded to the global's truth value")
    ctx.check("C01.analysis.constant_if.value_is_truth_of_the_global", rec[ifn] is bool(gval), CL)


SCENARIOS.append(Scenario("C01.analysis.constant_if_conditions", s_constant_if_conditions, F("AstAnalyzer._compute_constant_if_conditions")))
