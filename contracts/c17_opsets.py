"""C17 — generated opset classes mirror the ONNX operator schemas.

Every method defined in onnxscript/onnx_opset/_impl/opset*.py is executed by the pyvc interpreter
from its real source with token arguments (uniform symbolic execution: the bodies are straight-line),
with `get_schema`, `Op(...)`, `op(...)` and `_prepare_inputs` intercepted; what it did is compared
with the installed onnx.defs registry (data oracle; DESIGN 3.4).  The obligations are ground after
enumerating the finite registry and are decided by evaluation, exhaustively.
"""
from __future__ import annotations

import ast
import inspect

from pyvc.harness import Scenario
from pyvc.core import Ctx
from pyvc.interp import Interp, PyRaise
from pyvc.values import SObj, Opaque
from pyvc import extract

CL = "C17: 'the method resolves to the schema ONNX defines for that operator at that version, takes the schema's inputs in order followed by its attributes as keyword parameters whose defaults equal the schema defaults, forwards each argument under the right name'"


class Tok:
    """A distinguishable argument token."""

    def __init__(self, name):
        self.name = name

    def __repr__(self):
        return f"<tok {self.name}>"


def _all_opsets():
    from onnxscript import onnx_opset
    return onnx_opset.all_opsets


def _schema_default(attr):
    import onnx
    if attr.default_value is None or attr.default_value.type == onnx.AttributeProto.UNDEFINED:
        return None, False
    v = onnx.helper.get_attribute_value(attr.default_value)
    if isinstance(v, bytes):
        v = v.decode("utf-8")
    if isinstance(v, (list, tuple)):
        v = [x.decode("utf-8") if isinstance(x, bytes) else x for x in v]
    return v, True


def _same_default(py, sv):
    import numpy as np
    if isinstance(sv, (list, tuple)) or isinstance(py, (list, tuple)):
        try:
            return list(py) == list(sv)
        except TypeError:
            return False
    if isinstance(sv, float) and isinstance(py, float):
        return py == sv or abs(py - sv) <= 1e-6 * max(1.0, abs(sv)) and np.float32(py) == np.float32(sv)
    return py == sv and type(py) is type(sv) or (py == sv and not isinstance(py, bool) and not isinstance(sv, bool))


class Agg:
    def __init__(self):
        self.obs = {}

    def ob(self, name, ok, detail, clause=CL, case=None):
        """Passing instances are aggregated under `name`; a failing instance with a `case` key becomes its
        own obligation `name[case]` so that known findings can name exactly the failing input."""
        if not ok and case is not None:
            name = f"{name}[{case}]"
        o = self.obs.setdefault(name, {"status": "proved", "instances": 0, "clause": clause, "ms": 0.0,
                                       "backend": "evaluation", "model": None, "detail": "", "path": None})
        o["instances"] += 1
        if not ok and o["status"] == "proved":
            o["status"] = "refuted"
            o["detail"] = detail
            o["model"] = {"case": detail}


def exec_method(fn, cls, opset_obj):
    """Interpret the real source of a generated method; returns what it did."""
    import onnx
    from onnxscript._internal import values
    ctx = Ctx([], {"solver_s": 0.0, "queries": 0})
    I = Interp(ctx)
    rec = {"get_schema": [], "Op": [], "call": [], "prepare": []}

    glob = fn.__globals__
    real_get_schema = glob.get("get_schema")

    def m_get_schema(interp, *a, **k):
        s = real_get_schema(*a, **k)
        rec["get_schema"].append((a, k, s))
        return s

    class OpRec:
        def __init__(self, args):
            self.args = args

    def m_Op(interp, *a, **k):
        o = OpRec(a)
        rec["Op"].append((a, k, o))
        return o
    I.models[real_get_schema] = m_get_schema
    I.models[glob["Op"]] = m_Op
    I.models[values.Opset._prepare_inputs] = lambda interp, slf, schema, *inputs: (rec["prepare"].append((slf, schema, inputs)) or ["PREPARED", inputs])
    sig = inspect.signature(fn)
    pos, kw, toks = [], {}, {}
    var_name = None
    for name, p in list(sig.parameters.items())[1:]:
        if p.kind == p.VAR_POSITIONAL:
            var_name = name
            t1, t2 = Tok(name + "#0"), Tok(name + "#1")
            toks[name] = (t1, t2)
            pos += [t1, t2]
        elif p.kind == p.KEYWORD_ONLY:
            toks[name] = Tok(name)
            kw[name] = toks[name]
        else:
            toks[name] = Tok(name)
            pos.append(toks[name])
    clo = I.closure_of(fn)
    if clo is None:
        return None, "source not found"
    self_obj = opset_obj

    # op(...) call: OpRec instances are called
    orig_call = I.call

    def call(f, args=(), kwargs=None):
        if isinstance(f, OpRec):
            rec["call"].append((f, list(args), dict(kwargs or {})))
            return "RESULT"
        return orig_call(f, args, kwargs)
    I.call = call
    try:
        r = I.run_closure(clo, [self_obj] + pos, kw)
    except PyRaise as e:
        return None, f"raised {e.exc!r}"
    rec["result"] = r
    rec["toks"] = toks
    rec["sig"] = sig
    rec["var"] = var_name
    rec["notes"] = list(ctx.notes)
    return rec, None


def s_generated_methods(_ctx):
    import onnx
    agg = Agg()
    seen_funcs = {}
    n_methods = 0
    fns = []
    samples = []
    for (domain, version), opset in sorted(_all_opsets().items()):
        cls = type(opset)
        for name, fn in cls.__dict__.items():
            if not inspect.isfunction(fn) or name.startswith("_"):
                continue
            info = extract.function_from_object(fn)
            if info is None or "onnx_opset/_impl" not in info[0]:
                continue
            n_methods += 1
            where = f"{cls.__name__}.{name}"
            rec, err = exec_method(fn, cls, opset)
            agg.ob("C17.generated_method.executes_straight_line", rec is not None, f"{where}: {err}")
            if rec is None:
                continue
            gs = rec["get_schema"]
            ok = len(gs) == 1
            agg.ob("C17.generated_method.one_schema_lookup", ok, f"{where}: {len(gs)} get_schema calls")
            if not ok:
                continue
            (a, k, schema) = gs[0]
            want = onnx.defs.get_schema(name, version, domain)
            agg.ob("C17.generated_method.schema_is_onnx_schema_of_op_at_class_version",
                   len(a) == 3 and not k and a[0] == name and a[2] == domain and a[1] == want.since_version
                   and schema.name == want.name and schema.since_version == want.since_version and schema.domain == want.domain,
                   f"{where}: get_schema{a} but onnx.defs.get_schema({name!r}, {version}, {domain!r}) is {want.name}-{want.since_version}")
            seen_funcs[(domain, name, fn)] = a[1] if len(a) > 1 else None
            ops = rec["Op"]
            agg.ob("C17.generated_method.op_built_from_self_name_schema",
                   len(ops) == 1 and len(ops[0][0]) == 3 and ops[0][0][0] is opset and ops[0][0][1] == name and ops[0][0][2] is schema,
                   f"{where}: Op{ops[0][0] if ops else ()}")
            calls = rec["call"]
            no_inputs = len(schema.inputs) == 0
            ok = len(calls) == 1 and rec["result"] == "RESULT" and (len(rec["prepare"]) == 1 or (no_inputs and not rec["prepare"]))
            agg.ob("C17.generated_method.returns_the_single_op_call", ok, f"{where}: {len(calls)} op calls, {len(rec['prepare'])} _prepare_inputs calls")
            if not ok:
                continue
            _op, cargs, ckw = calls[0]
            if rec["prepare"]:
                prep = rec["prepare"][0]
                agg.ob("C17.generated_method.inputs_go_through_prepare_inputs",
                       len(cargs) == 2 and cargs[0] == "PREPARED" and cargs[1] is prep[2] and prep[1] is schema and prep[0] is opset,
                       f"{where}: call args {cargs}")
            else:
                prep = (opset, schema, ())
                agg.ob("C17.generated_method.no_positional_arguments_for_op_without_inputs", len(cargs) == 0, f"{where}: call args {cargs}")
            # parameter list = schema inputs in order, then attributes keyword-only
            params = list(rec["sig"].parameters.values())[1:]
            n_in = len(schema.inputs)
            in_params = [p for p in params if p.kind in (p.POSITIONAL_OR_KEYWORD, p.VAR_POSITIONAL, p.POSITIONAL_ONLY)]
            kw_params = [p for p in params if p.kind == p.KEYWORD_ONLY]
            agg.ob("C17.generated_method.parameters_are_inputs_then_keyword_only_attributes",
                   len(in_params) == n_in and [p.kind for p in params] == [p.kind for p in in_params] + [p.kind for p in kw_params]
                   and {p.name for p in kw_params} == set(schema.attributes),
                   f"{where}: params {[p.name for p in params]} vs inputs {[i.name for i in schema.inputs]} attrs {sorted(schema.attributes)}")
            if len(in_params) != n_in:
                continue
            # inputs forwarded in schema order
            fwd = []
            for p in in_params:
                t = rec["toks"][p.name]
                fwd += list(t) if isinstance(t, tuple) else [t]
            agg.ob("C17.generated_method.inputs_forwarded_in_schema_order", list(prep[2]) == fwd, f"{where}: forwarded {prep[2]} want {fwd}")
            opt = onnx.defs.OpSchema.FormalParameterOption
            for idx, (p, si) in enumerate(zip(in_params, schema.inputs)):
                if si.option == opt.Variadic:
                    agg.ob("C17.generated_method.variadic_input_is_star_parameter", p.kind == p.VAR_POSITIONAL, f"{where}: {p.name}")
                elif si.option == opt.Optional:
                    # Python forbids a default before a parameter without one: an optional input that precedes a
                    # required input cannot be omitted positionally anyway
                    later_required = any(s2.option in (opt.Single, opt.Variadic) for s2 in schema.inputs[idx + 1:])
                    agg.ob("C17.generated_method.optional_input_defaults_to_None",
                           p.default is None or (later_required and p.default is inspect.Parameter.empty),
                           f"{where}: {p.name} default {p.default!r}")
                else:
                    agg.ob("C17.generated_method.required_input_has_no_default", p.default is inspect.Parameter.empty, f"{where}: {p.name} default {p.default!r}")
            # attributes forwarded under their own names; defaults equal schema defaults
            agg.ob("C17.generated_method.each_attribute_forwarded_under_its_name",
                   set(ckw) == set(schema.attributes) and all(ckw[a] is rec["toks"].get(a) for a in ckw),
                   f"{where}: kwargs {sorted(ckw)} vs attrs {sorted(schema.attributes)}")
            for p in kw_params:
                sa = schema.attributes.get(p.name)
                if sa is None:
                    continue
                sv, has = _schema_default(sa)
                if has:
                    agg.ob("C17.generated_method.attribute_default_equals_schema_default",
                           p.default is not inspect.Parameter.empty and _same_default(p.default, sv),
                           f"{where}: attribute {p.name} default {p.default!r} but schema default {sv!r}")
                elif sa.required:
                    agg.ob("C17.generated_method.required_attribute_has_no_default", p.default is inspect.Parameter.empty,
                           f"{where}: required attribute {p.name} has default {p.default!r}")
                else:
                    agg.ob("C17.generated_method.optional_attribute_without_schema_default_defaults_to_None", p.default is None,
                           f"{where}: attribute {p.name} default {p.default!r} but the schema has none")
            if len(samples) < 3:
                samples.append(where)
            if len(fns) < 40:
                fns.append({"file": info[0], "qualname": info[1], "sha": extract.source_hash(info[0], info[1])})
    return {"obligations": agg.obs, "paths": n_methods, "covered": [f"methods={n_methods}"], "notes": [], "functions": fns}


def s_mro_and_dynamic(_ctx):
    """Every (opset instance, operator) pair: the attribute found through the MRO carries the version the
    registry resolves to; dynamic lookup agrees; every operator of onnx.defs (version <= 23) has a method."""
    import onnx
    from onnxscript._internal import values
    agg = Agg()
    pairs = 0
    by_domain = {}
    for s in onnx.defs.get_all_schemas_with_history():
        by_domain.setdefault(s.domain, {}).setdefault(s.name, []).append(s.since_version)
    hard = {}
    for (domain, version), opset in sorted(_all_opsets().items()):
        cls = type(opset)
        agg.ob("C17.all_opsets.key_matches_instance", opset.domain == domain and opset.version == version
               and values.Opset.cache.get((cls, domain, version)) is opset, f"{cls.__name__}: ({opset.domain!r},{opset.version}) under key ({domain!r},{version})")
        for op, versions in sorted(by_domain.get(domain, {}).items()):
            if min(versions) > version:
                in_ = op in opset
                agg.ob("C17.dynamic.contains_false_for_ops_not_yet_defined", in_ is False, f"{cls.__name__}: {op}")
                continue
            want = onnx.defs.get_schema(op, version, domain)
            if want.deprecated:
                continue
            pairs += 1
            where = f"{cls.__name__}.{op}"
            has = any(op in k.__dict__ for k in cls.__mro__)
            if domain == "" and version > 23 and not has:
                continue  # the property quantifies 'forall ops in onnx.defs for N<=23 a method exists'
            agg.ob("C17.mro.method_exists_for_every_registry_operator", has, f"{where}: no generated method (schema {want.name}-{want.since_version})")
            if not has:
                continue
            fn = next(k.__dict__[op] for k in cls.__mro__ if op in k.__dict__)
            key = fn
            if key not in hard:
                # hard-coded version in the generated source: first get_schema(...) call in the body
                v = None
                try:
                    info = extract.function_from_object(fn)
                    for n in ast.walk(info[2]):
                        if isinstance(n, ast.Call) and isinstance(n.func, ast.Name) and n.func.id == "get_schema":
                            v = n.args[1].value
                            break
                except Exception:
                    pass
                hard[key] = v
            agg.ob("C17.mro.inherited_method_uses_version_the_registry_resolves_to", hard[key] == want.since_version,
                   f"{where}: method hard-codes version {hard[key]} but get_schema({op!r},{version},{domain!r}).since_version = {want.since_version}")
            d1 = opset[op]
            agg.ob("C17.dynamic.getitem_schema_agrees_with_registry",
                   d1 is not None and d1.op_schema is not None and d1.op_schema.since_version == want.since_version and d1.name == op and d1.opset is opset,
                   f"{where}: opset[{op!r}] -> {d1}")
            agg.ob("C17.dynamic.contains_true_for_registry_operator", (op in opset) is True, where)
    miss = _all_opsets()[("", 18)]["NoSuchOperator"]
    agg.ob("C17.dynamic.getitem_none_for_unknown_operator", miss is None and ("NoSuchOperator" in _all_opsets()[("", 18)]) is False, "opset18")
    return {"obligations": agg.obs, "paths": pairs, "covered": [f"class_op_pairs={pairs}"], "notes": [], "functions": []}


def s_prepare_inputs(ctx):
    """Opset._prepare_inputs trims exactly the maximal all-None suffix (bounded: up to 5 inputs)."""
    from onnxscript._internal import values
    I = Interp(ctx)
    n = ctx.choose(6, "n")
    items = [(None if ctx.choose(2, f"none{i}") == 0 else Tok(f"x{i}")) for i in range(n)]
    clo = I.closure_of(values.Opset._prepare_inputs)
    r = I.run_closure(clo, [SObj(values.Opset, "opset"), Opaque("schema")] + items, {})
    want = list(items)
    while want and want[-1] is None:
        want.pop()
    ctx.check("C17.prepare_inputs.trims_exactly_the_trailing_None_inputs", isinstance(r, list) and len(r) == len(want) and all(a is b for a, b in zip(r, want)),
              "C17: 'trims only trailing omitted optional inputs'")


SCENARIOS = [
    Scenario("C17.generated_methods", s_generated_methods, kind="evaluation",
             trusted=["onnx.defs schema registry of the installed onnx (data oracle)", "Op.__call__ -> evaluator.eval_op (C01)"]),
    Scenario("C17.mro_and_dynamic_lookup", s_mro_and_dynamic, kind="evaluation"),
    Scenario("C17.prepare_inputs", s_prepare_inputs, [("onnxscript/_internal/values.py", "Opset._prepare_inputs")],
             kind="bounded", bound="up to 5 inputs, each None or a value (all 63 None-patterns)"),
]


def s_opset_dynamic_lookup(ctx):
    """Opset.__getitem__ / __contains__ / __getattr__ (dynamic schema lookup): all three ask the registry for exactly
    (opname, THIS opset's version, THIS opset's domain); an existing schema gives Op(self, opname, schema) / True, a
    missing one None / False / AttributeError — never another exception, never the schema of another version."""
    import onnx
    import z3
    from pyvc.harness import Scenario as _S  # noqa: F401
    from pyvc.interp import Interp, PyRaise
    from pyvc.values import SObj, SStr, SInt, StrSort, term
    from onnxscript._internal import values
    I = Interp(ctx)
    name = z3.String("opname")
    dom = z3.String("domain")
    ver = ctx.int("version")
    for k, t in (("opname", name), ("domain", dom), ("version", ver)):
        ctx.witness[k] = t
    ops = SObj(values.Opset, "opset")
    ops.fields.update(domain=SStr(dom), version=SInt(ver))
    exists = ctx.choose(2, "the registry has a schema for the request") == 0
    calls = []

    class Schema:
        pass
    schema = Schema()

    def m_get_schema(interp, *a, **k):
        calls.append((a, k))
        if exists:
            return schema
        raise PyRaise(onnx.defs.SchemaError("No schema registered"))
    I.models[onnx.defs.get_schema] = m_get_schema
    made = []
    I.models[values.Op] = lambda interp, opset, nm, sch=None, *a: (made.append((opset, nm, sch)) or ("Op", len(made)))
    which = ["__getitem__", "__contains__", "__getattr__"][ctx.choose(3, "lookup form")]
    raised = None
    try:
        r = I.run_closure(I.closure_of(getattr(values.Opset, which)), [ops, SStr(name)], {})
    except PyRaise as e:
        raised, r = e.exc, None

    def same_request():
        if len(calls) != 1:
            return z3.BoolVal(False)
        a, k = calls[0]
        args = dict(zip(("op_type", "max_inclusive_version", "domain"), a))
        args.update(k)
        try:
            return z3.And(term(args["op_type"]) == name, term(args["max_inclusive_version"]) == ver, term(args["domain"]) == dom)
        except Exception:  # noqa: BLE001
            return z3.BoolVal(False)
    ctx.check(f"C17.opset.{which}.asks_the_registry_for_this_name_version_and_domain", same_request(),
              "C17: 'every generated opset class ... resolves the operator schema of exactly that (domain, name, since_version)'")
    if which == "__contains__":
        ctx.check("C17.opset.__contains__.true_iff_the_schema_exists", raised is None and r is exists, "C17")
    elif which == "__getitem__":
        ctx.check("C17.opset.__getitem__.op_of_this_opset_or_None", raised is None and ((r == ("Op", 1) and made == [(ops, made[0][1], schema)] and
                  z3.is_true(z3.simplify(term(made[0][1]) == name))) if exists else (r is None and not made)), "C17")
    else:
        if exists:
            ctx.check("C17.opset.__getattr__.op_of_this_opset_with_the_schema", raised is None and r == ("Op", 1) and made[0][0] is ops and made[0][2] is schema, "C17")
        else:
            ctx.check("C17.opset.__getattr__.missing_operator_is_an_AttributeError", isinstance(raised, AttributeError),
                      "C17: hasattr(opset, name) / getattr with default must work — only AttributeError may escape __getattr__")


from pyvc.harness import Scenario as _Scenario
SCENARIOS.append(_Scenario("C17.opset.dynamic_lookup", s_opset_dynamic_lookup,
                           [("onnxscript/_internal/values.py", "Opset.__getitem__"), ("onnxscript/_internal/values.py", "Opset.__contains__"),
                            ("onnxscript/_internal/values.py", "Opset.__getattr__")],
                           trusted=["onnx.defs.get_schema(op_type, max_inclusive_version, domain) (onnx)"]))


def s_prepare_inputs_anylen(ctx):
    """Opset._prepare_inputs for ANY number of inputs: the result is the argument list minus its maximal all-None suffix — the kept
    prefix is unchanged (same objects, same order), everything dropped is None, and the last kept input is not None.
    Inductive invariant of the while loop, stated for one arbitrary (Skolem) position j0."""
    import z3
    from onnxscript._internal import values
    from pyvc.interp import LoopSpec, StarArgs
    from pyvc.values import SSeq
    I = Interp(ctx)
    n = ctx.int("n")
    ctx.assume(n >= 0)
    j0 = ctx.int("j0")
    ctx.assume(z3.And(j0 >= 0, j0 < n))
    ctx.witness.update(n=n, j0=j0)
    isnone = z3.Function("input_is_none", z3.IntSort(), z3.BoolSort())
    is_literal = z3.Function("input_is_a_python_number", z3.IntSort(), z3.BoolSort())
    litval = z3.Function("literal_value", z3.IntSort(), z3.IntSort())
    from pyvc.values import SInt
    cache = {}

    def arg(i):
        i = z3.simplify(i)
        if ctx.branch(isnone(i)):
            return None
        if i.get_id() not in cache:
            if ctx.branch(is_literal(i)):
                # a Python number given as an input (possibly 0 / False-like: falsy but NOT an omitted input)
                o = SInt(litval(i))
            else:
                o = SObj(object, "input")
            o.idx = i
            cache[i.get_id()] = o
        return cache[i.get_id()]
    inputs = SSeq(n, arg, name="inputs")

    def mk(interp):
        L = ctx.int("len_input_list")
        ctx.assume(L >= 0)
        s = SSeq(L, arg, name="input_list")   # same element function: position i holds argument i
        s.mutable = True
        return s

    def inv(interp, env, k, pre, it):
        lst = env.lookup("input_list")
        return [("list_is_a_prefix_of_the_arguments", z3.And(lst.len >= 0, lst.len <= n)),
                ("everything_dropped_so_far_is_None", z3.Implies(j0 >= lst.len, isnone(j0)))]
    I.loops[("Opset._prepare_inputs", 0)] = LoopSpec({"input_list": mk}, inv)
    clo = I.closure_of(values.Opset._prepare_inputs)
    try:
        r = I.run_closure(clo, [SObj(values.Opset, "opset"), Opaque("schema"), StarArgs(inputs)], {})
    except PyRaise:
        ctx.check("C17.prepare_inputs.any_length.never_raises", False, "C17")
        return
    ok = isinstance(r, SSeq)
    ctx.check("C17.prepare_inputs.any_length.returns_a_list", ok, "C17")
    if not ok:
        return
    cl = "C17: 'trims only trailing omitted optional inputs' (any number of inputs)"
    L = r.len
    ctx.check("C17.prepare_inputs.any_length.result_is_a_prefix", z3.And(L >= 0, L <= n), cl)
    ctx.check("C17.prepare_inputs.any_length.dropped_inputs_are_all_None", z3.Implies(j0 >= L, isnone(j0)), cl)
    ctx.check("C17.prepare_inputs.any_length.last_kept_input_is_not_None", z3.Implies(L > 0, z3.Not(isnone(L - 1))), cl)
    if ctx.branch(j0 < L):
        e = r.at(j0)
        ctx.check("C17.prepare_inputs.any_length.kept_inputs_are_unchanged_and_in_order", isnone(j0) if e is None else (e.idx == j0), cl)


SCENARIOS.append(Scenario("C17.prepare_inputs[any length]", s_prepare_inputs_anylen, [("onnxscript/_internal/values.py", "Opset._prepare_inputs")],
                          assumptions=["loop invariant stated for one arbitrary (Skolem) position; termination not proved"]))
