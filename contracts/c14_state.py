"""C14 — deterministic, history-independent results: process-wide and per-object state.

  _pattern_ir.pattern_builder      the module-global builder is restored on normal AND exceptional exit of
                                   the with-block (path contract; an exception is injected at the yield)
  Converter.__init__               the converter works on a copy of the caller's globals
  RewriteRuleClassBase subclasses  every field that rewrite() reads is assigned by the same invocation's
                                   check() on every successful path (def-before-use across the check->rewrite
                                   protocol: no stale per-match state) — must-assign dataflow over the real
                                   source of every rule class, ground obligations per class (evaluation)
  converter If/Loop translation    independent of set iteration order: contracts/c01_converter.py
"""
from __future__ import annotations

import ast
import importlib
import inspect

from pyvc.harness import Scenario
from pyvc.interp import Interp, PyRaise, Env
from pyvc.values import SObj, Opaque, Closure
from pyvc import extract

CL_HIST = "C14: 'regardless of which other scripts or models, including ones that raised errors, were handled earlier in the same process'"
CL_GLOB = "C14: 'Script-time constants are fixed when the decorator runs: mutating globals afterwards changes neither the generated protos nor later calls'"


def s_pattern_builder(ctx):
    from onnxscript.rewriter import _pattern_ir
    I = Interp(ctx)
    fn = _pattern_ir.pattern_builder.__wrapped__
    clo = I.closure_of(fn)
    globs = dict(fn.__globals__)  # the scenario works on a copy of the module namespace
    P0, P1 = object(), object()
    globs["_pattern_builder"] = P0
    clo = Closure(clo.node, Env(None, globs), globs, clo.qualname, clo.file, clo.defaults, clo.kwdefaults)
    body_raises = ctx.choose(2, "with-body raises") == 1
    inside = []

    def on_yield(interp, v):
        inside.append(globs["_pattern_builder"])
        if body_raises:
            raise PyRaise(ValueError("pattern constructor failed"))
        return None
    I.on_yield = on_yield
    try:
        I.run_closure(clo, [P1], {})
    except PyRaise:
        pass
    ctx.check("C14.pattern_builder.builder_installed_inside_the_block", inside == [P1], CL_HIST)
    ctx.check("C14.pattern_builder.global_restored_on_" + ("exceptional" if body_raises else "normal") + "_exit",
              globs["_pattern_builder"] is P0, CL_HIST)


def s_converter_copies_globals(ctx):
    from onnxscript._internal import converter
    from onnxscript import opset18
    I = Interp(ctx)
    g = {"alpha": 1}
    c = I.instantiate(converter.Converter, [], {"opset": opset18, "global_names": g, "source": None, "default_opset": opset18})
    cg = c.fields.get("globals")
    ctx.check("C14.converter.init_copies_the_callers_globals", isinstance(cg, dict) and cg is not g and cg == {"alpha": 1}, CL_GLOB)
    g["alpha"] = 2
    ctx.check("C14.converter.later_mutation_of_globals_not_visible", cg.get("alpha") == 1, CL_GLOB)


# ------------------------------------------------------------------ per-match state ---------

def _self_attr(n):
    return isinstance(n, ast.Attribute) and isinstance(n.value, ast.Name) and n.value.id == "self"


def _assigned_targets(stmt):
    out = set()
    targets = []
    if isinstance(stmt, ast.Assign):
        targets = stmt.targets
    elif isinstance(stmt, (ast.AugAssign, ast.AnnAssign)):
        targets = [stmt.target]
    for t in targets:
        for n in ast.walk(t):
            if _self_attr(n) and isinstance(n.ctx, ast.Store):
                out.add(n.attr)
    return out


def _is_failure_return(node):
    """`return False`, `return None`, `return x.fail(...)`, `return check_result.fail(...)`."""
    v = node.value
    if v is None:
        return True
    if isinstance(v, ast.Constant) and v.value in (False, None):
        return True
    if isinstance(v, ast.Call) and isinstance(v.func, ast.Attribute) and v.func.attr == "fail":
        return True
    return False


def _is_super_check(stmt):
    v = getattr(stmt, "value", None)
    return (isinstance(stmt, (ast.Assign, ast.Expr, ast.Return)) and isinstance(v, ast.Call) and isinstance(v.func, ast.Attribute)
            and v.func.attr == "check" and isinstance(v.func.value, ast.Call) and isinstance(v.func.value.func, ast.Name)
            and v.func.value.func.id == "super")


def must_assign_at_success(fn_node, parent_success=frozenset()):
    """Set of self-fields assigned on EVERY path that reaches a successful return of check().
    Conservative must-analysis: if/else intersect, loops and try bodies contribute nothing."""
    results = []

    def block(stmts, cur):
        for s in stmts:
            if isinstance(s, ast.Return):
                if not _is_failure_return(s):
                    results.append(set(cur))
                return None  # path ends
            if isinstance(s, ast.Raise):
                return None
            if isinstance(s, ast.If):
                a = block(s.body, set(cur))
                b = block(s.orelse, set(cur))
                if a is None and b is None:
                    return None
                cur = a if b is None else b if a is None else (a & b)
                continue
            if isinstance(s, (ast.For, ast.While, ast.Try, ast.With)):
                # anything assigned inside may not execute: analyse for returns, keep cur
                for fld in ("body", "orelse", "finalbody"):
                    sub = getattr(s, fld, None)
                    if sub:
                        block(sub, set(cur))
                for h in getattr(s, "handlers", []) or []:
                    block(h.body, set(cur))
                continue
            if _is_super_check(s):
                # `r = super().check(...)`: the derived check only succeeds if the parent's did (it returns
                # the parent's failure); what the parent assigns on all its successful paths is assigned here
                cur = cur | set(parent_success)
            cur = cur | _assigned_targets(s)
        return cur
    end = block(fn_node.body, set())
    if end is not None:
        # falling off the end returns None: a failed check
        pass
    return results


def s_rule_state(_ctx):
    from contracts.c17_opsets import Agg
    from onnxscript.rewriter import _rewrite_rule
    import pkgutil
    import onnxscript.rewriter.rules.common as common
    import onnxscript.rewriter.rules.fusion as fusion
    agg = Agg()
    n = 0
    fns = []
    cl = "C14: 'handled earlier in the same process by the same decorator, pass and rule objects' — a rule object must not carry state from one match into the next"
    classes = []
    for pkg in (common, fusion):
        for m in pkgutil.iter_modules(pkg.__path__):
            if m.name.endswith("_test"):
                continue
            mod = importlib.import_module(pkg.__name__ + "." + m.name)
            for name, cls in vars(mod).items():
                if inspect.isclass(cls) and issubclass(cls, _rewrite_rule.RewriteRuleClassBase) and cls.__module__ == mod.__name__:
                    classes.append(cls)
    for cls in classes:
        n += 1
        chks = [k.__dict__["check"] for k in cls.__mro__ if "check" in k.__dict__ and k is not _rewrite_rule.RewriteRuleClassBase]
        chk = chks[0] if chks else None
        rw = next((k.__dict__["rewrite"] for k in cls.__mro__ if "rewrite" in k.__dict__ and k is not _rewrite_rule.RewriteRuleClassBase), None)
        if rw is None:
            continue
        ri = extract.function_from_object(rw)
        if ri is None:
            continue
        rnode = ri[2]
        # fields read by rewrite before rewrite itself assigns them
        own = set()
        reads = set()
        for s in rnode.body:
            for x in ast.walk(s):
                if _self_attr(x) and isinstance(x.ctx, ast.Load) and x.attr not in own and x.attr.startswith("_"):
                    reads.add(x.attr)
            own |= _assigned_targets(s)
        # fields set once in __init__ (configuration, never reassigned by check) are not per-match state
        init_fields = set()
        for k in cls.__mro__:
            f = k.__dict__.get("__init__")
            fi = extract.function_from_object(f) if f is not None else None
            if fi:
                for s in ast.walk(fi[2]):
                    init_fields |= _assigned_targets(s) if isinstance(s, (ast.Assign, ast.AnnAssign, ast.AugAssign)) else set()
        check_assigned = set()
        succ = []
        if chk is not None:
            ci = extract.function_from_object(chk)
            if ci:
                for s in ast.walk(ci[2]):
                    if isinstance(s, (ast.Assign, ast.AnnAssign, ast.AugAssign)):
                        check_assigned |= _assigned_targets(s)
                parent = frozenset()
                for pc in reversed(chks[1:]):
                    pi = extract.function_from_object(pc)
                    if pi:
                        ps = must_assign_at_success(pi[2], parent)
                        parent = frozenset(set.intersection(*ps)) if ps else frozenset()
                        for s2 in ast.walk(pi[2]):
                            if isinstance(s2, (ast.Assign, ast.AnnAssign, ast.AugAssign)):
                                check_assigned |= _assigned_targets(s2)
                succ = must_assign_at_success(ci[2], parent)
                fns.append({"file": ci[0], "qualname": ci[1], "sha": extract.source_hash(ci[0], ci[1])})
        fns.append({"file": ri[0], "qualname": ri[1], "sha": extract.source_hash(ri[0], ri[1])})
        per_match = {r for r in reads if r in check_assigned or r not in init_fields}
        per_match = {r for r in per_match if not callable(getattr(cls, r, None))}
        where = f"{cls.__module__.split('.')[-1]}.{cls.__name__}"
        for fld in sorted(per_match):
            ok = bool(succ) and all(fld in s for s in succ)
            agg.ob("C14.rules.rewrite_reads_only_fields_assigned_on_every_successful_check_path", ok,
                   f"{where}: rewrite() reads self.{fld}, which check() does not assign on every successful path "
                   f"(successful returns assign {[sorted(s) for s in succ]}) — a value from an earlier match can leak", cl,
                   case=f"{where}.{fld}")
        if not per_match:
            agg.ob("C14.rules.rewrite_reads_no_per_match_state", True, where, cl)
    return {"obligations": agg.obs, "paths": n, "covered": [f"rule_classes={n}"], "notes": [], "functions": fns}


SCENARIOS = [
    Scenario("C14.pattern_builder", s_pattern_builder, [("onnxscript/rewriter/_pattern_ir.py", "pattern_builder")],
             trusted=["contextlib.contextmanager: an exception raised in the with-body is thrown into the generator at its yield"]),
    Scenario("C14.converter.init", s_converter_copies_globals, [("onnxscript/_internal/converter.py", "Converter.__init__")]),
    Scenario("C14.rules.per_match_state", s_rule_state, kind="evaluation",
             trusted=["must-assign analysis is conservative: loops, try and with bodies are assumed not to execute"]),
]


def s_attr_constant_is_a_snapshot(_ctx):
    """_translate_attr: a script-time value used as an attribute is fixed when the decorator runs — mutating the global
    afterwards (in place, for a numpy array or a list) must not change the attribute already built.  Concrete run of the
    real function on real values (ndarray / list / nested list / scalar), then in-place mutation, then comparison."""
    import ast as _ast
    import numpy as np
    import onnx_ir as ir
    from contracts.c17_opsets import Agg
    from pyvc.core import Ctx
    from contracts import convmodel as CM
    agg = Agg()
    cl = "C14: 'Script-time constants are fixed when the decorator runs: mutating globals afterwards changes neither the generated protos nor later calls'"
    cases = [("float32 ndarray as tensor", np.array([1.0, 2.0], dtype=np.float32), ir.AttributeType.TENSOR),
             ("int64 ndarray as tensor", np.array([[1, 2], [3, 4]], dtype=np.int64), ir.AttributeType.TENSOR),
             ("list of floats", [1.0, 2.0], ir.AttributeType.FLOATS),
             ("list of ints", [1, 2], ir.AttributeType.INTS),
             ("float list as tensor", [1.0, 2.0], ir.AttributeType.TENSOR)]
    n = 0
    for label, value, atype in cases:
        n += 1
        ctx = Ctx([], {"solver_s": 0.0, "queries": 0})
        I = Interp(ctx, models=CM.converter_models())
        # the real ir.tensor / AttrTensor are wanted here
        import onnx_ir
        for k in (onnx_ir.tensor, onnx_ir.AttrTensor, onnx_ir.AttrInt64):
            I.models.pop(k, None)
        self = CM.new_converter(I)
        C = CM._conv_cls()
        self.fields["globals"] = {"G": value}
        I.models[C._eval_constant_expr] = lambda interp, slf, e: slf.fields["globals"]["G"]
        meta = SObj(object, "attr_meta")
        meta.fields.update(type=atype, required=False)
        expr = _ast.parse("G + 0", mode="eval").body     # any expression that is not a plain local name
        try:
            attr = I.run_closure(I.closure_of(C._translate_attr), [self, "value", expr, meta], {})

            def snapshot(a):
                v = a.value
                return v.numpy().tolist() if hasattr(v, "numpy") else list(v)
            before = snapshot(attr)
            if isinstance(value, np.ndarray):
                value.reshape(-1)[0] = 100
            else:
                value[0] = 100
            after = snapshot(attr)
            ok = before == after
            detail = f"{label}: attribute built as {before}; after mutating the global in place it reads {after}"
        except Exception as e:  # noqa: BLE001
            ok, detail = False, f"{label}: {type(e).__name__}: {e}"
        agg.ob("C14.converter.attribute_value_is_a_snapshot_of_the_script_time_constant", ok, detail, cl, case=label)
    # the same for a script-time value used as an OPERAND (x + W): Converter._emit_const
    for label, value in (("float32 ndarray operand", np.array([1.0, 2.0], dtype=np.float32)), ("list operand", [1.0, 2.0])):
        n += 1
        ctx = Ctx([], {"solver_s": 0.0, "queries": 0})
        I = Interp(ctx, models=CM.converter_models())
        for k in (onnx_ir.tensor, onnx_ir.AttrTensor, onnx_ir.AttrInt64):
            I.models.pop(k, None)
        self = CM.new_converter(I)
        C = CM._conv_cls()
        got = []
        I.models[C._generate_unique_name] = lambda interp, slf, candidate="tmp": "const_0"
        I.models[C._emit1] = lambda interp, slf, outs, op_, ins, attrs=None: (got.append(attrs) or "value")
        from onnxscript._internal import values as _values
        I.models[_values.Op] = lambda interp, opset, name, *a: ("Op", name)
        try:
            I.run_closure(I.closure_of(C._emit_const), [self, value, None, CM.real_info()], {})
            t = got[0][0].value
            before = t.numpy().tolist()
            if isinstance(value, np.ndarray):
                value[0] = 100
            else:
                value[0] = 100
            after = t.numpy().tolist()
            ok, detail = before == after, f"{label}: Constant built as {before}; after mutating the global in place it reads {after}"
        except Exception as e:  # noqa: BLE001
            ok, detail = False, f"{label}: {type(e).__name__}: {e}"
        agg.ob("C14.converter.constant_operand_is_a_snapshot_of_the_script_time_constant", ok, detail, cl, case=label)
    return {"obligations": agg.obs, "paths": n, "covered": [f"attribute_cases={n}"], "notes": [], "functions": []}


SCENARIOS.append(Scenario("C14.converter.attr_snapshot", s_attr_constant_is_a_snapshot,
                          [("onnxscript/_internal/converter.py", "Converter._translate_attr"), ("onnxscript/_internal/converter.py", "Converter._emit_const")], kind="evaluation",
                          trusted=["ir.tensor / ir.convenience.convert_attribute (onnx_ir)"]))


def s_eager_globals(_ctx):
    """Eager calls after decoration: the Python function that eager mode executes (OnnxFunction.function, called by
    BaseEvaluator.eval_function) must read script-time constants from what the decorator saw.  Ground obligation on the
    real decorator: the executed function's globals must not be the live module dictionary."""
    import sys
    import types
    from contracts.c17_opsets import Agg
    agg = Agg()
    cl = "C14: 'Script-time constants are fixed when the decorator runs: mutating globals afterwards changes neither the generated protos nor later calls'"
    src = ("from onnxscript import script, FLOAT\nfrom onnxscript import opset18 as op\nALPHA = 2.0\nSCALE = 2.0\n"
           "@script(default_opset=op)\ndef f(x: FLOAT[2]) -> FLOAT[2]:\n    return x * ALPHA\n"
           "def factory():\n    SCALE = 10.0\n    @script(default_opset=op)\n    def inner(x: FLOAT[2]) -> FLOAT[2]:\n        return x * SCALE\n    return inner\n"
           "inner = factory()\n"
           "@script(default_opset=op)\ndef target(x: FLOAT[2]) -> FLOAT[2]:\n    return x * SCALE\n")
    import os
    import tempfile
    import importlib.util
    d = tempfile.mkdtemp(prefix="pyvc_eager_")
    path = os.path.join(d, "eager_glob_case.py")
    open(path, "w").write(src)
    try:
        spec = importlib.util.spec_from_file_location("eager_glob_case", path)
        mod = importlib.util.module_from_spec(spec)
        sys.modules["eager_glob_case"] = mod
        spec.loader.exec_module(mod)
        import onnx
        def consts(m):
            return [onnx.numpy_helper.to_array(nd.attribute[0].t).tolist() for nd in m.graph.node if nd.op_type == "Constant" and nd.attribute[0].HasField("t")]
        c_inner, c_target = consts(mod.inner.to_model_proto()), consts(mod.target.to_model_proto())
        agg.ob("C14.script.decoration_does_not_write_the_module_namespace", mod.SCALE == 2.0 and c_target == [2.0] and c_inner == [10.0],
               f"a script decorated inside a factory whose local SCALE = 10.0 shadows the module global SCALE = 2.0: afterwards the module global is "
               f"{mod.SCALE!r}, a later script using the module global was translated with {c_target} (the factory's script with {c_inner})",
               "C14: 'regardless of which other scripts ... were handled earlier in the same process by the same decorator'", case="closure variable shadowing a module global")
        fn = mod.f.function
        live = fn.__globals__ is mod.__dict__
        agg.ob("C14.eager.executed_function_reads_globals_from_a_decoration_time_snapshot", not live,
               "the function eager mode calls (OnnxFunction.function) has __globals__ IS the module dictionary: rebinding ALPHA after "
               "decoration changes later eager calls while the proto keeps the old value", cl, case="module global")
    finally:
        sys.modules.pop("eager_glob_case", None)
        import shutil
        shutil.rmtree(d, ignore_errors=True)
    return {"obligations": agg.obs, "paths": 1, "covered": ["eager_globals"], "notes": [], "functions": []}


SCENARIOS.append(Scenario("C14.eager.globals", s_eager_globals, [("onnxscript/_internal/main.py", "script"), ("onnxscript/_internal/main.py", "script.transform")],
                          kind="evaluation"))


CL_SEED = "C14: 'gives the same serialized result in every process - regardless of hash randomisation'"


def s_graph_pattern_output_nodes(ctx, n_out=1):
    """GraphPattern.__init__: output_nodes (the roots the matcher starts from, in this order) is a function of the OUTPUTS
    SEQUENCE and the pattern structure only: the producers of the outputs in order of first appearance, a producer being
    skipped when it lies in the backward slice of an earlier root.  The engine runs the constructor under the
    arbitrary-set-order model (every iteration over a set forks over every order), so a result that depends on the
    iteration order of a set fails on some path.  Returned choice values must be inputs of a covered node.
    bounded: pattern DAGs of <= 3 nodes (every edge subset) + one Or value, every output sequence of length <= 3."""
    from onnxscript.rewriter import _pattern_ir as P
    I = Interp(ctx)
    I.set_order_nondet = True
    x = P.Var("x")
    alt = P.BacktrackingOr([P.Var("p"), P.Var("q")])
    nodes = []
    preds = []
    for i in range(3):
        ins = [x]
        pr = set()
        for j in range(i):
            if ctx.choose(2, f"node {i} reads node {j}") == 1:
                ins.append(nodes[j].outputs[0])
                pr.add(j)
        uses_or = i > 0 and ctx.choose(2, f"node {i} reads the Or value") == 1
        if uses_or:
            ins.append(alt)
        nodes.append(P.NodePattern("", f"Op{i}", ins, {}, [f"o{i}", f"o{i}b"], allow_other_attributes=None, allow_other_inputs=None))
        preds.append((pr, uses_or))
    cands = [n.outputs[0] for n in nodes] + [nodes[2].outputs[1], alt]
    outs_idx = [ctx.choose(len(cands), f"output {k}") for k in range(n_out)]
    outs = [cands[k] for k in outs_idx]

    # specification, from the pattern structure alone
    def slice_of(i, acc):
        if i in acc:
            return
        acc.add(i)
        for j in preds[i][0]:
            slice_of(j, acc)
    covered, roots, ret_or = set(), [], False
    for k in outs_idx:
        if k == 4:
            ret_or = True
            continue
        i = 2 if k == 3 else k
        if i not in covered:
            roots.append(i)
            slice_of(i, covered)
    or_covered = any(preds[i][1] for i in covered)
    try:
        gp = I.instantiate(P.GraphPattern, [[x], outs, nodes], {})
    except PyRaise as e:
        ctx.check("C14.graph_pattern.rejects_exactly_an_uncovered_returned_choice_value",
                  isinstance(e.exc, NotImplementedError) and ret_or and not or_covered, CL_SEED)
        return
    ctx.check("C14.graph_pattern.rejects_exactly_an_uncovered_returned_choice_value", not (ret_or and not or_covered), CL_SEED)
    got = I.getattr(gp, "output_nodes")
    ctx.check("C14.graph_pattern.output_nodes_follow_the_outputs_sequence_under_every_set_iteration_order",
              isinstance(got, list) and [id(n) for n in got] == [id(nodes[i]) for i in roots], CL_SEED)


for _n in (1, 2, 3):
    def _mk(n):
        def run(ctx):
            return s_graph_pattern_output_nodes(ctx, n)
        run.__doc__ = s_graph_pattern_output_nodes.__doc__
        return run
    SCENARIOS.append(Scenario(f"C14.graph_pattern.output_nodes[{_n} outputs]", _mk(_n),
                              [("onnxscript/rewriter/_pattern_ir.py", "GraphPattern.__init__"), ("onnxscript/rewriter/_pattern_ir.py", "_add_backward_slice")],
                              kind="bounded", max_paths=8000,
                              trusted=["arbitrary-set-order model: list()/for over a native set forks over every permutation (sets of <= 4 elements; three representative orders beyond)"]))


def s_record_contributing_values(ctx):
    """_record_contributing_values(node, replacement): the provenance written into metadata_props (which IS serialized) is
    the canonical text of the set of contributing names - the same string under every iteration order of the sets
    involved; meta holds the set itself.  Run under the arbitrary-set-order model.
    bounded: <= 3 inputs (absent / named / named with own provenance of <= 2 names), <= 2 new outputs."""
    import onnx_ir as ir
    from onnxscript.optimizer import _constant_folding as cf
    I = Interp(ctx)
    I.set_order_nondet = True
    n_in = 1 + ctx.choose(3, "number of inputs")
    ins, want = [], set()
    for i in range(n_in):
        k = ctx.choose(3, f"input {i}: absent / plain / with provenance")
        if k == 0:
            ins.append(None)
            continue
        v = ir.Value(name=["b", "a", "c"][i])
        want.add(v.name)
        if k == 2:
            prov = {f"z{i}", "a"} if ctx.choose(2, f"provenance of input {i} overlaps") else {f"z{i}", f"y{i}"}
            v.meta[cf.FOLDED_FROM_KEY] = set(prov)
            want |= prov
        ins.append(v)
    node = ir.Node("", "Add", ins, num_outputs=1)
    outs = [ir.Value(name="new0"), None, ir.Value(name="new1")][: 1 + ctx.choose(3, "number of new outputs")]
    repl = cf.Replacement(outs, [])
    I.call(cf._record_contributing_values, [node, repl])
    for o in outs:
        if o is None:
            continue
        ctx.check("C14.folding.provenance.metadata_text_is_canonical_under_every_set_iteration_order",
                  o.metadata_props.get(cf.FOLDED_FROM_KEY) == repr(sorted(want)), CL_SEED)
        ctx.check("C14.folding.provenance.meta_holds_the_set_of_contributing_names", o.meta.get(cf.FOLDED_FROM_KEY) == want, CL_SEED)
    for v in ins:
        if v is not None:
            ctx.check("C14.folding.provenance.inputs_are_not_modified", cf.FOLDED_FROM_KEY not in v.metadata_props, CL_SEED)


SCENARIOS.append(Scenario("C14.folding.provenance", s_record_contributing_values,
                          [("onnxscript/optimizer/_constant_folding.py", "_record_contributing_values")], kind="bounded", max_paths=20000,
                          trusted=["arbitrary-set-order model: list()/for over a native set forks over every permutation (sets of <= 4 elements; three representative orders beyond)"]))


def s_to_model_proto_frame(ctx):
    """OnnxFunction.to_model_proto(**kwargs): the export options of THIS call are the decorator's options overridden by the
    call's; the function object is not modified (self.kwargs - shared by every function made by one decorator object -
    keeps its content), so a later call without options, on this or any other function, is unaffected (C14: 'can be
    called repeatedly with identical results and without modifying the function')."""
    from onnxscript._internal import values
    I = Interp(ctx)
    fn = SObj(values.OnnxFunction, "onnx_function")
    deco = {"producer_name": "deco"} if ctx.choose(2, "decorator has options") == 0 else {}
    shared = dict(deco)
    has_required = ctx.choose(2, "function has a required attribute") == 1
    attr = SObj(object, "attr")
    attr.fields["value"] = None if has_required else 1
    fir = SObj(object, "function_ir")
    fir.fields["attrs"] = [attr] if ctx.choose(2, "function has attributes") == 0 else []
    fn.fields.update(kwargs=shared, function_ir=fir)
    calls = []
    I.models[values.OnnxFunction._to_model_proto] = lambda interp, slf, **kw: (calls.append(dict(kw)) or ("proto", len(calls)))
    call_kw = {"ir_version": 7, "producer_name": "call"} if ctx.choose(2, "call passes options") == 0 else {}
    clo = I.closure_of(values.OnnxFunction.to_model_proto)
    try:
        r1 = I.run_closure(clo, [fn], dict(call_kw))
        r2 = I.run_closure(clo, [fn], {})
    except PyRaise as e:
        ctx.check("C14.to_model_proto.refuses_exactly_functions_with_a_required_attribute",
                  isinstance(e.exc, ValueError) and has_required and bool(fir.fields["attrs"]) and not calls, CL_GLOB)
        return
    ctx.check("C14.to_model_proto.refuses_exactly_functions_with_a_required_attribute", not (has_required and fir.fields["attrs"]), CL_GLOB)
    ctx.check("C14.to_model_proto.options_are_the_decorator_options_overridden_by_the_call", calls[:1] == [{**deco, **call_kw}], CL_GLOB)
    ctx.check("C14.to_model_proto.function_object_is_not_modified", shared == deco and fn.fields["kwargs"] is shared, CL_GLOB)
    ctx.check("C14.to_model_proto.a_later_call_without_options_uses_the_decorator_options_only", calls[1:] == [dict(deco)], CL_GLOB)


SCENARIOS.append(Scenario("C14.to_model_proto.frame", s_to_model_proto_frame, [("onnxscript/_internal/values.py", "OnnxFunction.to_model_proto")]))


def s_reference_evaluator_history(ctx):
    """The module-level ReferenceEvaluator used for constant folding carries no history: what get_evaluator / evaluate return for
    (domain, op, version) is what the reference implementation registry returns for exactly these three — also right after a lookup of the
    same operator at ANOTHER version (models of different opsets optimized in one process).  Versions are symbolic."""
    import onnx
    import z3
    from onnxscript.optimizer import _constant_folding as cf
    from pyvc.values import SInt, term
    I = Interp(ctx)
    ev = I.instantiate(cf.ReferenceEvaluator, [], {})
    v1, v2 = ctx.int("version_first"), ctx.int("version_then")
    ctx.assume(z3.And(v1 >= 1, v2 >= 1))
    ctx.witness.update(version_first=v1, version_then=v2)
    same_op = ctx.choose(2, "the second lookup is for the same operator") == 0
    asked = []

    def m_load_op(interp, domain, op, version=None, *a, **k):
        asked.append((domain, op, version))
        impl = SObj(object, "implementation_class")
        impl.fields["eval"] = ("eval of", domain, op, version)
        return impl
    I.models[onnx.reference.ops.load_op] = m_load_op
    first = I.call(I.getattr(ev, "get_evaluator"), ["", "Squeeze", SInt(v1)])
    second = I.call(I.getattr(ev, "get_evaluator"), ["", "Squeeze" if same_op else "Softmax", SInt(v2)])
    cl = ("C14: 'gives the same serialized result in every process ... regardless of which other scripts or models ... were handled earlier in the same process "
          "by the same decorator, pass and rule objects' — the reference implementation of an operator depends on the opset version")
    ok = isinstance(second, tuple) and len(second) == 4
    ctx.check("C14.folding.reference_evaluator.lookup_result_is_an_implementation_of_the_requested_operator", ok and second[1:3] == ("", "Squeeze" if same_op else "Softmax"), cl)
    if ok:
        ctx.check("C14.folding.reference_evaluator.lookup_uses_the_requested_version_whatever_was_looked_up_before", term(second[3]) == v2, cl)


SCENARIOS.append(Scenario("C14.folding.reference_evaluator_history", s_reference_evaluator_history,
                          [("onnxscript/optimizer/_constant_folding.py", "ReferenceEvaluator.get_evaluator")],
                          trusted=["onnx.reference.ops.load_op(domain, op, version) is a function of its three arguments (onnx)"]))
