"""C18 — nn.Module tree iterators and state loading on the REAL classes (exhaustive evaluation over a finite family of module trees:
plain modules nested to depth 3, ModuleList and Sequential containers, populated in the constructor or afterwards):

  named_parameters / parameters / state_dict / named_modules   one entry per parameter, the SAME keys in the same order from named_parameters()
        and state_dict(), each key = the dotted attribute path; parameters() yields the same objects; the path of every module from
        named_modules() prefixes the keys of its own parameters
  graph tracing                                                the initializer registered for a parameter is named <root name>.<its key>
  load_state_dict                                              afterwards every parameter holds the tensor stored under ITS key; strict: a missing
        key raises KeyError, an unexpected key ValueError; non-strict: both are ignored and the other parameters are still loaded
  ModuleList.__getitem__                                       int (negative from the back, out of range -> IndexError) and slice agree with list semantics
"""
from __future__ import annotations

from pyvc.harness import Scenario

CL = ("C18: 'every module parameter appears exactly once as an initializer whose name is the dotted module path, equal to the keys of "
      "state_dict()/named_parameters() prefixed with the root module's name'")


def _classes():
    from onnxscript import nn

    class Leaf(nn.Module):
        def __init__(self, n=1):
            super().__init__()
            for i in range(n):
                setattr(self, "w" if i == 0 else f"b{i}", nn.Parameter([2]))

        def forward(self, op, x):
            for p in self._parameters.values():
                x = op.Add(x, p)
            return x

    class Pair(nn.Module):
        def __init__(self, a, b, own=False):
            super().__init__()
            self.first = a
            if own:
                self.scale = nn.Parameter([2])
            self.second = b

        def forward(self, op, x):
            x = self.first(op, x)
            if "scale" in self._parameters:
                x = op.Mul(x, self.scale)
            return self.second(op, x)

    class ListNet(nn.Module):
        def __init__(self, mods, late):
            super().__init__()
            if late:
                self.layers = nn.ModuleList()
                for m in mods:
                    self.layers.append(m)
            else:
                self.layers = nn.ModuleList(mods)

        def forward(self, op, x):
            for m in self.layers:
                x = m(op, x)
            return x

    class SeqNet(nn.Module):
        def __init__(self, mods):
            super().__init__()
            self.body = nn.Sequential(*mods)
            self.head = Leaf()

        def forward(self, op, x):
            return self.head(op, self.body(op, x))
    return nn, Leaf, Pair, ListNet, SeqNet


def _trees():
    nn, Leaf, Pair, ListNet, SeqNet = _classes()
    yield "leaf with two parameters", lambda: Leaf(2)
    yield "pair of leaves", lambda: Pair(Leaf(), Leaf(2))
    yield "pair with an own parameter between the children", lambda: Pair(Leaf(), Leaf(), own=True)
    yield "depth 3", lambda: Pair(Pair(Leaf(), Leaf()), Leaf(2), own=True)
    yield "module list (constructor)", lambda: ListNet([Leaf(), Leaf(2), Pair(Leaf(), Leaf())], late=False)
    yield "module list (appended after attaching)", lambda: ListNet([Leaf(), Pair(Leaf(), Leaf(2))], late=True)
    yield "module list of module lists", lambda: ListNet([ListNet([Leaf(), Leaf()], late=False), Leaf()], late=False)
    yield "sequential and a head", lambda: SeqNet([Leaf(), Pair(Leaf(), Leaf()), Leaf(2)])
    yield "pair holding a sequential net", lambda: Pair(SeqNet([Leaf()]), ListNet([Leaf()], late=True), own=True)


def _expected_keys(mod, prefix=""):
    """independent reading of the attribute tree: parameters of a module first (registration order), then its children (registration order)"""
    out = []
    for name, p in mod._parameters.items():
        out.append(((prefix + "." + name) if prefix else name, p))
    for name, child in mod._modules.items():
        out += _expected_keys(child, (prefix + "." + name) if prefix else name)
    return out


def s_nn_tree(_ctx):
    import numpy as np
    import onnx_ir as ir
    from contracts.c17_opsets import Agg
    from onnxscript._internal import builder
    nn = _classes()[0]
    agg = Agg()
    n = 0
    for what, make in _trees():
        n += 1
        root = make()
        exp = _expected_keys(root)
        keys = [k for k, _ in exp]
        np_ = list(root.named_parameters())
        sd = root.state_dict()
        agg.ob("C18.nn.tree.named_parameters_and_state_dict_have_the_same_keys_one_per_parameter",
               [k for k, _ in np_] == keys == list(sd) and len(set(keys)) == len(keys) and all(a is b for (_, a), (_, b) in zip(np_, exp)),
               f"{what}: named_parameters {[k for k, _ in np_]}, state_dict {list(sd)}, attribute paths {keys}", CL, case=what)
        agg.ob("C18.nn.tree.parameters_yields_the_same_parameters_in_the_same_order", [id(p) for p in root.parameters()] == [id(p) for _, p in exp], what, CL, case=what)
        mods = dict(root.named_modules())
        ok = "" in mods and mods[""] is root
        for path, m in mods.items():
            for pname in m._parameters:
                ok = ok and ((path + "." + pname) if path else pname) in sd
        agg.ob("C18.nn.tree.module_paths_prefix_the_keys_of_their_parameters", ok and len(mods) == len(list(root.modules())), f"{what}: {list(mods)}", CL, case=what)
        # tracing: initializer names
        root._set_name("model") if root._name is None else None
        g = ir.Graph([], [], nodes=[], opset_imports={"": 18}, name="g")
        x = ir.Value(name="x", type=ir.TensorType(ir.DataType.FLOAT), shape=ir.Shape([2]))
        g.inputs.append(x)
        gb = builder.GraphBuilder(g)
        try:
            root(gb.op, x)
            names = sorted(g.initializers)
            agg.ob("C18.nn.tree.initializer_names_are_root_name_dot_key", names == sorted("model." + k for k in keys), f"{what}: {names}", CL, case=what)
        except Exception as e:  # noqa: BLE001
            agg.ob("C18.nn.tree.initializer_names_are_root_name_dot_key", False, f"{what}: tracing raises {type(e).__name__}: {e}", CL, case=what)
        # load_state_dict
        fresh = make()
        tens = {k: ir.tensor(np.full((2,), float(i), np.float32), name=k) for i, k in enumerate(keys)}
        fresh.load_state_dict(dict(tens))
        agg.ob("C18.nn.tree.load_state_dict_gives_every_parameter_the_tensor_of_its_own_key",
               all(p.const_value is tens[k] for k, p in fresh.named_parameters()), what, CL, case=what)
        if keys:
            miss = dict(tens)
            miss.pop(keys[-1])
            try:
                make().load_state_dict(miss)
                r1 = "no error"
            except KeyError:
                r1 = "KeyError"
            except Exception as e:  # noqa: BLE001
                r1 = type(e).__name__
            extra = dict(tens, **{"no.such.parameter": tens[keys[0]]})
            try:
                make().load_state_dict(extra)
                r2 = "no error"
            except ValueError:
                r2 = "ValueError"
            except Exception as e:  # noqa: BLE001
                r2 = type(e).__name__
            agg.ob("C18.nn.tree.strict_loading_refuses_missing_and_unexpected_keys", (r1, r2) == ("KeyError", "ValueError"), f"{what}: missing key -> {r1}, unexpected key -> {r2}", CL, case=what)
            lenient = make()
            try:
                lenient.load_state_dict(dict(miss, **{"no.such.parameter": tens[keys[0]]}), strict=False)
                ok3 = all((p.const_value is tens[k]) if k in miss else (p.const_value is None) for k, p in lenient.named_parameters())
            except Exception:  # noqa: BLE001
                ok3 = False
            agg.ob("C18.nn.tree.non_strict_loading_loads_what_is_there", ok3, what, CL, case=what)
    # ModuleList.__getitem__
    Leaf = _classes()[1]
    items = [Leaf() for _ in range(4)]
    ml = nn.ModuleList(items)
    ok = len(ml) == 4 and list(ml) == items
    for i in range(-6, 6):
        try:
            got = ml[i]
        except IndexError:
            got = IndexError
        try:
            want = items[i]
        except IndexError:
            want = IndexError
        ok = ok and got is want
    for sl in (slice(1, 3), slice(None, None, 2), slice(-2, None), slice(3, 1)):
        ok = ok and list(ml[sl]) == items[sl]
    agg.ob("C18.nn.module_list.getitem_agrees_with_list_indexing", ok, "ints in [-6, 6), four slices", CL)
    return {"obligations": agg.obs, "paths": n, "covered": [f"module_trees={n}"], "notes": [], "functions": []}


F = lambda rel, *q: [(rel, x) for x in q]
SCENARIOS = [
    Scenario("C18.nn.module_tree", s_nn_tree,
             F("onnxscript/nn/_module.py", "Module.named_parameters", "Module.parameters", "Module.named_modules", "Module.modules", "Module.state_dict", "Module.load_state_dict",
               "Module._load_state_dict_recursive", "Module.__call__", "Module.__setattr__")
             + F("onnxscript/nn/_module_list.py", "ModuleList.__getitem__", "ModuleList.__len__", "ModuleList.__iter__", "ModuleList.append")
             + F("onnxscript/nn/_parameter.py", "Parameter.__init__", "Parameter._realize"),
             kind="evaluation", trusted=["an independent walk of _parameters / _modules (registration order) as the reference for 'the dotted module path'"]),
]
