"""C18 — nn.Module tree iterators and state loading on the REAL classes (exhaustive evaluation over a finite family of module trees:
plain modules nested to depth 3, ModuleList and Sequential containers, populated in the constructor or afterwards):

  named_parameters / parameters / state_dict / named_modules   one entry per parameter, the SAME keys in the same order from named_parameters()
        and state_dict(), each key = the dotted attribute path; parameters() yields the same objects; the path of every module from
        named_modules() prefixes the keys of its own parameters
  graph tracing                                                the initializer registered for a parameter is named <root name>.<its key>
  load_state_dict                                              afterwards every parameter holds the tensor stored under ITS key; strict: a missing
        key raises KeyError, an unexpected key ValueError; non-strict: both are ignored and the other parameters are still loaded
  ModuleList.__getitem__                                       int (negative from the back, out of range -> IndexError) and slice agree with list semantics
"""
from __future__ import annotations

from pyvc.harness import Scenario

CL = ("C18: 'every module parameter appears exactly once as an initializer whose name is the dotted module path, equal to the keys of "
      "state_dict()/named_parameters() prefixed with the root module's name'")


def _classes():
    from onnxscript import nn

    class Leaf(nn.Module):
        def __init__(self, n=1):
            super().__init__()
            for i in range(n):
                setattr(self, "w" if i == 0 else f"b{i}", nn.Parameter([2]))

        def forward(self, op, x):
            for p in self._parameters.values():
                x = op.Add(x, p)
            return x

    class Pair(nn.Module):
        def __init__(self, a, b, own=False):
            super().__init__()
            self.first = a
            if own:
                self.scale = nn.Parameter([2])
            self.second = b

        def forward(self, op, x):
            x = self.first(op, x)
            if "scale" in self._parameters:
                x = op.Mul(x, self.scale)
            return self.second(op, x)

    class ListNet(nn.Module):
        def __init__(self, mods, late):
            super().__init__()
            if late:
                self.layers = nn.ModuleList()
                for m in mods:
                    self.layers.append(m)
            else:
                self.layers = nn.ModuleList(mods)

        def forward(self, op, x):
            for m in self.layers:
                x = m(op, x)
            return x

    class SeqNet(nn.Module):
        def __init__(self, mods):
            super().__init__()
            self.body = nn.Sequential(*mods)
            self.head = Leaf()

        def forward(self, op, x):
            return self.head(op, self.body(op, x))
    return nn, Leaf, Pair, ListNet, SeqNet


def _trees():
    nn, Leaf, Pair, ListNet, SeqNet = _classes()
    yield "leaf with two parameters", lambda: Leaf(2)
    yield "pair of leaves", lambda: Pair(Leaf(), Leaf(2))
    yield "pair with an own parameter between the children", lambda: Pair(Leaf(), Leaf(), own=True)
    yield "depth 3", lambda: Pair(Pair(Leaf(), Leaf()), Leaf(2), own=True)
    yield "module list (constructor)", lambda: ListNet([Leaf(), Leaf(2), Pair(Leaf(), Leaf())], late=False)
    yield "module list (appended after attaching)", lambda: ListNet([Leaf(), Pair(Leaf(), Leaf(2))], late=True)
    yield "module list of module lists", lambda: ListNet([ListNet([Leaf(), Leaf()], late=False), Leaf()], late=False)
    yield "sequential and a head", lambda: SeqNet([Leaf(), Pair(Leaf(), Leaf()), Leaf(2)])
    yield "pair holding a sequential net", lambda: Pair(SeqNet([Leaf()]), ListNet([Leaf()], late=True), own=True)


def _expected_keys(mod, prefix=""):
    """independent reading of the attribute tree: parameters of a module first (registration order), then its children (registration order)"""
    out = []
    for name, p in mod._parameters.items():
        out.append(((prefix + "." + name) if prefix else name, p))
    for name, child in mod._modules.items():
        out += _expected_keys(child, (prefix + "." + name) if prefix else name)
    return out


def s_nn_tree(_ctx):
    import numpy as np
    import onnx_ir as ir
    from contracts.c17_opsets import Agg
    from onnxscript._internal import builder
    nn = _classes()[0]
    agg = Agg()
    n = 0
    for what, make in _trees():
        n += 1
        root = make()
        exp = _expected_keys(root)
        keys = [k for k, _ in exp]
        np_ = list(root.named_parameters())
        sd = root.state_dict()
        agg.ob("C18.nn.tree.named_parameters_and_state_dict_have_the_same_keys_one_per_parameter",
               [k for k, _ in np_] == keys == list(sd) and len(set(keys)) == len(keys) and all(a is b for (_, a), (_, b) in zip(np_, exp)),
               f"{what}: named_parameters {[k for k, _ in np_]}, state_dict {list(sd)}, attribute paths {keys}", CL, case=what)
        agg.ob("C18.nn.tree.parameters_yields_the_same_parameters_in_the_same_order", [id(p) for p in root.parameters()] == [id(p) for _, p in exp], what, CL, case=what)
        mods = dict(root.named_modules())
        ok = "" in mods and mods[""] is root
        for path, m in mods.items():
            for pname in m._parameters:
                ok = ok and ((path + "." + pname) if path else pname) in sd
        agg.ob("C18.nn.tree.module_paths_prefix_the_keys_of_their_parameters", ok and len(mods) == len(list(root.modules())), f"{what}: {list(mods)}", CL, case=what)
        # tracing: initializer names
        root._set_name("model") if root._name is None else None
        g = ir.Graph([], [], nodes=[], opset_imports={"": 18}, name="g")
        x = ir.Value(name="x", type=ir.TensorType(ir.DataType.FLOAT), shape=ir.Shape([2]))
        g.inputs.append(x)
        gb = builder.GraphBuilder(g)
        try:
            root(gb.op, x)
            names = sorted(g.initializers)
            agg.ob("C18.nn.tree.initializer_names_are_root_name_dot_key", names == sorted("model." + k for k in keys), f"{what}: {names}", CL, case=what)
        except Exception as e:  # noqa: BLE001
            agg.ob("C18.nn.tree.initializer_names_are_root_name_dot_key", False, f"{what}: tracing raises {type(e).__name__}: {e}", CL, case=what)
        # load_state_dict
        fresh = make()
        tens = {k: ir.tensor(np.full((2,), float(i), np.float32), name=k) for i, k in enumerate(keys)}
        fresh.load_state_dict(dict(tens))
        agg.ob("C18.nn.tree.load_state_dict_gives_every_parameter_the_tensor_of_its_own_key",
               all(p.const_value is tens[k] for k, p in fresh.named_parameters()), what, CL, case=what)
        if keys:
            miss = dict(tens)
            miss.pop(keys[-1])
            try:
                make().load_state_dict(miss)
                r1 = "no error"
            except KeyError:
                r1 = "KeyError"
            except Exception as e:  # noqa: BLE001
                r1 = type(e).__name__
            extra = dict(tens, **{"no.such.parameter": tens[keys[0]]})
            try:
                make().load_state_dict(extra)
                r2 = "no error"
            except ValueError:
                r2 = "ValueError"
            except Exception as e:  # noqa: BLE001
                r2 = type(e).__name__
            agg.ob("C18.nn.tree.strict_loading_refuses_missing_and_unexpected_keys", (r1, r2) == ("KeyError", "ValueError"), f"{what}: missing key -> {r1}, unexpected key -> {r2}", CL, case=what)
            lenient = make()
            try:
                lenient.load_state_dict(dict(miss, **{"no.such.parameter": tens[keys[0]]}), strict=False)
                ok3 = all((p.const_value is tens[k]) if k in miss else (p.const_value is None) for k, p in lenient.named_parameters())
            except Exception:  # noqa: BLE001
                ok3 = False
            agg.ob("C18.nn.tree.non_strict_loading_loads_what_is_there", ok3, what, CL, case=what)
    # ModuleList.__getitem__
    Leaf = _classes()[1]
    items = [Leaf() for _ in range(4)]
    ml = nn.ModuleList(items)
    ok = len(ml) == 4 and list(ml) == items
    for i in range(-6, 6):
        try:
            got = ml[i]
        except IndexError:
            got = IndexError
        try:
            want = items[i]
        except IndexError:
            want = IndexError
        ok = ok and got is want
    for sl in (slice(1, 3), slice(None, None, 2), slice(-2, None), slice(3, 1)):
        ok = ok and list(ml[sl]) == items[sl]
    agg.ob("C18.nn.module_list.getitem_agrees_with_list_indexing", ok, "ints in [-6, 6), four slices", CL)
    return {"obligations": agg.obs, "paths": n, "covered": [f"module_trees={n}"], "notes": [], "functions": []}


F = lambda rel, *q: [(rel, x) for x in q]
SCENARIOS = [
    Scenario("C18.nn.module_tree", s_nn_tree,
             F("onnxscript/nn/_module.py", "Module.named_parameters", "Module.parameters", "Module.named_modules", "Module.modules", "Module.state_dict", "Module.load_state_dict",
               "Module._load_state_dict_recursive", "Module.__call__", "Module.__setattr__")
             + F("onnxscript/nn/_module_list.py", "ModuleList.__getitem__", "ModuleList.__len__", "ModuleList.__iter__", "ModuleList.append")
             + F("onnxscript/nn/_parameter.py", "Parameter.__init__", "Parameter._realize"),
             kind="evaluation", trusted=["an independent walk of _parameters / _modules (registration order) as the reference for 'the dotted module path'"]),
]


def s_builder_graph_io(_ctx):
    """GraphBuilder.input / initializer / add_output / subgraph on the REAL builder (finite family): inputs are appended in the order given and an
    input with a default becomes an initializer of ITS graph; initializer() registers the tensor in the ROOT graph under the (module-qualified)
    name — also when called from a subgraph body —; add_output appends in order and renames only when a name is given; a subgraph body sees
    the inputs it declared, in order, and its literals become initializers of the root graph (an inner scope may read outer initializers)."""
    import numpy as np
    import onnx_ir as ir
    from contracts.c17_opsets import Agg
    from onnxscript._internal import builder
    agg = Agg()
    CLB = "C18: 'the traced graph computes what the Python code computes ... all value and node names are unique', initializers in the root graph"
    g = ir.Graph([], [], nodes=[], opset_imports={"": 18}, name="g")
    gb = builder.GraphBuilder(g)
    a = gb.input("a", ir.DataType.FLOAT, [2])
    d = gb.input("d", const_value=ir.tensor(np.array([1.0, 2.0], np.float32), name="d"))
    b = gb.input("b", ir.DataType.INT64, ["N"])
    agg.ob("C18.builder.input.appended_in_order_and_a_default_is_an_initializer_of_its_graph",
           [v.name for v in g.inputs] == ["a", "d", "b"] and list(g.inputs) == [a, d, b] and list(g.initializers) == ["d"] and g.initializers["d"] is d
           and a.dtype == ir.DataType.FLOAT and b.dtype == ir.DataType.INT64 and list(a.shape) == [2], f"inputs {[v.name for v in g.inputs]}, initializers {list(g.initializers)}", CLB)
    w = gb.initializer(ir.tensor(np.array([3.0], np.float32), name="w"))
    gb.push_module("blk", "Block")
    w2 = gb.initializer(ir.tensor(np.array([4.0], np.float32), name="w"))
    w3 = gb.initializer(ir.tensor(np.array([5.0], np.float32), name="raw"), qualify=False)
    gb.pop_module()
    agg.ob("C18.builder.initializer.registered_in_the_root_graph_under_the_qualified_name",
           w.name == "w" and w2.name == "blk.w" and w3.name == "raw" and all(g.initializers.get(v.name) is v for v in (w, w2, w3))
           and float(w2.const_value.numpy()[0]) == 4.0, f"{[w.name, w2.name, w3.name]} in {list(g.initializers)}", CLB)
    seen = {}

    def body(op, x, y):
        seen["inputs"] = (x, y)
        seen["init"] = op.builder.initializer(ir.tensor(np.array([7.0], np.float32), name="inner_w"))
        return op.Add(op.Mul(x, 2.0), y)
    xi = ir.Value(name="x_in", type=ir.TensorType(ir.DataType.FLOAT), shape=ir.Shape([2]))
    yi = ir.Value(name="y_in", type=ir.TensorType(ir.DataType.FLOAT), shape=ir.Shape([2]))
    yo = ir.Value(name="sum", type=ir.TensorType(ir.DataType.FLOAT), shape=ir.Shape([2]))
    sub = gb.subgraph(body, [xi, yi], [yo], name="body")
    lits = [v for v in g.initializers.values() if v.const_value is not None and v.const_value.numpy().tolist() in (2.0, [2.0])]
    agg.ob("C18.builder.subgraph.declared_inputs_in_order_and_literals_in_the_root_graph",
           [v.name for v in sub.inputs] == ["x_in", "y_in"] and seen.get("inputs") == (sub.inputs[0], sub.inputs[1]) and len(sub.outputs) == 1
           and [n.op_type for n in sub] == ["Mul", "Add"] and not list(sub.initializers) and g.initializers.get(seen["init"].name) is seen["init"] and len(lits) == 1,
           f"subgraph inputs {[v.name for v in sub.inputs]}, nodes {[n.op_type for n in sub]}, subgraph initializers {list(sub.initializers)}, root {list(g.initializers)}", CLB)
    agg.ob("C18.builder.subgraph.output_carries_the_declared_name", sub.outputs[0].name == "sum" and sub.outputs[0].producer() is list(sub)[-1], sub.outputs[0].name, CLB)
    o1 = gb.op.Add(a, a)
    n1 = o1.name
    gb.add_output(o1, None)
    o2 = gb.op.Relu(a)
    gb.add_output(o2, "result")
    agg.ob("C18.builder.add_output.appended_in_order_renamed_only_when_a_name_is_given", list(g.outputs) == [o1, o2] and o1.name == n1 and o2.name == "result",
           f"{[v.name for v in g.outputs]}", CLB)
    vals = {id(v): v for v in [v for n in g for v in n.outputs] + [v for n in sub for v in n.outputs] + list(g.inputs) + list(sub.inputs) + list(g.initializers.values())}
    names = [v.name for v in vals.values()]
    nn_ = [n.name for n in g] + [n.name for n in sub]
    agg.ob("C18.builder.names_are_unique_across_the_graph_and_its_subgraph[one subgraph, distinct operators]", len(set(names)) == len(names) and len(set(nn_)) == len(nn_),
           f"values {sorted(x for x in names if names.count(x) > 1)}, nodes {sorted(x for x in nn_ if nn_.count(x) > 1)}", CLB)
    return {"obligations": agg.obs, "paths": 6, "covered": ["builder_io=1"], "notes": [], "functions": []}


SCENARIOS.append(Scenario("C18.builder.graph_io", s_builder_graph_io,
                          F("onnxscript/_internal/builder.py", "GraphBuilder.input", "GraphBuilder.initializer", "GraphBuilder.add_output", "GraphBuilder.subgraph", "build_graph"),
                          kind="evaluation"))


def s_nn_histories(_ctx):
    """Multi-step histories on the REAL nn classes / builder (C18 quantifies over build sequences):
      * slicing an attached ModuleList gives a view: the shared children keep their names, so a later trace still names every initializer
        <root>.<state_dict key>;
      * load_state_dict after the module was traced (parameters realized, their ir names qualified) still addresses parameters by their
        state_dict keys;
      * modules entered inside a subgraph body that itself builds a subgraph (two levels of nesting): the inner module's parameters are
        named by the full module path (model.a.scale.w / model.b.scale.w), one initializer each, in the root graph."""
    import numpy as np
    import onnx_ir as ir
    from contracts.c17_opsets import Agg
    from onnxscript._internal import builder
    nn, Leaf, Pair, ListNet, SeqNet = _classes()
    agg = Agg()

    def trace(root):
        if root._name is None:
            root._set_name("model")
        g = ir.Graph([], [], nodes=[], opset_imports={"": 18}, name="g")
        x = ir.Value(name="x", type=ir.TensorType(ir.DataType.FLOAT), shape=ir.Shape([2]))
        g.inputs.append(x)
        gb = builder.GraphBuilder(g)
        root(gb.op, x)
        return g
    # 1. slice of an attached list
    for sl in (slice(1, None), slice(None, None, 2), slice(0, 2), slice(-1, None)):
        net = ListNet([Leaf(), Leaf(), Leaf(2)], late=False)
        net._set_name("model")
        before = list(net.state_dict())
        view = net.layers[sl]
        items = list(net.layers)[sl]
        ok_view = list(view) == items
        try:
            g = trace(net)
            names = sorted(g.initializers)
        except Exception as e:  # noqa: BLE001
            names = [f"{type(e).__name__}: {e}"]
        agg.ob("C18.nn.module_list.a_slice_is_a_view_children_keep_their_names", ok_view and list(net.state_dict()) == before and names == sorted("model." + k for k in before),
               f"layers[{sl.start}:{sl.stop}:{sl.step}]: state_dict {list(net.state_dict())}, initializers {names}", CL, case=f"[{sl.start}:{sl.stop}:{sl.step}]")
    # 2. load_state_dict after tracing
    net = SeqNet([Leaf(), Pair(Leaf(), Leaf())])
    trace(net)
    keys = list(net.state_dict())
    tens = {k: ir.tensor(np.full((2,), float(i), np.float32), name=k) for i, k in enumerate(keys)}
    try:
        net.load_state_dict(dict(tens))
        ok2 = all(p.const_value is tens[k] for k, p in net.named_parameters())
        why = ""
    except Exception as e:  # noqa: BLE001
        ok2, why = False, f"{type(e).__name__}: {e}"
    lenient = SeqNet([Leaf(), Pair(Leaf(), Leaf())])
    trace(lenient)
    lenient.load_state_dict(dict(tens), strict=False)
    ok2b = all(p.const_value is tens[k] for k, p in lenient.named_parameters())
    agg.ob("C18.nn.load_state_dict.after_tracing_parameters_are_still_addressed_by_their_state_dict_keys", ok2 and ok2b, why or f"strict {ok2}, non-strict {ok2b}", CL)

    # 3. modules inside nested subgraph bodies
    class Block(nn.Module):
        def __init__(self):
            super().__init__()
            self.scale = Leaf()

        def forward(self, op, x):
            inner_in = ir.Value(name="bi", type=ir.TensorType(ir.DataType.FLOAT), shape=ir.Shape([2]))
            inner_out = ir.Value(name="bo", type=ir.TensorType(ir.DataType.FLOAT), shape=ir.Shape([2]))
            body = op.builder.subgraph(lambda op2, v: self.scale(op2, v), [inner_in], [inner_out], name="inner")
            return op.Identity(x), body

    class Model(nn.Module):
        def __init__(self):
            super().__init__("model")
            self.a = Block()
            self.b = Block()

        def forward(self, op, x):
            def outer_body(op1, v):
                y, _ = self.a(op1, v)
                z, _ = self.b(op1, y)
                return z
            oi = ir.Value(name="oi", type=ir.TensorType(ir.DataType.FLOAT), shape=ir.Shape([2]))
            oo = ir.Value(name="oo", type=ir.TensorType(ir.DataType.FLOAT), shape=ir.Shape([2]))
            op.builder.subgraph(outer_body, [oi], [oo], name="outer")
            return x
    try:
        g = trace(Model())
        names = sorted(g.initializers)
        ok3 = names == ["model.a.scale.w", "model.b.scale.w"]
        why3 = str(names)
    except Exception as e:  # noqa: BLE001
        ok3, why3 = False, f"{type(e).__name__}: {e}"
    agg.ob("C18.nn.subgraph.modules_called_in_a_nested_subgraph_body_keep_the_full_module_path", ok3, why3, CL)
    return {"obligations": agg.obs, "paths": 6, "covered": ["histories=3"], "notes": [], "functions": []}


SCENARIOS.append(Scenario("C18.nn.histories", s_nn_histories,
                          F("onnxscript/nn/_module_list.py", "ModuleList.__getitem__", "ModuleList._register_child")
                          + F("onnxscript/nn/_module.py", "Module.load_state_dict", "Module._load_state_dict_recursive", "Module.__call__")
                          + F("onnxscript/_internal/builder.py", "GraphBuilder.subgraph", "build_graph", "GraphBuilder.push_module", "GraphBuilder.pop_module"),
                          kind="evaluation"))
