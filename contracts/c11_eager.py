"""C11 (and C01: eager = graph) — eager twin of the subscript translation: onnxscript/tensor.py :: Tensor.__getitem__."""
from __future__ import annotations

import ast

import z3

from pyvc.harness import Scenario
from pyvc.interp import Interp, PyRaise
from pyvc.values import SObj, SInt, SStr, Opaque, term, Obj
from theories import slicing as S
from .c11_slicing import CL, I64, RankOf, RunVal

# =============================================================================================
# Eager twin: onnxscript/tensor.py :: Tensor.__getitem__
# =============================================================================================

TREL = "onnxscript/tensor.py"


class Rows:
    """np.array(list of [start, end, axis, step] rows): only `.T` and row indexing are used."""

    def __init__(self, rows, transposed=False):
        self.rows = rows
        self.transposed = transposed

    @property
    def T(self):
        return Rows(self.rows, not self.transposed)

    def __getitem__(self, i):
        if self.transposed:
            return [r[i] for r in self.rows]
        return self.rows[i]


def _tval(v):
    """integer term of a row entry: python int, SInt, or a scalar Tensor stand-in"""
    if isinstance(v, SObj) and "ghost_val" in v.fields:
        return v.fields["ghost_val"]
    return term(v)


def s_eager_getitem(ctx, shape=(None,)):
    import numpy as np
    from onnxscript import tensor as tmod
    from onnxscript._internal import autocast
    I = Interp(ctx)
    T = tmod.Tensor
    n = len(shape)
    rank = n + ctx.choose(2, "extra trailing axes")
    dims = [ctx.int(f"d{i}") for i in range(rank)]
    for dv in dims:
        ctx.assume(z3.And(dv >= 0, dv <= S.INT64_MAX))
    calls = []

    def new_tensor(kind, **gh):
        t = SObj(T, "tensor")
        t.fields.update(_opset=opset, ghost_kind=kind, **gh)
        return t
    opset = SObj(object, "opset")

    def f_slice(*a):
        raise AssertionError

    def f_gather(*a, **k):
        raise AssertionError

    def f_identity(a):
        raise AssertionError

    def f_add(a, b):
        raise AssertionError
    I.models[f_slice] = lambda interp, x, st, en, ax, sp: (calls.append(("Slice", x, st, en, ax, sp)) or new_tensor("sliced", ghost_src=x))
    I.models[f_gather] = lambda interp, x, idx, axis=0: (calls.append(("Gather", x, idx, axis)) or new_tensor("gathered", ghost_src=x))
    I.models[f_identity] = lambda interp, x: (calls.append(("Identity", x)) or new_tensor("identity", ghost_src=x))

    def m_add(interp, a, b):
        return new_tensor("scalar", ghost_val=_tval(a) + _tval(b), ghost_scalar=True)
    I.models[f_add] = m_add
    opset.fields.update(version=18, Slice=f_slice, Gather=f_gather, Identity=f_identity, Add=f_add)
    self = new_tensor("self")
    I.models[T.rank.fget] = lambda interp, t: rank if t is self else (0 if t.fields.get("ghost_scalar") else 1)
    I.models[T.shape.fget] = lambda interp, t: tuple(wrap_int(d) for d in dims)
    I.models[T.is_scalar.fget] = lambda interp, t: bool(t.fields.get("ghost_scalar"))
    I.models[T.value.fget] = lambda interp, t: t

    def m_cast(interp, x, dtype=None):
        if isinstance(x, (int, SInt)) and not isinstance(x, bool):
            return new_tensor("scalar", ghost_val=term(x), ghost_scalar=True, ghost_index=x)
        return x
    I.models[autocast.cast_pyvalue_to_os_tensor] = m_cast
    I.models[np.array] = lambda interp, rows, dtype=None: Rows([list(r) for r in rows])
    I.models[T] = lambda interp, arr, opset_=None: new_tensor("from_array", ghost_rows=arr)
    squeezes = []

    def m_squeeze(interp, x, axis=None):
        squeezes.append((x, axis))
        return x
    I.models[np.squeeze] = m_squeeze
    # index components
    comps = []
    kinds = []
    for i, k in enumerate(shape):
        if k == 0:
            def partv(nm):
                if ctx.choose(2, nm + " given") == 0:
                    return None
                v = ctx.int(nm)
                ctx.assume(I64(v))
                ctx.witness[nm] = v
                return SInt(v)
            st = partv(f"step{i}")
            if st is not None:
                ctx.assume(st.t != 0)
            sl = slice(partv(f"start{i}"), partv(f"stop{i}"), st)
            comps.append(sl)
            kinds.append("slice")
        elif k == 1:
            v = ctx.int(f"i{i}")
            ctx.assume(I64(v))
            ctx.witness[f"i{i}"] = v
            comps.append(SInt(v))
            kinds.append("const")
        else:
            t = new_tensor("index", ghost_scalar=False)
            comps.append(t)
            kinds.append("tensor")
    index = comps[0] if (n == 1 and ctx.choose(2, "bare index") == 0) else tuple(comps)
    clo = I.closure_of(T.__getitem__)
    try:
        I.run_closure(clo, [self, index], {})
    except PyRaise as e:
        ctx.cover("eager.refused." + type(e.exc).__name__)
        ctx.check("C11.eager.getitem.refusal_is_an_exception", isinstance(e.exc, Exception), CL)
        return
    full = [isinstance(c, slice) and c.start is None and c.stop is None and c.step is None for c in comps]
    ctx.cover("eager.shape." + "+".join("full" if f else k for k, f in zip(kinds, full)))
    slices = [c for c in calls if c[0] == "Slice"]
    gathers = [c for c in calls if c[0] == "Gather"]
    ctx.check("C11.eager.getitem.at_most_one_slice", len(slices) <= 1, CL)
    covered, squeezed = set(), []
    if slices:
        _, x, st, en, ax, sp = slices[0]
        rows = [t.fields["ghost_rows"] for t in (st, en, ax, sp)]
        okd = len({len(r) for r in rows}) == 1
        ctx.check("C11.eager.getitem.slice_operands_aligned", okd and x is self, CL)
        if not okd:
            return
        for k_ in range(len(rows[0])):
            a = z3.simplify(_tval(rows[2][k_]))
            oka = z3.is_int_value(a) and 0 <= a.as_long() < n and a.as_long() not in covered
            ctx.check("C11.eager.getitem.slice_axis_is_a_component_axis_once", oka, CL)
            if not oka:
                return
            a = a.as_long()
            covered.add(a)
            start, end, step = _tval(rows[0][k_]), _tval(rows[1][k_]), _tval(rows[3][k_])
            d = dims[a]
            if kinds[a] == "slice":
                c = comps[a]
                stv = c.step.t if c.step is not None else z3.IntVal(1)
                lo = c.start.t if c.start is not None else None
                hi = c.stop.t if c.stop is not None else None
                ctx.check("C11.eager.getitem.slice.step_forwarded", step == stv, CL)
                np_f, np_s = S.numpy_norm(d, lo, hi, stv)
                ox_f, ox_s = S.onnx_norm(d, start, end, step)
                region = z3.And(stv < 0, lo < -d) if lo is not None else z3.BoolVal(False)
                pre = z3.Or(d >= 1, stv > 0)
                ctx.check("C11.eager.getitem.slice.same_selection_as_numpy",
                          z3.Implies(z3.And(pre, z3.Not(region)), S.same_selection(np_f, np_s, ox_f, ox_s, stv)), CL)
                if lo is not None:
                    ctx.check("C11.eager.getitem.slice.same_selection_as_numpy.region_negstep_start_below_minus_d",
                              z3.Implies(z3.And(pre, region), S.same_selection(np_f, np_s, ox_f, ox_s, stv)), CL)
            else:
                i_ = comps[a].t
                ox_f, ox_s = S.onnx_norm(d, start, end, step)
                ctx.check("C11.eager.getitem.scalar_as_slice_selects_numpy_element_or_fails",
                          z3.Implies(z3.And(step == 1, S.count_is_one(ox_f, ox_s, step)),
                                     z3.And(i_ >= -d, i_ < d, ox_f == z3.If(i_ < 0, i_ + d, i_))), CL)
                ctx.check("C11.eager.getitem.scalar_slice_step_is_one", step == 1, CL)
                squeezed.append(a)
    if squeezed:
        oks = len(squeezes) == 1 and sorted(squeezes[0][1]) == sorted(squeezed)
        ctx.check("C11.eager.getitem.squeeze_exactly_the_scalar_axes", oks, CL)
    else:
        ctx.check("C11.eager.getitem.no_squeeze_without_scalar_slice", not squeezes, CL)
    expected = [a for a in range(n) if not full[a] and a not in covered]
    ctx.check("C11.eager.getitem.one_gather_per_remaining_component", len(gathers) == len(expected), CL)
    if len(gathers) != len(expected):
        return
    shift = {a: z3.IntVal(-1) for a in squeezed}
    for (_, x, idx, axis) in gathers:
        srcs = [a for a in expected if (idx is comps[a]) or (isinstance(idx, SObj) and idx.fields.get("ghost_index") is comps[a])]
        okg = len(srcs) == 1
        ctx.check("C11.eager.getitem.gather_index_is_the_component", okg, CL)
        if not okg:
            return
        a = srcs[0]
        want = z3.IntVal(a)
        by_tensor = any(b < a and b not in squeezed for b in shift)
        for b, sh in shift.items():
            if b < a:
                want = want + sh
        nm = "C11.eager.getitem.gather_axis_is_the_original_axis" + (".after_tensor_index_on_earlier_axis" if by_tensor else "")
        ctx.check(nm, term(axis) == want, CL)
        if kinds[a] == "const":
            shift[a] = z3.IntVal(-1)
        else:
            r = RankOf(comps[a].ref)
            ctx.assume(r >= 0)
            shift[a] = r - 1
    if not slices and not gathers:
        ctx.check("C11.eager.getitem.no_index_is_identity", all(full) and [c[0] for c in calls] == ["Identity"], CL)
    # NumPy: an integer next to a tensor-valued index is an advanced index too; when the advanced indices are NOT adjacent
    # (a slice stands between them) the dimensions of the tensor index come FIRST in the result.  Slice/Squeeze/Gather
    # leave them in place, i.e. after every sliced axis that precedes the tensor component.
    tens = [a for a in range(n) if kinds[a] == "tensor"]
    if len(tens) == 1 and any(k == "const" for k in kinds):
        a = tens[0]
        adv = [b for b in range(n) if kinds[b] in ("const", "tensor")]
        separated = any(kinds[b] == "slice" for b in range(min(adv), max(adv) + 1))
        if separated:
            slice_before = any(kinds[b] == "slice" for b in range(a))
            r = RankOf(comps[a].ref)
            ctx.check("C11.eager.getitem.tensor_index_dims_lead_the_result_when_an_int_index_is_separated_from_it_by_a_slice",
                      z3.Implies(r >= 1, z3.BoolVal(not slice_before)), CL + " — NumPy puts the dimensions of non-adjacent advanced indices first")


def wrap_int(t):
    from pyvc.values import wrap
    return wrap(t)


def _mk_e(shape):
    def run(ctx):
        return s_eager_getitem(ctx, shape)
    return run


_ESHAPES = [(0,), (1,), (2,), (0, 1), (1, 0), (1, 1), (0, 2), (2, 1), (1, 2), (2, 0), (1, 1, 2), (0, 1, 2), (2, 0, 1), (1, 0, 2)]
_EK = {0: "slice", 1: "int", 2: "tensor"}
SCENARIOS = [
    Scenario("C11.eager.getitem[" + ",".join(_EK[k] for k in shp) + "]", _mk_e(shp), [(TREL, "Tensor.__getitem__")],
             trusted=["ONNX Slice-13/Gather-13 documentation; np.squeeze(axis=...) removes exactly the given axes or fails",
                      "autocast.cast_pyvalue_to_os_tensor: int -> rank-0 INT64 tensor, slices and tensors unchanged (C12)",
                      "numpy array of [start,end,axis,step] rows and its transpose"],
             assumptions=["index tuples of length <= 3 in the driver; all integer values unbounded (int64)"],
             max_paths=6000, budget_s=900)
    for shp in _ESHAPES
]
