"""C05 / C09 — _basic_rules rules checked with the shape theory of contracts/c03_folding.py (T2 broadcasting)."""
from __future__ import annotations

import z3

from pyvc.harness import Scenario
from pyvc.interp import Interp, PyRaise
from pyvc.values import SObj, SInt, Opaque, term, wrap
from .irmodel import World, OpRecorder, Call
from .c03_folding import choose_shape, is_identity_of, CL09, CL04, BOUND, TRUST

SCENARIOS = []


# ------------------------------------------------------------------ rule: ExpandIdentity (_basic_rules) ----

def s_expand_identity_rule(ctx):
    """_basic_rules.ExpandIdentity: Expand(x, shape) -> Identity(x) only if broadcasting x to the constant target
    leaves x's runtime shape unchanged for every binding (a target of higher rank adds leading axes even if all 1)."""
    import onnx_ir as ir
    from onnxscript.rewriter.rules.common import _basic_rules
    I = Interp(ctx)
    W = World(I)
    static, rt = choose_shape(ctx, W, "x")
    x = W.value("x", dims=static, rt=rt, dtype=ir.DataType.FLOAT)
    known = ctx.choose(2, "target shape is a constant") == 0
    n = ctx.choose(4, "length of the target")
    items = []
    for i in range(n):
        t = ctx.int(f"target{i}")
        ctx.witness[f"target{i}"] = t
        items.append(SInt(t))
    overridable = known and ctx.choose(2, "the target initializer is also a graph input") == 1
    s = W.value("shape", dims=[n], rt=[z3.IntVal(n)], dtype=ir.DataType.INT64, const=(W.tensor(items, ir.DataType.INT64) if known else None), initializer=known,
                graph_input=overridable)
    rule = SObj(_basic_rules.ExpandIdentity, "rule")
    try:
        chk = I.call(I.getattr(rule, "check"), [None, x, s])
        fired = I.truth(chk)
    except PyRaise as e:
        ctx.check("C04.rules.ExpandIdentity.check_never_raises", False, CL04)
        return
    if not fired:
        ctx.cover("ExpandIdentity.check_failed")
        return
    ctx.check("C05.rules.ExpandIdentity.does_not_fire_on_an_overridable_initializer", not overridable,
              "C05: 'same outputs for all inputs' / C04: 'initializers that are also graph inputs ... are never folded into constants'")
    if overridable:
        return
    r = I.call(I.getattr(rule, "rewrite"), [OpRecorder(), x, s])
    ctx.check("C05.rules.ExpandIdentity.replacement_is_identity_of_x", is_identity_of(r, x), CL09)
    elems = [it.t for it in items]
    m = max(len(rt), len(elems))
    xs = [z3.IntVal(1)] * (m - len(rt)) + list(rt)
    ts = [z3.IntVal(1)] * (m - len(elems)) + list(elems)
    out = [z3.If(a == 1, b, a) for a, b in zip(xs, ts)]
    same = z3.And(z3.BoolVal(known and static is not None and m == len(rt)), *[o == a for o, a in zip(out, xs)])
    ctx.check("C09.rules.ExpandIdentity.fires_only_if_the_broadcast_shape_is_the_input_shape_for_every_binding", same, CL09)
    ctx.check("C05.rules.ExpandIdentity.same_output_shape_for_every_binding", same,
              "C05: 'the rewritten model yields the same outputs as before for all inputs (same element type, same shape, equal values)'")


SCENARIOS.append(Scenario("C09.rules.ExpandIdentity", s_expand_identity_rule,
                          [("onnxscript/rewriter/rules/common/_basic_rules.py", "ExpandIdentity.check"), ("onnxscript/rewriter/rules/common/_basic_rules.py", "ExpandIdentity.rewrite")],
                          kind="bounded", bound="rank of x <= 2, target length <= 3; " + BOUND, trusted=TRUST, max_paths=20000))
