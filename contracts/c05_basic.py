"""C05 / C09 — _basic_rules rules checked with the shape theory of contracts/c03_folding.py (T2 broadcasting)."""
from __future__ import annotations

import z3

from pyvc.harness import Scenario
from pyvc.interp import Interp, PyRaise
from pyvc.values import SObj, SInt, Opaque, term, wrap
from .irmodel import World, OpRecorder, Call
from .c03_folding import choose_shape, is_identity_of, CL09, CL04, BOUND, TRUST

SCENARIOS = []


# ------------------------------------------------------------------ rule: ExpandIdentity (_basic_rules) ----

def s_expand_identity_rule(ctx):
    """_basic_rules.ExpandIdentity: Expand(x, shape) -> Identity(x) only if broadcasting x to the constant target
    leaves x's runtime shape unchanged for every binding (a target of higher rank adds leading axes even if all 1)."""
    import onnx_ir as ir
    from onnxscript.rewriter.rules.common import _basic_rules
    I = Interp(ctx)
    W = World(I)
    static, rt = choose_shape(ctx, W, "x")
    x = W.value("x", dims=static, rt=rt, dtype=ir.DataType.FLOAT)
    known = ctx.choose(2, "target shape is a constant") == 0
    n = ctx.choose(4, "length of the target")
    items = []
    for i in range(n):
        t = ctx.int(f"target{i}")
        ctx.witness[f"target{i}"] = t
        items.append(SInt(t))
    overridable = known and ctx.choose(2, "the target initializer is also a graph input") == 1
    s = W.value("shape", dims=[n], rt=[z3.IntVal(n)], dtype=ir.DataType.INT64, const=(W.tensor(items, ir.DataType.INT64) if known else None), initializer=known,
                graph_input=overridable)
    rule = SObj(_basic_rules.ExpandIdentity, "rule")
    try:
        chk = I.call(I.getattr(rule, "check"), [None, x, s])
        fired = I.truth(chk)
    except PyRaise as e:
        ctx.check("C04.rules.ExpandIdentity.check_never_raises", False, CL04)
        return
    if not fired:
        ctx.cover("ExpandIdentity.check_failed")
        return
    ctx.check("C05.rules.ExpandIdentity.does_not_fire_on_an_overridable_initializer", not overridable,
              "C05: 'same outputs for all inputs' / C04: 'initializers that are also graph inputs ... are never folded into constants'")
    if overridable:
        return
    r = I.call(I.getattr(rule, "rewrite"), [OpRecorder(), x, s])
    ctx.check("C05.rules.ExpandIdentity.replacement_is_identity_of_x", is_identity_of(r, x), CL09)
    elems = [it.t for it in items]
    m = max(len(rt), len(elems))
    xs = [z3.IntVal(1)] * (m - len(rt)) + list(rt)
    ts = [z3.IntVal(1)] * (m - len(elems)) + list(elems)
    out = [z3.If(a == 1, b, a) for a, b in zip(xs, ts)]
    same = z3.And(z3.BoolVal(known and static is not None and m == len(rt)), *[o == a for o, a in zip(out, xs)])
    ctx.check("C09.rules.ExpandIdentity.fires_only_if_the_broadcast_shape_is_the_input_shape_for_every_binding", same, CL09)
    ctx.check("C05.rules.ExpandIdentity.same_output_shape_for_every_binding", same,
              "C05: 'the rewritten model yields the same outputs as before for all inputs (same element type, same shape, equal values)'")


SCENARIOS.append(Scenario("C09.rules.ExpandIdentity", s_expand_identity_rule,
                          [("onnxscript/rewriter/rules/common/_basic_rules.py", "ExpandIdentity.check"), ("onnxscript/rewriter/rules/common/_basic_rules.py", "ExpandIdentity.rewrite")],
                          kind="bounded", bound="rank of x <= 2, target length <= 3; " + BOUND, trusted=TRUST, max_paths=20000))


def s_scatter_all_static(ctx):
    """_redundant_scatter_nd.ScatterAllStatic: ScatterND(data, indices, updates) -> Identity(updates) only if the scatter
    overwrites every row of data: reduction none, indices = [[0], [1], ..., [d0-1]], updates shaped like data — for
    every binding of symbolic dims; and check() never raises (a symbolic first dim is not an error of the model)."""
    import onnx_ir as ir
    from onnxscript.rewriter.rules.common import _redundant_scatter_nd as mod
    I = Interp(ctx)
    W = World(I)
    d0_kind = ["0", "1", "2", "3", "N", "unknown"][ctx.choose(6, "first dim of data")]
    rest_kind = ["int", "N", "none"][ctx.choose(3, "second dim of data")]

    def mk_shape(tag, first, rest):
        dims, rt = [], []
        if first in ("N", "unknown"):
            s_, t = W.dim(first, tag + "0")
        else:
            s_, t = int(first), z3.IntVal(int(first))
        dims.append(s_)
        rt.append(t)
        if rest != "none":
            s_, t = W.dim(rest, tag + "1") if rest != "int" else (4, z3.IntVal(4))
            dims.append(s_)
            rt.append(t)
        return dims, rt
    ddims, drt = mk_shape("d", d0_kind, rest_kind)
    data = W.value("data", dims=ddims, rt=drt, dtype=ir.DataType.FLOAT)
    same = ctx.choose(2, "updates annotated with the same shape") == 0
    if same:
        udims, urt = list(ddims), list(drt)
    else:
        udims, urt = mk_shape("u", ["1", "2", "N"][ctx.choose(3, "first dim of updates")], rest_kind)
    updates = W.value("updates", dims=udims, rt=urt, dtype=ir.DataType.FLOAT)
    k = ctx.choose(4, "number of index rows")
    rows = []
    for j in range(k):
        t = ctx.int(f"row{j}")
        ctx.witness[f"row{j}"] = t
        rows.append([SInt(t)])
    known = ctx.choose(2, "indices constant") == 0
    tens = SObj(ir.Tensor, "indices_tensor")
    arr = SObj(object, "indices_array")

    def f_tolist():
        raise AssertionError

    def f_numpy():
        raise AssertionError
    I.models[f_tolist] = lambda interp: [list(r) for r in rows]
    I.models[f_numpy] = lambda interp: arr
    arr.fields["tolist"] = f_tolist
    tens.fields["numpy"] = f_numpy
    idx_ovr = known and ctx.choose(2, "indices initializer is also a graph input") == 1
    indices = W.value("indices", dims=[k, 1], rt=[], dtype=ir.DataType.INT64, const=(tens if known else None), initializer=known, graph_input=idx_ovr)
    red = [None, "none", "add", "mul"][ctx.choose(4, "reduction attribute")]
    node = W.node("ScatterND", [data, indices, updates], attrs=({} if red is None else {"reduction": red}))
    I.models[ir.Attr.as_string] = lambda interp, a: a.fields["value"] if isinstance(a, SObj) else a.as_string()
    context = SObj(object, "context")
    context.fields.update(root=node, nodes=[node])
    rule = SObj(mod.ScatterAllStatic, "rule")
    try:
        chk = I.call(I.getattr(rule, "check"), [context, data, indices, updates])
        fired = I.truth(chk)
    except PyRaise as e:
        ctx.check("C04.rules.ScatterAllStatic.check_never_raises", False, CL04 + f" — raised {type(e.exc).__name__}")
        return
    ctx.check("C04.rules.ScatterAllStatic.check_never_raises", True, CL04)
    if not fired:
        ctx.cover("ScatterAllStatic.check_failed")
        return
    ctx.check("C05.rules.ScatterAllStatic.does_not_fire_on_an_overridable_initializer", not idx_ovr,
              "C05 / C04: 'initializers that are also graph inputs ... are never folded into constants'")
    ctx.check("C05.rules.ScatterAllStatic.fires_only_without_a_reduction", red in (None, "none"),
              "C05: 'same outputs ... equal values' — ScatterND with reduction add/mul combines updates WITH data")
    d0 = drt[0]
    cover = z3.And(z3.IntVal(k) == d0, *[r[0].t == j for j, r in enumerate(rows)])
    ctx.check("C09.rules.ScatterAllStatic.indices_cover_every_row_of_data_for_every_binding", cover if known else False, CL09)
    ctx.check("C05.rules.ScatterAllStatic.indices_cover_every_row_of_data_for_every_binding", cover if known else False, CL09)
    shp = z3.And(z3.BoolVal(len(urt) == len(drt)), *[a == b for a, b in zip(urt, drt)])
    ctx.check("C09.rules.ScatterAllStatic.updates_have_the_shape_of_data_for_every_binding", shp, CL09)


def s_scatter_all_dynamic(ctx):
    """ScatterAllDynamic: ScatterND(T, Unsqueeze(Range(0, Gather(Shape(data), axis), 1), [-1]), updates) -> Identity(updates).
    The target pattern is executed from its real source with a recording builder; attributes the pattern does not pin may
    have ANY value in a matched model (NodePattern allows other attributes by default).
    Theory: Shape-15 (start / end are clamped slice bounds, negative values count from the rank), Gather on a 1-D tensor
    (index in [-len, len-1], negative from the end), Range(0, dim, 1) = 0..dim-1, ScatterND with reduction none replaces
    rows 0..dim-1 of T by updates (valid only if dim <= T.shape[0]).  Post: when check() accepts, for every binding of the
    dims on which the original executes, dim == T.shape[0] - only then is the result `updates`."""
    import onnx_ir as ir
    from onnxscript.rewriter.rules.common import _redundant_scatter_nd as mod
    from onnxscript.rewriter import _ir_utils
    I = Interp(ctx)
    W = World(I)
    rule = SObj(mod.ScatterAllDynamic, "rule")
    rec = OpRecorder()
    P = {k: ("var", k) for k in ("data", "axis", "transposed_data", "updates")}
    root = I.call(I.getattr(rule, "pattern"), [rec, P["data"], P["axis"], P["transposed_data"], P["updates"]])
    ok = isinstance(root, Call) and root.op == "ScatterND" and len(root.args) == 3 and root.args[0] == P["transposed_data"] and root.args[2] == P["updates"]
    idx = root.args[1] if ok else None
    ok = ok and isinstance(idx, Call) and idx.op == "Unsqueeze" and list(idx.args[1]) == [-1] and isinstance(idx.args[0], Call) and idx.args[0].op == "Range"
    rng = idx.args[0] if ok else None
    ok = ok and rng.args[0] == 0 and rng.args[2] == 1 and isinstance(rng.args[1], Call) and rng.args[1].op == "Gather"
    gat = rng.args[1] if ok else None
    ok = ok and gat.args[1] == P["axis"] and isinstance(gat.args[0], Call) and gat.args[0].op == "Shape" and gat.args[0].args == (P["data"],)
    ctx.check("C05.rules.ScatterAllDynamic.pattern_is_scatter_of_the_full_range_of_a_gathered_dim_of_data", ok, CL09)
    if not ok:
        return
    shp = gat.args[0]

    def attr(call, name, default, lo=None):
        """pinned by the pattern: that value; otherwise any value a matched node may carry"""
        if name in call.kwargs:
            return call.kwargs[name], True
        return None, False
    red, red_pinned = attr(root, "reduction", "none")
    ctx.check("C05.rules.ScatterAllDynamic.pattern_pins_reduction_none", red_pinned and red == "none",
              "C05: 'attribute left at a non-trivial default ... does not fire' — with a reduction the updates are combined with the data")
    gaxis, gaxis_pinned = attr(gat, "axis", 0)
    ctx.check("C05.rules.ScatterAllDynamic.pattern_pins_gather_axis_0", (gaxis_pinned and gaxis == 0) or not gaxis_pinned, CL09)
    # data / transposed data
    rank = 1 + ctx.choose(3, "rank of data")
    kinds = ["int", "N", "M"]
    dd, drt = [], []
    for i in range(rank):
        s_, t = W.dim(kinds[ctx.choose(3, f"data[{i}]")], f"d{i}")
        dd.append(s_)
        drt.append(t)
    trank = 1 + ctx.choose(2, "rank of transposed data")
    td, trt = [], []
    for i in range(trank):
        k = ctx.choose(4, f"transposed[{i}] is")  # the same static dim as data[j] (j = k) or an unrelated named dim
        if k < rank and k < 3:
            td.append(dd[k])
            trt.append(drt[k])
        else:
            s_, t = W.dim("K", f"t{i}")
            td.append(s_)
            trt.append(t)
    data = W.value("data", dims=dd, rt=drt, dtype=ir.DataType.FLOAT)
    tdata = W.value("transposed_data", dims=td, rt=trt, dtype=ir.DataType.FLOAT)
    axis = ctx.choose(2 * 3 + 1, "axis value") - 3
    axis_v = W.value("axis", dims=[], rt=[], dtype=ir.DataType.INT64)
    I.models[_ir_utils.get_singleton_value] = lambda interp, v, **k: axis
    # the matched Shape node: pinned attributes as the pattern says, the others present or absent with any value
    sattrs, sterm = {}, {}
    for name in ("start", "end"):
        v, pinned = attr(shp, name, None)
        if pinned:
            sattrs[name] = v
            sterm[name] = z3.IntVal(int(v))
        elif ctx.choose(2, f"matched Shape node has {name}") == 1:
            t = ctx.int(f"shape_{name}")
            ctx.witness[f"shape_{name}"] = t
            sattrs[name] = SInt(t)
            sterm[name] = t
    shape_node = W.node("Shape", [data], attrs=sattrs)
    scatter_node = W.node("ScatterND", [tdata, W.value("idx"), W.value("updates")], attrs={"reduction": "none"})
    context = SObj(object, "context")
    context.fields.update(nodes=[scatter_node, W.node("Unsqueeze", []), W.node("Range", []), W.node("Gather", [], attrs={"axis": 0}), shape_node], root=scatter_node)
    try:
        fired = I.truth(I.call(I.getattr(rule, "check"), [context, data, axis_v, tdata]))
    except PyRaise as e:
        ctx.check("C04.rules.ScatterAllDynamic.check_never_raises", False, CL04 + f" — raised {type(e.exc).__name__}: {e.exc}")
        return
    ctx.check("C04.rules.ScatterAllDynamic.check_never_raises", True, CL04)
    if not fired:
        ctx.cover("ScatterAllDynamic.check_failed")
        return
    # runtime meaning of Gather(Shape(data, start, end), axis)
    r = z3.IntVal(rank)

    st, en = sterm.get("start", z3.IntVal(0)), sterm.get("end", r)
    clamp = lambda v: z3.If(v < 0, z3.If(v + r < 0, 0, v + r), z3.If(v > r, r, v))
    st, en = clamp(st), clamp(en)
    ln = z3.If(en > st, en - st, 0)
    a = z3.IntVal(axis)
    valid_gather = z3.And(a >= -ln, a < ln)
    pos = st + z3.If(a < 0, a + ln, a)
    dim = z3.IntVal(0)
    for i in reversed(range(rank)):
        dim = z3.If(pos == i, drt[i], dim)
    original_runs = z3.And(valid_gather, dim <= trt[0])
    for pid in ("C05", "C09"):
        ctx.check(f"{pid}.rules.ScatterAllDynamic.the_gathered_dim_is_the_first_dim_of_the_scattered_tensor_for_every_binding_and_every_unpinned_attribute",
                  z3.Implies(original_runs, dim == trt[0]), CL09)


SCENARIOS.append(Scenario("C05.rules.ScatterAllDynamic", s_scatter_all_dynamic,
                          [("onnxscript/rewriter/rules/common/_redundant_scatter_nd.py", "ScatterAllDynamic.pattern"),
                           ("onnxscript/rewriter/rules/common/_redundant_scatter_nd.py", "ScatterAllDynamic.check"),
                           ("onnxscript/rewriter/_ir_utils.py", "same_dim")],
                          kind="bounded", bound="data rank <= 3, transposed rank <= 2, axis in -3..3; dims and unpinned Shape attributes unbounded",
                          trusted=TRUST + ["ONNX Shape-15 / Gather / Range / ScatterND operator documentation", "NodePattern: attributes not listed in the pattern are unconstrained"], max_paths=40000))


def s_scatter_all_static_concrete(ctx):
    """ScatterAllStatic.check with REAL numpy index arrays (every [k,1] array with k <= 3 and entries in 0..3): whatever numpy
    formulation the check uses, it may accept only indices == [[0], [1], ..., [d0-1]] - any other array (a permutation,
    a repeated row, a different count) does not overwrite data row by row with updates.  bounded stand-in for the
    symbolic scenario above, robust to a rewrite of the comparison in numpy terms."""
    import itertools
    import numpy as np
    import onnx_ir as ir
    from onnxscript.rewriter.rules.common import _redundant_scatter_nd as mod
    I = Interp(ctx)
    W = World(I)
    d0 = 1 + ctx.choose(3, "first dim of data")
    two_d = ctx.choose(2, "data is 2-D") == 1
    ddims = [d0, 4] if two_d else [d0]
    drt = [z3.IntVal(v) for v in ddims]
    data = W.value("data", dims=ddims, rt=drt, dtype=ir.DataType.FLOAT)
    updates = W.value("updates", dims=list(ddims), rt=list(drt), dtype=ir.DataType.FLOAT)
    k = ctx.choose(4, "number of index rows")
    rows = [ctx.choose(4, f"row {j}") for j in range(k)]
    arr = np.array(rows, dtype=np.int64).reshape(k, 1)
    tens = SObj(ir.Tensor, "indices_tensor")

    def f_numpy():
        raise AssertionError
    I.models[f_numpy] = lambda interp: arr
    tens.fields.update(numpy=f_numpy, shape=ir.Shape([k, 1]), dtype=ir.DataType.INT64, size=k)
    indices = W.value("indices", dims=[k, 1], rt=[], dtype=ir.DataType.INT64, const=tens, initializer=True)
    node = W.node("ScatterND", [data, indices, updates])
    context = SObj(object, "context")
    context.fields.update(root=node, nodes=[node])
    rule = SObj(mod.ScatterAllStatic, "rule")
    try:
        fired = I.truth(I.call(I.getattr(rule, "check"), [context, data, indices, updates]))
    except PyRaise as e:
        ctx.check("C05.rules.ScatterAllStatic.check_decides_every_constant_index_array", False, CL09 + f" — raised {type(e.exc).__name__}: {e.exc}")
        return
    ctx.check("C05.rules.ScatterAllStatic.check_decides_every_constant_index_array", True, CL09)
    if fired:
        ctx.check("C05.rules.ScatterAllStatic.fires_only_for_indices_0_to_n_minus_1_in_order", rows == list(range(d0)),
                  "C05: 'same outputs ... equal values' — ScatterND writes updates[j] to row indices[j]: any other index array permutes or drops rows")
    else:
        ctx.cover("ScatterAllStatic.concrete.refused")


SCENARIOS.append(Scenario("C05.rules.ScatterAllStatic[numpy index arrays]", s_scatter_all_static_concrete,
                          [("onnxscript/rewriter/rules/common/_redundant_scatter_nd.py", "ScatterAllStatic.check")],
                          kind="bounded", bound="index arrays [k,1], k <= 3, entries 0..3; data [d0] or [d0,4], d0 in 1..3", trusted=TRUST, max_paths=20000))


SCENARIOS.append(Scenario("C05.rules.ScatterAllStatic", s_scatter_all_static,
                          [("onnxscript/rewriter/rules/common/_redundant_scatter_nd.py", "ScatterAllStatic.check"),
                           ("onnxscript/rewriter/rules/common/_redundant_scatter_nd.py", "ScatterAllStatic.rewrite")],
                          kind="bounded", bound="data of rank 1-2, first dim 0..3 / named / unknown, <= 3 index rows (values symbolic)",
                          trusted=TRUST + ["ONNX ScatterND: output = data with row indices[j] replaced by (or, with a reduction, combined with) updates[j]"], max_paths=40000))


def s_materialize_reshape(ctx):
    """MaterializeReshapeShape: the dynamic shape input is replaced by a constant only if Reshape(data, constant,
    allowzero=1) yields the annotated output shape for every binding: static dims verbatim, at most ONE -1 standing for
    the only symbolic dim — and -1 is inferable (no zero among the other dims: ONNX rejects 0 together with -1 under
    allowzero=1, and 0/0 has no answer)."""
    import onnx_ir as ir
    from onnxscript.rewriter.rules.common import _materialize_reshape_shape as mod
    from onnxscript.rewriter import _ir_utils
    I = Interp(ctx)
    W = World(I)
    static, rt = choose_shape(ctx, W, "out", max_rank=3, kinds=["int", "N", "unknown"])
    data = W.value("data", dims=None, rt=[], dtype=ir.DataType.FLOAT)
    shape_const = ctx.choose(2, "shape input already constant") == 1
    shape_in = W.value("shape", dims=None, rt=[], dtype=ir.DataType.INT64)
    I.models[_ir_utils.get_numpy_value] = lambda interp, v: ("array" if shape_const else None)
    out = W.value("out", dims=static, rt=rt, dtype=ir.DataType.FLOAT)
    context = SObj(object, "context")
    az = ctx.choose(3, "allowzero of the matched Reshape: absent / 0 / 1")
    root = W.node("Reshape", [data, shape_in], outputs=[out], attrs=({} if az == 0 else {"allowzero": az - 1}))
    context.fields.update(output_values=[out], root=root, nodes=[root])
    rule = SObj(mod.MaterializeReshapeShape, "rule")
    try:
        fired = I.truth(I.call(I.getattr(rule, "check"), [context, data, shape_in]))
    except PyRaise as e:
        ctx.check("C04.rules.MaterializeReshapeShape.check_never_raises", False, CL04)
        return
    if not fired:
        ctx.cover("MaterializeReshapeShape.check_failed")
        return
    ctx.check("C09.rules.MaterializeReshapeShape.fires_only_for_a_dynamic_shape_input_and_an_annotated_output", (not shape_const) and static is not None, CL09)
    if shape_const or static is None:
        return
    made = []
    I.models[ir.tensor] = lambda interp, v, dtype=None, **k: (made.append((list(v), dtype)) or ("tensor", len(made)))
    r = I.call(I.getattr(rule, "rewrite"), [OpRecorder(), data, shape_in])
    ok = isinstance(r, Call) and r.op == "Reshape" and r.args[0] is data and isinstance(r.args[1], Call) and r.args[1].op == "Constant" \
        and set(r.kwargs) <= {"allowzero"} and len(made) == 1 and made[0][1] == ir.DataType.INT64
    ctx.check("C05.rules.MaterializeReshapeShape.replacement_is_reshape_of_data_by_a_constant_with_allowzero", ok, CL09)
    if not ok:
        return
    new = made[0][0]
    # the data shape is unknown here, so a 0 in the constant can only mean 'zero' (allowzero=1); what 0 / -1 / allowzero mean against a KNOWN
    # data shape is decided semantically in the scenario C09.rules.MaterializeReshapeShape[data shape known]
    ctx.check("C09.rules.MaterializeReshapeShape.materialized_dims_are_read_literally_allowzero_1",
              r.kwargs.get("allowzero") == 1 or not any(isinstance(d, int) and d == 0 for d in new),
              CL09 + " — the materialised dims are concrete extents: a 0 must mean 'zero', not 'copy the input dim' (allowzero=1)")
    okr = len(new) == len(static)
    ctx.check("C09.rules.MaterializeReshapeShape.constant_has_the_rank_of_the_output", okr, CL09)
    if not okr:
        return
    minus = [i for i, d in enumerate(new) if isinstance(d, int) and d == -1]
    sym = [i for i, d in enumerate(static) if not isinstance(d, (int, SInt))]
    ctx.check("C09.rules.MaterializeReshapeShape.minus_one_stands_for_the_only_symbolic_dim", minus == sym and len(sym) <= 1, CL09)
    for i, d in enumerate(static):
        if isinstance(d, (int, SInt)):
            ctx.check("C09.rules.MaterializeReshapeShape.static_dims_are_copied_verbatim", term(new[i]) == rt[i], CL09)
    if sym:
        others = [rt[i] for i in range(len(rt)) if i not in sym]
        ctx.check("C09.rules.MaterializeReshapeShape.minus_one_is_inferable_no_zero_among_the_other_dims", z3.And(*[o != 0 for o in others]) if others else z3.BoolVal(True),
                  CL09 + " — ONNX Reshape: with allowzero=1 a shape holding both 0 and -1 is invalid")
        ctx.check("C05.rules.MaterializeReshapeShape.rewritten_reshape_is_valid_for_every_binding", z3.And(*[o != 0 for o in others]) if others else z3.BoolVal(True),
                  "C05: 'the rewritten model yields the same outputs as before for all inputs'")


SCENARIOS.append(Scenario("C09.rules.MaterializeReshapeShape", s_materialize_reshape,
                          [("onnxscript/rewriter/rules/common/_materialize_reshape_shape.py", "MaterializeReshapeShape.check"),
                           ("onnxscript/rewriter/rules/common/_materialize_reshape_shape.py", "MaterializeReshapeShape.rewrite")],
                          kind="bounded", bound="output rank <= 3; " + BOUND, trusted=TRUST + ["ONNX Reshape: -1 is inferred from the element count; allowzero=1 forbids 0 together with -1"]))


def s_materialize_reshape_known_data(ctx):
    """MaterializeReshapeShape when the data shape is annotated too: whatever constant and allowzero the rule emits, the rewritten
    Reshape(data, constant, allowzero) must be VALID and give the annotated output extents for every binding of the dims for which the
    original Reshape produced that output (same element count) — ONNX Reshape semantics (0 = copy unless allowzero, -1 = inferred)."""
    import onnx_ir as ir
    from onnxscript.rewriter.rules.common import _materialize_reshape_shape as mod
    from onnxscript.rewriter import _ir_utils
    from .c09_reshape import reshape_semantics, prod
    I = Interp(ctx)
    W = World(I)
    kinds = ["int", "N", "M", "unknown"]
    dstatic, drt = choose_shape(ctx, W, "data", max_rank=2, kinds=kinds, allow_none=False)
    ostatic, ort_ = choose_shape(ctx, W, "out", max_rank=2, kinds=kinds, allow_none=False)
    for t in drt + ort_:
        ctx.assume(z3.Or(*[t == v for v in (0, 1, 2, 3, 7)]))   # the property's own binding set; products of dims are nonlinear
    data = W.value("data", dims=dstatic, rt=drt, dtype=ir.DataType.FLOAT)
    shape_in = W.value("shape", dims=None, rt=[], dtype=ir.DataType.INT64)
    I.models[_ir_utils.get_numpy_value] = lambda interp, v: None
    out = W.value("out", dims=ostatic, rt=ort_, dtype=ir.DataType.FLOAT)
    context = SObj(object, "context")
    az0 = ctx.choose(2, "allowzero of the matched Reshape: absent / 1")
    root = W.node("Reshape", [data, shape_in], outputs=[out], attrs=({} if az0 == 0 else {"allowzero": 1}))
    context.fields.update(output_values=[out], root=root, nodes=[root])
    rule = SObj(mod.MaterializeReshapeShape, "rule")
    try:
        fired = I.truth(I.call(I.getattr(rule, "check"), [context, data, shape_in]))
    except PyRaise as e:
        ctx.check("C04.rules.MaterializeReshapeShape.check_never_raises", False, CL04)
        return
    if not fired:
        ctx.cover("MaterializeReshapeShape.known_data.check_failed")
        return
    made = []
    I.models[ir.tensor] = lambda interp, v, dtype=None, **k: (made.append((list(v), dtype)) or ("tensor", len(made)))
    r = I.call(I.getattr(rule, "rewrite"), [OpRecorder(), data, shape_in])
    az = r.kwargs.get("allowzero") if isinstance(r, Call) else None
    az = 0 if az is None else az          # an attribute passed as None is absent: ONNX default allowzero = 0
    ok = isinstance(r, Call) and r.op == "Reshape" and r.args[0] is data and isinstance(r.args[1], Call) and r.args[1].op == "Constant" \
        and set(r.kwargs) <= {"allowzero"} and az in (0, 1) and len(made) == 1
    ctx.check("C09.rules.MaterializeReshapeShape.replacement_is_reshape_of_data_by_a_constant", ok, CL09)
    if not ok:
        return
    ctx.cover("MaterializeReshapeShape.known_data.fired")
    target = [term(d) for d in made[0][0]]
    valid, outs, _q = reshape_semantics(target, drt, bool(az))
    same_count = prod(drt) == prod(ort_)      # the original Reshape produced the annotated output from this data
    ctx.check("C09.rules.MaterializeReshapeShape.rewritten_reshape_is_valid_for_every_binding_the_original_accepts", z3.Implies(same_count, valid),
              CL09 + " / 'The optimized model accepts exactly the inputs the original accepted'")
    ctx.check("C09.rules.MaterializeReshapeShape.rewritten_reshape_gives_the_annotated_output_shape_for_every_binding",
              z3.Implies(z3.And(same_count, valid), z3.And(len(outs) == len(ort_), *[a == b for a, b in zip(outs, ort_)])), CL09)


SCENARIOS.append(Scenario("C09.rules.MaterializeReshapeShape[data shape known]", s_materialize_reshape_known_data,
                          [("onnxscript/rewriter/rules/common/_materialize_reshape_shape.py", "MaterializeReshapeShape.check"),
                           ("onnxscript/rewriter/rules/common/_materialize_reshape_shape.py", "MaterializeReshapeShape.rewrite")],
                          kind="bounded", bound="data and output rank <= 2; each dim static int / named N / named M / unknown; every dim bound to {0,1,2,3,7}",
                          trusted=TRUST + ["ONNX Reshape: 0 copies the input dim unless allowzero=1; -1 is inferred from the element count; allowzero=1 forbids 0 together with -1"],
                          max_paths=20000))


def s_slices_split(ctx):
    """SlicesSplit: Slice(x, b0, e0, axes), Slice(x, b1, e1, axes) -> Split(x, num_outputs=2, axis=-1) only if, for the static extent d of
    the last axis, the two slices select exactly the two chunks Split-18 produces for num_outputs=2: [0, ceil(d/2)) and [ceil(d/2), d)
    (ONNX Split: 'if the tensor is not evenly splittable the last chunk will be smaller'); every operand a non-overridable constant."""
    import onnx_ir as ir
    from onnxscript.rewriter.rules.common import _basic_rules as mod
    from theories import slicing as T
    I = Interp(ctx)
    W = World(I)
    static, rt = choose_shape(ctx, W, "x", max_rank=2, kinds=["int", "N", "unknown"])
    if static is not None and len(static) == 0:
        return     # Slice along an axis needs rank >= 1: a rank-0 x is not a valid model
    x = W.value("x", dims=static, rt=rt, dtype=ir.DataType.FLOAT)
    vals = {}

    tags = ["begin0", "end0", "begin1", "end1", "axes0", "axes1"]
    not_const = ([None] + tags)[ctx.choose(7, "one operand is not a constant")]
    overridable = ([None] + tags)[ctx.choose(7, "one operand is an initializer that is also a graph input")]

    def operand(tag, choices=None):
        known = tag != not_const
        items = []
        if choices is not None:
            items = list(choices[ctx.choose(len(choices), f"{tag}")])
        else:
            t = ctx.int(f"{tag}0")
            ctx.witness[f"{tag}0"] = t
            items.append(SInt(t))
        n = len(items)
        ovr = known and tag == overridable
        vals[tag] = (known, items, ovr)
        v = W.value(tag, dims=[n], rt=[], dtype=ir.DataType.INT64, const=(W.tensor(items, ir.DataType.INT64) if known else None), initializer=known,
                    graph_input=ovr or not known)
        from .c05_rules import with_producer
        with_producer(I, v, None)     # initializers and graph inputs have no producer node
        return v
    b0, e0, b1, e1 = operand("begin0"), operand("end0"), operand("begin1"), operand("end1")
    AX = [[-1], [0], [1], [0, 1]]
    a0, a1 = operand("axes0", AX), operand("axes1", AX)
    rule = SObj(mod.SlicesSplit, "rule")
    args = [x, b0, e0, a0, b1, e1, a1]
    try:
        fired = I.truth(I.call(I.getattr(rule, "check"), [None] + args))
    except PyRaise as e:
        ctx.note(f"SlicesSplit.check raises {e.exc!r}") if hasattr(ctx, "note") else None
        ctx.check("C04.rules.SlicesSplit.check_never_raises", False, CL04)
        return
    if not fired:
        ctx.cover("SlicesSplit.check_failed")
        return
    ctx.cover("SlicesSplit.fired")
    ok = all(v[0] for v in vals.values()) and static is not None and len(static) >= 1
    ctx.check("C05.rules.SlicesSplit.fires_only_for_constant_operands_and_a_known_rank", ok, CL09)
    ctx.check("C05.rules.SlicesSplit.does_not_fire_on_an_overridable_initializer", not any(v[2] for v in vals.values()),
              "C05 / C04: 'initializers that are also graph inputs ... are never folded into constants'")
    if not ok:
        return
    rank = len(static)
    ax0, ax1 = vals["axes0"][1], vals["axes1"][1]
    okax = len(ax0) == 1 and len(ax1) == 1 and ax0[0] in (-1, rank - 1) and ax1[0] in (-1, rank - 1)
    ctx.check("C05.rules.SlicesSplit.both_slices_are_along_the_last_axis_only", okax, CL09)
    last = static[-1]
    okd = isinstance(last, (int, SInt))
    ctx.check("C05.rules.SlicesSplit.fires_only_for_a_static_last_extent", okd, CL09)
    if not (okax and okd):
        return
    d = rt[-1]
    tb0, te0, tb1, te1 = (term(vals[k][1][0]) for k in ("begin0", "end0", "begin1", "end1"))
    s0, f0 = T.onnx_norm(d, tb0, te0, z3.IntVal(1))
    s1, f1 = T.onnx_norm(d, tb1, te1, z3.IntVal(1))
    half = (d + 1) / 2     # ceil(d / 2) for d >= 0 (z3 integer division)

    def same_range(a1_, b1_, a2_, b2_):
        return z3.Or(z3.And(a1_ >= b1_, a2_ >= b2_), z3.And(a1_ < b1_, a2_ < b2_, a1_ == a2_, b1_ == b2_))
    clause = "C05: 'the rewritten model yields the same outputs' - ONNX Slice clamping vs Split-18 with num_outputs (equal chunks, the last one smaller)"
    ctx.check("C05.rules.SlicesSplit.first_slice_is_the_first_chunk_of_split", same_range(s0, f0, z3.IntVal(0), half), clause)
    ctx.check("C05.rules.SlicesSplit.second_slice_is_the_second_chunk_of_split", same_range(s1, f1, half, d), clause)
    r = I.call(I.getattr(rule, "rewrite"), [OpRecorder()] + args)
    okr = isinstance(r, tuple) and len(r) == 2 and all(o.call is r[0].call and o.index == i for i, o in enumerate(r)) and r[0].call.op == "Split" \
        and r[0].call.args[0] is x and all(a is None for a in r[0].call.args[1:]) and r[0].call.kwargs.get("num_outputs") == 2 \
        and r[0].call.kwargs.get("axis") in (-1, rank - 1)
    ctx.check("C05.rules.SlicesSplit.replacement_is_split_of_x_into_two_along_the_last_axis_outputs_in_order", okr, CL09)


SCENARIOS.append(Scenario("C05.rules.SlicesSplit", s_slices_split,
                          [("onnxscript/rewriter/rules/common/_basic_rules.py", "SlicesSplit.check"), ("onnxscript/rewriter/rules/common/_basic_rules.py", "SlicesSplit.rewrite")],
                          kind="bounded", bound="x of rank <= 2; each dim static int (symbolic) / named / unknown; begin / end values unbounded; axes [-1] / [0] / [1] / [0,1]; at most one operand not constant and at most one overridable",
                          trusted=TRUST + ["ONNX Slice-13 clamping; Split-18 with num_outputs: chunks of ceil(d/n), the last one smaller"], max_paths=60000))


def s_collapse_slice(ctx):
    """_collapse_slices._check_if_redundant_slice: Slice(data, starts, ends, axes, steps) -> Identity(data) only if the
    slice selects the whole axis for every binding: single axis, step 1, start 0, and end >= the (static) extent or
    end = INT64_MAX.  ONNX Slice clamping from theories/slicing.py."""
    import onnx_ir as ir
    from onnxscript.rewriter.rules.common import _collapse_slices as mod
    from theories import slicing as T
    I = Interp(ctx)
    W = World(I)
    static, rt = choose_shape(ctx, W, "data", max_rank=2, kinds=["int", "N", "unknown"])
    data = W.value("data", dims=static, rt=rt, dtype=ir.DataType.FLOAT)
    vals = {}

    def operand(tag, fixed=None):
        known = ctx.choose(2, f"{tag} constant") == 0
        n = 1 + ctx.choose(2, f"{tag} has two elements")
        items = []
        for i in range(n):
            if fixed is not None:
                items.append(fixed)
            else:
                t = ctx.int(f"{tag}{i}")
                ctx.witness[f"{tag}{i}"] = t
                items.append(SInt(t))
        ovr = known and tag == "end" and ctx.choose(2, "the ends operand is an initializer that is also a graph input") == 1
        vals[tag] = (known, items, ovr)
        return W.value(tag, dims=[n], rt=[], dtype=ir.DataType.INT64, const=(W.tensor(items, ir.DataType.INT64) if known else None), initializer=known,
                       graph_input=ovr)
    starts, ends, steps = operand("start"), operand("end"), operand("step")
    axis = [-2, -1, 0, 1][ctx.choose(4, "axis")]
    axes = operand("axis", fixed=axis)
    try:
        r = I.run_closure(I.closure_of(mod._check_if_redundant_slice), [None, data, starts, ends, axes, steps], {})
        fired = I.truth(r)
    except PyRaise as e:
        rank = len(rt)
        ctx.check("C04.rules.collapse_slice.check_raises_only_for_an_axis_outside_the_annotated_rank", static is not None and not (-rank <= axis < rank), CL04)
        return
    if not fired:
        ctx.cover("collapse_slice.check_failed")
        return
    ok = all(vals[k][0] and len(vals[k][1]) == 1 for k in ("start", "end", "step", "axis"))
    ctx.check("C05.rules.collapse_slice.fires_only_for_constant_single_axis_slices", ok, CL09)
    ctx.check("C05.rules.collapse_slice.does_not_fire_on_an_overridable_initializer", not any(v[2] for v in vals.values()),
              "C05 / C04: 'initializers that are also graph inputs ... are never folded into constants'")
    if not ok:
        return
    s, e, st = (term(vals[k][1][0]) for k in ("start", "end", "step"))
    ctx.check("C05.rules.collapse_slice.fires_only_for_start_0_and_step_1", z3.And(s == 0, st == 1), CL09)
    rank = len(rt)
    if static is None:
        # rank unknown to the rule: the runtime extent of the sliced axis is arbitrary
        d = ctx.int("extent")
        ctx.assume(d >= 0)
    else:
        if not (-rank <= axis < rank):
            ctx.cover("collapse_slice: axis outside the rank (not a valid model)")
            return
        d = rt[axis]
    ctx.assume(d <= T.INT64_MAX)   # a tensor extent is an int64
    first, stop = T.onnx_norm(d, s, e, st)
    whole = z3.Or(d == 0, z3.And(st == 1, first == 0, stop == d))
    ctx.check("C09.rules.collapse_slice.selects_the_whole_axis_for_every_binding", whole, CL09)
    ctx.check("C05.rules.collapse_slice.selects_the_whole_axis_for_every_binding", whole, CL09)


SCENARIOS.append(Scenario("C09.rules.collapse_slice", s_collapse_slice,
                          [("onnxscript/rewriter/rules/common/_collapse_slices.py", "_check_if_redundant_slice")], kind="bounded",
                          bound="data rank <= 2, starts/ends/axes/steps with 1-2 elements, axis in -2..1; start/end/step values unbounded", trusted=TRUST, max_paths=40000))


def s_unsqueeze_unsqueeze(ctx):
    """UnsqueezeUnsqueeze: Unsqueeze(Unsqueeze(x, [v1]), [v2]) -> Unsqueeze(x, axes).  Theory (ONNX Unsqueeze: the axes are
    positions in the OUTPUT): after both steps the new axes sit at v2 and at v1 (if v1 < v2) or v1 + 1 (the second
    insertion at or before it shifts it); the fused axes must be exactly that set, for all v1, v2 >= 0."""
    import onnx_ir as ir
    from onnxscript.rewriter.rules.common import _basic_rules
    I = Interp(ctx)
    W = World(I)
    x = W.value("x", dims=None, rt=[], dtype=ir.DataType.FLOAT)
    v1, v2 = ctx.int("v1"), ctx.int("v2")
    ctx.witness["v1"], ctx.witness["v2"] = v1, v2

    def axes_value(tag, t):
        kind = ["const 1-d", "const 0-d", "two elements", "unknown"][ctx.choose(4, f"{tag} is")]
        items = [SInt(t)] if kind != "two elements" else [SInt(t), SInt(t)]
        const = None if kind == "unknown" else W.tensor(items, ir.DataType.INT64, ndim=(0 if kind == "const 0-d" else 1))
        ovr = const is not None and tag == "axes2" and ctx.choose(2, "axes2 initializer is also a graph input") == 1
        v = W.value(tag, dims=None, rt=[], dtype=ir.DataType.INT64, const=const, initializer=const is not None, graph_input=ovr)
        v.ovr = ovr
        from .c05_rules import with_producer
        with_producer(I, v, None)
        return v, kind
    a1, k1 = axes_value("axes1", v1)
    a2, k2 = axes_value("axes2", v2)
    rule = SObj(_basic_rules.UnsqueezeUnsqueeze, "rule")
    fired = I.truth(I.call(I.getattr(rule, "check"), [None, x, a1, a2]))
    if not fired:
        ctx.cover("UnsqueezeUnsqueeze.check_failed")
        return
    ctx.check("C05.rules.UnsqueezeUnsqueeze.does_not_fire_on_an_overridable_initializer", not (a1.ovr or a2.ovr),
              "C05 / C04: 'initializers that are also graph inputs ... are never folded into constants'")
    ctx.check("C05.rules.UnsqueezeUnsqueeze.fires_only_for_known_single_nonnegative_axes",
              z3.And(z3.BoolVal(k1 in ("const 1-d", "const 0-d") and k2 in ("const 1-d", "const 0-d")), v1 >= 0, v2 >= 0), CL09)
    made = []
    I.models[ir.tensor] = lambda interp, v, dtype=None, **k: (made.append((list(v), dtype)) or ("tensor", len(made)))
    r = I.call(I.getattr(rule, "rewrite"), [OpRecorder(), x, a1, a2])
    ok = isinstance(r, Call) and r.op == "Unsqueeze" and r.args[0] is x and len(made) == 1 and len(made[0][0]) == 2 and made[0][1] == ir.DataType.INT64
    ctx.check("C05.rules.UnsqueezeUnsqueeze.replacement_is_one_unsqueeze_of_x_with_two_axes", ok, CL09)
    if not ok:
        return
    p, q = term(made[0][0][0]), term(made[0][0][1])
    first_final = z3.If(v1 < v2, v1, v1 + 1)
    same_set = z3.Or(z3.And(p == v2, q == first_final), z3.And(p == first_final, q == v2))
    ctx.check("C05.rules.UnsqueezeUnsqueeze.fused_axes_are_the_final_positions_of_both_new_axes", z3.And(same_set, p != q), CL09)


SCENARIOS.append(Scenario("C05.rules.UnsqueezeUnsqueeze", s_unsqueeze_unsqueeze,
                          [("onnxscript/rewriter/rules/common/_basic_rules.py", "UnsqueezeUnsqueeze.check"), ("onnxscript/rewriter/rules/common/_basic_rules.py", "UnsqueezeUnsqueeze.rewrite"),
                           ("onnxscript/rewriter/_ir_utils.py", "get_singleton_value"), ("onnxscript/rewriter/_ir_utils.py", "get_numpy_value")],
                          trusted=["ONNX Unsqueeze: axes are positions in the output tensor"]))


def s_hardswish_from_hardsigmoid(ctx):
    """HardSwishFusionFromHardSigmoid: Mul(HardSigmoid<alpha, beta>(x), x) -> HardSwish(x).
    T: HardSigmoid(x; a, b) = max(0, min(1, a*x + b)) with ONNX defaults a = 0.2, b = 0.5; HardSwish(x) = x * HardSigmoid(x; 1/6, 1/2).
    A missing attribute stands for its ONNX default; the two sides agree for every x iff a = 1/6 and b = 1/2."""
    import numpy as np
    import onnx_ir as ir
    from onnxscript.rewriter.rules.common import _fuse_hardswish as mod
    from pyvc.values import SReal, SBool
    I = Interp(ctx)
    W = World(I)
    x = W.value("x", dims=None, rt=[], dtype=ir.DataType.FLOAT)
    attrs = {}
    has_a = ctx.choose(2, "alpha attribute present") == 0
    has_b = ctx.choose(2, "beta attribute present") == 0
    a = ctx.const("alpha", z3.RealSort())
    b = ctx.const("beta", z3.RealSort())
    ctx.witness["alpha"], ctx.witness["beta"] = a, b
    if has_a:
        attrs["alpha"] = SReal(a)
    if has_b:
        attrs["beta"] = SReal(b)
    node = W.node("HardSigmoid", [x], attrs=attrs)
    out = node.fields["outputs"][0]
    from .c05_rules import with_producer
    with_producer(I, out, node)

    def m_isclose(interp, p, q, rtol=1e-05, atol=1e-08, **k):
        pt = p.t if isinstance(p, SReal) else z3.RealVal(repr(float(p)))
        qt = q.t if isinstance(q, SReal) else z3.RealVal(repr(float(q)))
        ab = lambda t: z3.If(t >= 0, t, -t)
        return SBool(ab(pt - qt) <= z3.RealVal(repr(atol)) + z3.RealVal(repr(rtol)) * ab(qt))
    I.models[np.isclose] = m_isclose
    rule = SObj(mod.HardSwishFusionFromHardSigmoid, "rule")
    fired = I.truth(I.call(I.getattr(rule, "check"), [None, x, out]))
    if not fired:
        ctx.cover("HardSwishFromHardSigmoid.check_failed")
        return
    r = I.call(I.getattr(rule, "rewrite"), [OpRecorder(), x, out])
    ctx.check("C05.rules.HardSwishFusionFromHardSigmoid.replacement_is_hardswish_of_x", isinstance(r, Call) and r.op == "HardSwish" and r.args == (x,) and not r.kwargs, CL09)
    ctx.check("C05.rules.HardSwishFusionFromHardSigmoid.a_missing_alpha_stands_for_the_operator_default_0_2_and_is_not_fused", has_a,
              "C05: 'same outputs' — HardSigmoid without an alpha attribute computes with alpha = 0.2, not 1/6")
    ea = a if has_a else z3.RealVal("0.2")
    eb = b if has_b else z3.RealVal("0.5")
    # agreement for every x  <=>  a = 1/6 and b = 1/2 (x = 1 and x = -1 are inside the linear region of both)
    # alpha is a float32 attribute: "1/6" means the float32 nearest to 1/6 (half an ulp = 2**-27 away at most)
    half_ulp = z3.Q(1, 2 ** 27)
    ctx.check("C05.rules.HardSwishFusionFromHardSigmoid.fires_only_for_alpha_the_float32_of_one_sixth_and_beta_one_half",
              z3.And(ea - z3.Q(1, 6) <= half_ulp, z3.Q(1, 6) - ea <= half_ulp, eb * 2 == 1),
              "C05: 'A rule whose algebraic side-condition cannot be established from the model itself ... value only approximately equal ... does not fire'")


SCENARIOS.append(Scenario("C05.rules.HardSwishFusionFromHardSigmoid", s_hardswish_from_hardsigmoid,
                          [("onnxscript/rewriter/rules/common/_fuse_hardswish.py", "HardSwishFusionFromHardSigmoid.check"),
                           ("onnxscript/rewriter/rules/common/_fuse_hardswish.py", "HardSwishFusionFromHardSigmoid.rewrite")],
                          trusted=["ONNX HardSigmoid / HardSwish definitions and attribute defaults", "numpy.isclose(a, b) = |a - b| <= atol + rtol*|b|"],
                          assumptions=["floats treated as reals"]))


def s_remove_optional_bias(ctx, which):
    """_remove_optional_bias: Op(x, w, ..., b) -> Op(x, w, ...) only if EVERY element of the constant bias is zero (generic
    element e of the bias: `(bias == 0).all()` must imply e == 0); the replacement keeps all other operands in order and
    all attributes; a bias that is a graph input (overridable default) is not a constant."""
    import numpy as np
    import onnx_ir as ir
    from onnxscript.rewriter.rules.common import _remove_optional_bias as mod
    from pyvc.values import SReal, SBool
    I = Interp(ctx)
    W = World(I)
    cls = getattr(mod, which)
    rule = SObj(cls, "rule")
    n_in = {"RemoveOptionalBiasFromQLinearConv": 9}.get(which, 3)
    ins = [W.value(f"in{i}", dims=None, rt=[], dtype=ir.DataType.FLOAT) for i in range(n_in - 1)]
    e = ctx.const("bias_element", z3.RealSort())
    ctx.witness["bias_element"] = e
    known = ctx.choose(2, "bias constant") == 0
    overridable = known and ctx.choose(2, "bias is also a graph input") == 1
    t = SObj(ir.Tensor, "bias_tensor")

    class BoolArr:
        def __init__(self, generic):
            self.generic = generic

        def all(self):
            allz = ctx.bool("all_elements_satisfy")
            ctx.assume(z3.Implies(allz, self.generic))   # the generic element is one of the elements
            return SBool(allz)

        def any(self):
            anyz = ctx.bool("some_element_satisfies")
            ctx.assume(z3.Implies(self.generic, anyz))
            return SBool(anyz)
    BoolArr.all._pyvc_native = True
    BoolArr.any._pyvc_native = True

    class Arr:
        pass
    arr = Arr()

    def numpy_():
        raise AssertionError
    I.models[numpy_] = lambda interp: arr
    t.fields["numpy"] = numpy_
    I.models[np.equal] = lambda interp, a_, v: BoolArr(e == z3.RealVal(repr(float(v)))) if a_ is arr else (_ for _ in ()).throw(AssertionError("np.equal on something else"))
    b = W.value("b", dims=None, rt=[], dtype=ir.DataType.FLOAT, const=(t if known else None), initializer=known, graph_input=overridable)
    I.models[ir.convenience.get_const_tensor] = lambda interp, v: v.fields.get("const_value")
    attrs = {"group": 2}
    node = W.node(cls.op_type, ins + [b], attrs=attrs)
    out = node.fields["outputs"][0]
    from .c05_rules import with_producer, OpRec
    with_producer(I, out, node)
    fired = I.truth(I.call(I.getattr(rule, "check"), [None], {"b": b}))
    if not fired:
        ctx.cover(f"{which}.check_failed")
        return
    ctx.check(f"C05.rules.{which}.fires_only_for_a_constant_bias", known, CL09)
    ctx.check(f"C05.rules.{which}.fires_only_if_every_bias_element_is_zero", e == 0, CL09 + " — the optional bias defaults to zero")
    ctx.check(f"C05.rules.{which}.does_not_fire_on_an_overridable_initializer", not overridable,
              "C05 / C04: 'initializers that are also graph inputs ... are never folded into constants'")
    r = I.call(I.getattr(rule, "rewrite"), [OpRec()], {"out": out})
    ctx.check(f"C05.rules.{which}.replacement_is_the_same_operator_without_the_bias", isinstance(r, Call) and r.op == cls.op_type and list(r.args) == ins and
              set(r.kwargs) == set(attrs) and r.kwargs["group"] is node.fields["attributes"]["group"], CL09)


for _w in ("RemoveOptionalBiasFromConv", "RemoveOptionalBiasFromConvTranspose", "RemoveOptionalBiasFromQLinearConv", "RemoveOptionalBiasFromGemm"):
    SCENARIOS.append(Scenario(f"C05.rules.remove_optional_bias.{_w}", (lambda w: lambda ctx: s_remove_optional_bias(ctx, w))(_w),
                              [("onnxscript/rewriter/rules/common/_remove_optional_bias.py", "_RemoveOptionalBias.check"),
                               ("onnxscript/rewriter/rules/common/_remove_optional_bias.py", "_RemoveOptionalBias.rewrite")],
                              trusted=["ONNX Conv / ConvTranspose / QLinearConv / Gemm: an omitted bias is zero", "numpy: (a == 0).all() implies every element is 0"],
                              assumptions=["floats treated as reals"]))


def s_transpose_identity(ctx):
    """TransposeIdentity: Transpose(x, perm) -> Identity(x) fires only for a perm attribute that is present, not a reference,
    of type INTS and equal to (0, 1, ..., n-1)."""
    import onnx_ir as ir
    from onnxscript.rewriter.rules.common import _basic_rules
    from pyvc.values import SBool
    I = Interp(ctx)
    W = World(I)
    x = W.value("x", dims=None, rt=[], dtype=ir.DataType.FLOAT)
    n = ctx.choose(4, "length of perm")
    items = []
    for i in range(n):
        t = ctx.int(f"perm{i}")
        ctx.witness[f"perm{i}"] = t
        items.append(SInt(t))
    is_ref = ctx.choose(2, "perm is a reference attribute") == 1
    typ = [ir.AttributeType.INTS, ir.AttributeType.INT, ir.AttributeType.TENSOR][ctx.choose(3, "type of perm")]
    perm = SObj(ir.Attr, "perm")

    def f_is_ref():
        raise AssertionError

    def f_as_ints():
        raise AssertionError
    I.models[f_is_ref] = lambda interp: is_ref
    I.models[f_as_ints] = lambda interp: list(items)
    perm.fields.update(name="perm", type=typ, value=(None if is_ref else list(items)), is_ref=f_is_ref, as_ints=f_as_ints)
    rule = SObj(_basic_rules.TransposeIdentity, "rule")
    try:
        fired = I.truth(I.call(I.getattr(rule, "check"), [None, x, perm]))
    except PyRaise as e:
        ctx.check("C04.rules.TransposeIdentity.check_never_raises", False, CL04 + f" — raised {e.exc!r}")
        return
    ctx.check("C04.rules.TransposeIdentity.check_never_raises", True, CL04)
    if not fired:
        ctx.cover("TransposeIdentity.check_failed")
        return
    ctx.check("C05.rules.TransposeIdentity.fires_only_for_a_known_identity_permutation",
              z3.And(z3.BoolVal(not is_ref and typ == ir.AttributeType.INTS), *[it.t == i for i, it in enumerate(items)]),
              "C05: 'A rule whose algebraic side-condition cannot be established from the model itself ... does not fire'")
    r = I.call(I.getattr(rule, "rewrite"), [OpRecorder(), x, perm])
    ctx.check("C05.rules.TransposeIdentity.replacement_is_identity_of_x", isinstance(r, Call) and r.op == "Identity" and r.args == (x,) and not r.kwargs, CL09)


SCENARIOS.append(Scenario("C05.rules.TransposeIdentity", s_transpose_identity,
                          [("onnxscript/rewriter/rules/common/_basic_rules.py", "TransposeIdentity.check"), ("onnxscript/rewriter/rules/common/_basic_rules.py", "TransposeIdentity.rewrite")],
                          kind="bounded", bound="perm of length <= 3, entries unbounded", trusted=["ONNX Transpose: output axis i is input axis perm[i]"]))


def s_squeeze_reshape(ctx):
    """SqueezeReshape: Reshape(Squeeze(x), [-1]) -> Identity(x) fires only if x is KNOWN to have rank 1 (then Squeeze drops
    the axis iff its extent is 1 and Reshape([-1]) restores a 1-D tensor with the same elements: d elements for every d >= 0)."""
    import onnx_ir as ir
    from onnxscript.rewriter.rules.common import _basic_rules
    I = Interp(ctx)
    W = World(I)
    static, rt = choose_shape(ctx, W, "x", max_rank=3, kinds=["int", "N", "unknown"])
    x = W.value("x", dims=static, rt=rt, dtype=ir.DataType.FLOAT)
    rule = SObj(_basic_rules.SqueezeReshape, "rule")
    fired = I.truth(I.call(I.getattr(rule, "check"), [None, x]))
    if not fired:
        ctx.cover("SqueezeReshape.check_failed")
        return
    ctx.check("C09.rules.SqueezeReshape.fires_only_for_a_known_rank_1_input", static is not None and len(static) == 1, CL09)
    if static is None or len(static) != 1:
        return
    d = rt[0]
    squeezed_count = z3.If(d == 1, z3.IntVal(1), d)          # elements after Squeeze (scalar = 1 element) = d in both cases
    ctx.check("C09.rules.SqueezeReshape.reshape_minus_one_of_the_squeezed_tensor_has_the_extent_of_x_for_every_binding", squeezed_count == d, CL09)
    r = I.call(I.getattr(rule, "rewrite"), [OpRecorder(), x])
    ctx.check("C05.rules.SqueezeReshape.replacement_is_identity_of_x", isinstance(r, Call) and r.op == "Identity" and r.args == (x,) and not r.kwargs, CL09)


SCENARIOS.append(Scenario("C09.rules.SqueezeReshape", s_squeeze_reshape,
                          [("onnxscript/rewriter/rules/common/_basic_rules.py", "SqueezeReshape.check"), ("onnxscript/rewriter/rules/common/_basic_rules.py", "SqueezeReshape.rewrite"),
                           ("onnxscript/rewriter/_ir_utils.py", "has_rank")],
                          kind="bounded", bound="rank of x <= 3 or unknown; extents unbounded", trusted=TRUST))


def s_expand_identity_anyrank(ctx):
    """ExpandIdentity for inputs of ANY rank and constant targets of ANY length: Expand(x, target) -> Identity(x) only if the target has
    the rank of x and every target entry equals the run-time extent of x there (then broadcast(x.shape, target) = x.shape); never on a
    target that is an overridable initializer."""
    import onnx_ir as ir
    from onnxscript.rewriter.rules.common import _basic_rules
    from contracts.symshape import SymShape
    from pyvc.values import SSeq
    I = Interp(ctx)
    I.quant_skolem = True
    W = World(I)
    X = SymShape(I, "x")
    i0 = ctx.int("i0")
    ctx.assume(i0 >= 0)
    ctx.witness["i0"] = i0
    tr = ctx.int("target_length")
    ctx.assume(tr >= 0)
    T = z3.Function("target_entry", z3.IntSort(), z3.IntSort())
    x = W.value("x", dims=None, rt=None, dtype=ir.DataType.FLOAT)
    x.fields["shape"] = X.obj
    overridable = ctx.choose(2, "the target initializer is also a graph input") == 1

    class Arr:
        def tolist(self_):
            return SSeq(tr, lambda i: SInt(T(z3.simplify(i))), name="target")
    Arr.tolist._pyvc_native = True
    t = SObj(ir.Tensor, "target_tensor")

    def numpy_():
        raise AssertionError
    I.models[numpy_] = lambda interp: Arr()
    t.fields.update(numpy=numpy_, dtype=ir.DataType.INT64)
    s = W.value("shape", dims=None, rt=None, dtype=ir.DataType.INT64, const=t, initializer=True, graph_input=overridable)
    rule = SObj(_basic_rules.ExpandIdentity, "rule")
    try:
        fired = I.truth(I.call(I.getattr(rule, "check"), [None, x, s]))
    except PyRaise:
        ctx.check("C04.rules.ExpandIdentity.any_rank.check_never_raises", False, CL04)
        return
    if not fired:
        ctx.cover("ExpandIdentity.any_rank.check_failed")
        return
    ctx.cover("ExpandIdentity.any_rank.fired")
    ctx.check("C05.rules.ExpandIdentity.any_rank.does_not_fire_on_an_overridable_initializer", not overridable,
              "C05: 'same outputs for all inputs' / C04: 'initializers that are also graph inputs ... are never folded into constants'")
    if overridable:
        return
    I.instantiate_forall(i0)
    p = X.rank - 1 - i0
    X.facts(p)
    CLX = CL09 + " (every rank)"
    ctx.check("C09.rules.ExpandIdentity.any_rank.fires_only_if_the_target_has_the_rank_of_the_input", tr == X.rank, CLX)
    # entry by entry: target == extent of x, so broadcast(x_i, t_i) = x_i and the broadcast is valid
    ctx.check("C09.rules.ExpandIdentity.any_rank.fires_only_if_every_target_entry_is_the_runtime_extent_for_every_binding",
              z3.Implies(i0 < X.rank, T(i0) == X.rt(p)), CLX)
    ctx.check("C05.rules.ExpandIdentity.any_rank.same_output_shape_for_every_binding", z3.And(tr == X.rank, z3.Implies(i0 < X.rank, T(i0) == X.rt(p))),
              "C05: 'the rewritten model yields the same outputs as before for all inputs (same element type, same shape, equal values)'")


SCENARIOS.append(Scenario("C09.rules.ExpandIdentity[any rank]", s_expand_identity_anyrank,
                          [("onnxscript/rewriter/rules/common/_basic_rules.py", "ExpandIdentity.check"), ("onnxscript/rewriter/rules/common/_basic_rules.py", "ExpandIdentity.rewrite")],
                          trusted=TRUST + ["ONNX Expand: output shape = broadcast(input shape, target)"],
                          assumptions=["`dims != tuple(target)` over symbolic-length sequences is used at one arbitrary (Skolem) position"]))


def s_squeeze_reshape_anyrank(ctx):
    """SqueezeReshape for an input of ANY rank: Reshape(Squeeze(x), [-1]) -> Identity(x) fires only if x is known to have rank 1."""
    import onnx_ir as ir
    from onnxscript.rewriter.rules.common import _basic_rules
    from contracts.symshape import SymShape
    I = Interp(ctx)
    W = World(I)
    known = ctx.choose(2, "the shape of x is known") == 0
    X = SymShape(I, "x")
    x = W.value("x", dims=None, rt=None, dtype=ir.DataType.FLOAT)
    x.fields["shape"] = X.obj if known else None
    rule = SObj(_basic_rules.SqueezeReshape, "rule")
    if not I.truth(I.call(I.getattr(rule, "check"), [None, x])):
        ctx.cover("SqueezeReshape.any_rank.check_failed")
        return
    ctx.cover("SqueezeReshape.any_rank.fired")
    ctx.check("C09.rules.SqueezeReshape.any_rank.fires_only_for_a_known_rank_1_input", z3.And(z3.BoolVal(known), X.rank == 1), CL09 + " (every rank)")
    r = I.call(I.getattr(rule, "rewrite"), [OpRecorder(), x])
    ctx.check("C05.rules.SqueezeReshape.any_rank.replacement_is_identity_of_x", isinstance(r, Call) and r.op == "Identity" and r.args == (x,) and not r.kwargs, CL09)


SCENARIOS.append(Scenario("C09.rules.SqueezeReshape[any rank]", s_squeeze_reshape_anyrank,
                          [("onnxscript/rewriter/rules/common/_basic_rules.py", "SqueezeReshape.check"), ("onnxscript/rewriter/_ir_utils.py", "has_rank")], trusted=TRUST))


def s_collapse_slice_anyrank(ctx):
    """_check_if_redundant_slice for data of ANY rank, ANY axis (negative or not) and starts / ends / axes / steps constants of ANY size:
    True only for constant (non-overridable) one-element operands with start 0 and step 1 whose end covers the whole (static) axis, or
    is INT64_MAX — then Slice selects the whole axis for every binding (ONNX Slice clamping)."""
    import onnx_ir as ir
    from onnxscript.rewriter.rules.common import _collapse_slices as mod
    from contracts.symshape import SymShape
    from theories import slicing as T
    I = Interp(ctx)
    W = World(I)
    shape_known = ctx.choose(2, "the shape of data is known") == 0
    X = SymShape(I, "data")
    data = W.value("data", dims=None, rt=None, dtype=ir.DataType.FLOAT)
    data.fields["shape"] = X.obj if shape_known else None
    vals = {}

    def operand(tag):
        known = ctx.choose(2, f"{tag} constant") == 0
        size, first = ctx.int(f"size_{tag}"), ctx.int(f"{tag}_0")
        ctx.assume(size >= 0)
        ctx.witness[f"{tag}_0"] = first
        ctx.witness[f"size_{tag}"] = size
        ovr = known and ctx.choose(2, f"the {tag} operand is an initializer that is also a graph input") == 1

        class Arr:
            pass
        arr = SObj(object, "array_" + tag)

        def item():
            raise AssertionError
        I.models[item] = lambda interp, first=first: SInt(first)
        arr.fields.update(size=SInt(size), item=item)
        t = SObj(ir.Tensor, "tensor_" + tag)

        def numpy_():
            raise AssertionError
        I.models[numpy_] = lambda interp, arr=arr: arr
        t.fields.update(numpy=numpy_, dtype=ir.DataType.INT64)
        vals[tag] = (known, size, first, ovr)
        return W.value(tag, dims=None, rt=None, dtype=ir.DataType.INT64, const=(t if known else None), initializer=known, graph_input=ovr)
    starts, ends, axes, steps = operand("start"), operand("end"), operand("axis"), operand("step")
    axis = vals["axis"][2]
    in_range = z3.And(axis >= -X.rank, axis < X.rank)
    try:
        fired = I.truth(I.run_closure(I.closure_of(mod._check_if_redundant_slice), [None, data, starts, ends, axes, steps], {}))
    except PyRaise:
        ctx.check("C04.rules.collapse_slice.any_rank.check_raises_only_for_an_axis_outside_the_annotated_rank", z3.And(z3.BoolVal(shape_known), z3.Not(in_range)), CL04)
        return
    if not fired:
        ctx.cover("collapse_slice.any_rank.check_failed")
        return
    ctx.cover("collapse_slice.any_rank.fired")
    CLX = CL09 + " (every rank, every axis, operands of every size)"
    ctx.check("C05.rules.collapse_slice.any_rank.fires_only_for_constant_one_element_operands",
              z3.And(*[z3.And(z3.BoolVal(vals[k][0]), vals[k][1] == 1) for k in ("start", "end", "step", "axis")]), CLX)
    ctx.check("C05.rules.collapse_slice.any_rank.does_not_fire_on_an_overridable_initializer", not any(v[3] for v in vals.values()),
              "C05 / C04: 'initializers that are also graph inputs ... are never folded into constants'")
    s, e, st = vals["start"][2], vals["end"][2], vals["step"][2]
    if shape_known:
        if not ctx.branch(in_range):
            ctx.cover("collapse_slice.any_rank: axis outside the rank (not a valid model)")
            return
        p = z3.If(axis < 0, -axis - 1, X.rank - 1 - axis)     # position from the right
        X.facts(p)
        d = X.rt(p)
    else:
        d = ctx.int("extent")
        ctx.assume(d >= 0)
    ctx.assume(d <= T.INT64_MAX)   # a tensor extent is an int64
    first, stop = T.onnx_norm(d, s, e, st)
    whole = z3.Or(d == 0, z3.And(st == 1, first == 0, stop == d))
    ctx.check("C09.rules.collapse_slice.any_rank.selects_the_whole_axis_for_every_binding", whole, CLX)
    ctx.check("C05.rules.collapse_slice.any_rank.selects_the_whole_axis_for_every_binding", whole, CLX)


SCENARIOS.append(Scenario("C09.rules.collapse_slice[any rank]", s_collapse_slice_anyrank,
                          [("onnxscript/rewriter/rules/common/_collapse_slices.py", "_check_if_redundant_slice")],
                          trusted=TRUST + ["ONNX Slice-13 clamping (theories/slicing.py)", "numpy: .size is the number of elements, .item() of a one-element array is its element"],
                          assumptions=["a tensor extent is an int64; an axis outside the annotated rank is not a valid model (no obligation)"]))
