"""C05 / C09 — the small helpers of rewriter/_ir_utils.py that rule conditions rest on, on REAL onnx_ir values and numpy arrays
(exhaustive evaluation over a finite family; the helpers are a few lines each, their callers are under contract elsewhere):

  get_singleton_value / is_singleton_value   a value counts as "the scalar c" only if it is a known constant that is NOT an overridable
                                             initializer (graph input), has exactly ONE element, satisfies the rank constraint, and its element
                                             equals c (int), is within rtol of c (float) or satisfies the predicate
  is_1d_value                                True only for a known, non-overridable 1-D INT64 constant with exactly the expected entries
  has_rank / get_dim                         static rank; dim i or rank+i for negative i, None outside [-rank, rank) or without a shape
"""
from __future__ import annotations

import itertools
import math

from pyvc.harness import Scenario

REL = "onnxscript/rewriter/_ir_utils.py"
CL = ("C05: 'each shipped rewrite rule preserves semantics wherever it fires' - the rule conditions read constants and static dims through these helpers; "
      "C04: 'initializers that are also graph inputs are never folded into constants'")


def s_ir_utils_helpers(_ctx):
    import numpy as np
    import onnx_ir as ir
    from contracts.c17_opsets import Agg
    from onnxscript.rewriter import _ir_utils as U
    agg = Agg()
    n = 0

    def value(arr, overridable=False, dtype=None):
        v = ir.Value(name="c", type=ir.TensorType(dtype or ir.DataType(ir.tensor(arr).dtype)), shape=ir.Shape(list(arr.shape)), const_value=ir.tensor(arr, name="c"))
        g = ir.Graph([v] if overridable else [], [], nodes=[], initializers=[v], opset_imports={"": 18}, name="g")
        return v, g
    arrays = [np.array(3, np.int64), np.array([3], np.int64), np.array([[3]], np.int64), np.array([3, 3], np.int64), np.array([], np.int64),
              np.array(3.0, np.float32), np.array([3.0000001], np.float32), np.array(2.5, np.float32), np.array([1, 2], np.int64), np.array([[1, 2]], np.int64),
              np.array([1, 2], np.int32), np.array([1.0, 2.0], np.float32)]
    keep = []
    for arr, ovr in itertools.product(arrays, (False, True)):
        v, g = value(arr, ovr)
        keep.append(g)
        known = not ovr
        for rank in (None, 0, 1, (0, 1)):
            n += 1
            rank_ok = rank is None or (arr.ndim == rank if isinstance(rank, int) else arr.ndim in rank)
            want = arr.item() if (known and arr.size == 1 and rank_ok) else None
            got = U.get_singleton_value(v, rank=rank)
            agg.ob("C05.ir_utils.get_singleton_value.element_of_a_known_one_element_constant_of_the_requested_rank_else_None",
                   (got is None and want is None) or (got is not None and want is not None and got == want and type(got) is type(want)),
                   f"{arr!r} overridable={ovr} rank={rank}: got {got!r}, expected {want!r}", CL)
            for expected, rtol in ((3, None), (3.0, 1e-3), (2.5, 1e-6), ((lambda s: s > 2), None)):
                if want is None:
                    exp = False
                elif callable(expected):
                    exp = bool(expected(want))
                elif isinstance(expected, int):
                    exp = want == expected
                else:
                    exp = math.isclose(want, expected, rel_tol=rtol)
                got2 = U.is_singleton_value(v, expected, rtol=rtol, rank=rank)
                agg.ob("C05.ir_utils.is_singleton_value.true_iff_the_single_element_agrees_with_the_expected_value", bool(got2) == exp,
                       f"{arr!r} overridable={ovr} rank={rank} expected={'predicate' if callable(expected) else expected!r}: got {got2!r}, expected {exp}", CL)
        for expected in ([1, 2], [3], [3, 3], []):
            n += 1
            exp = known and arr.ndim == 1 and arr.dtype == np.int64 and arr.tolist() == expected
            got3 = U.is_1d_value(v, expected)
            agg.ob("C05.ir_utils.is_1d_value.true_iff_a_known_1d_int64_constant_with_exactly_these_entries", bool(got3) == bool(exp),
                   f"{arr!r} overridable={ovr} expected={expected}: got {got3!r}, expected {exp}", CL)
    agg.ob("C05.ir_utils.helpers_accept_a_missing_value", U.get_singleton_value(None) is None and U.is_singleton_value(None, 1) is False and U.is_1d_value(None, [1]) is False
           and U.has_rank(None, 0) is False and U.get_dim(None, 0) is None, "None inputs", CL)
    # has_rank / get_dim
    N = ir.SymbolicDim("N")
    for dims in (None, [], [2], [2, N], [N, 3, 4]):
        v = ir.Value(name="x", shape=(ir.Shape(dims) if dims is not None else None), type=ir.TensorType(ir.DataType.FLOAT))
        for r in range(0, 4):
            n += 1
            agg.ob("C09.ir_utils.has_rank.true_iff_the_static_rank_is_the_given_one", U.has_rank(v, r) is (dims is not None and len(dims) == r), f"dims={dims} rank={r}", CL)
        for i in range(-4, 4):
            n += 1
            got = U.get_dim(v, i)
            if dims is None or not (-len(dims) <= i < len(dims)):
                ok = got is None
            else:
                w = dims[i]
                ok = (got == w) and (isinstance(got, int) == isinstance(w, int))
            agg.ob("C09.ir_utils.get_dim.dim_i_counting_from_the_back_for_negative_i_else_None", ok, f"dims={dims} i={i}: got {got!r}", CL)
    return {"obligations": agg.obs, "paths": n, "covered": [f"helper_cases={n}"], "notes": [], "functions": []}


SCENARIOS = [
    Scenario("C05.ir_utils.helpers", s_ir_utils_helpers,
             [(REL, "get_singleton_value"), (REL, "is_singleton_value"), (REL, "is_1d_value"), (REL, "has_rank"), (REL, "get_dim"), (REL, "get_numpy_value"), (REL, "get_const_value")],
             kind="evaluation", trusted=["numpy item() / tolist() / math.isclose as the reference"]),
]
