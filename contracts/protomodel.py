"""Abstract ModelProto / ir.Model pair for the wrapper contracts (C15, C10).

A ModelProto is a record of its top-level fields; each field holds a *token* saying where its
content comes from: ('orig', f) — the caller's content; ('ser', m, k, f) — field f of the
serialisation of IR model m in state k; ('default', f) — cleared.  Deserialising yields an IR model
stand-in; every pass call on it advances its state and is logged, so the two entry forms of a
wrapper can be compared step by step.

Assumed (listed in the evidence): onnx_ir serde is a bijection on what the transformation does not
touch (that is property C15's residual, a property of the onnx_ir package, not of /repo); protobuf
Clear/CopyFrom/`del repeated[:]`/extend semantics.
"""
from __future__ import annotations

from pyvc.values import SObj, Opaque, SInt, SBool

FIELDS = ["ir_version", "opset_import", "producer_name", "producer_version", "domain", "model_version",
          "doc_string", "graph", "metadata_props", "training_info", "functions"]
REPEATED = {"opset_import", "metadata_props", "training_info", "functions"}


class World:
    def __init__(self, interp):
        import onnx
        import onnx_ir as ir
        self.I = interp
        self.log = []  # (model stand-in, pass description)
        self.models = []
        self.protos = []
        self.onnx = onnx
        self.ir = ir
        self.install()

    # ---- protos --------------------------------------------------------------------------
    def new_proto(self, src_of):
        onnx = self.onnx
        p = SObj(onnx.ModelProto, "proto")
        p.ghost_src = {f: src_of(f) for f in FIELDS}
        self._bind_proto(p)
        self.protos.append(p)
        return p

    def _bind_proto(self, p):
        onnx = self.onnx
        w = self

        def clear():
            raise AssertionError

        def copyfrom(o):
            raise AssertionError
        self.I.models[clear] = lambda interp: w._clear(p)
        self.I.models[copyfrom] = lambda interp, other: w._copy(p, other)
        p.fields["Clear"] = clear
        p.fields["CopyFrom"] = copyfrom
        p.fields["SerializeToString"] = lambda: b""

        def lazy(interp, obj, attr):
            if attr == "graph":
                g = SObj(onnx.GraphProto, "graphproto")
                g.ghost_owner = p

                def gclear():
                    raise AssertionError

                def gcopy(o):
                    raise AssertionError
                interp.models[gclear] = lambda i2: p.ghost_src.__setitem__("graph", ("default", "graph"))
                interp.models[gcopy] = lambda i2, other: p.ghost_src.__setitem__("graph", w.graph_token(other))
                g.fields.update(Clear=gclear, CopyFrom=gcopy)
                return g
            if attr in REPEATED:
                return RepeatedView(p, attr)
            if attr in FIELDS:
                return Opaque("proto." + attr)
            from pyvc.interp import _MISSING
            return _MISSING
        p.lazy = lazy
        # lazily created views must not be cached as plain fields (they read ghost_src live): handled by RepeatedView

    def _clear(self, p):
        for f in FIELDS:
            p.ghost_src[f] = ("default", f)

    def _copy(self, p, other):
        if not isinstance(other, SObj) or not hasattr(other, "ghost_src"):
            for f in FIELDS:
                p.ghost_src[f] = ("unknown", f)
            return
        for f in FIELDS:
            # protobuf CopyFrom = Clear + MergeFrom
            p.ghost_src[f] = other.ghost_src[f]

    def graph_token(self, g):
        if isinstance(g, SObj) and hasattr(g, "ghost_graph_src"):
            return g.ghost_graph_src
        if isinstance(g, SObj) and hasattr(g, "ghost_owner"):
            return g.ghost_owner.ghost_src["graph"]
        return ("unknown", "graph")

    # ---- IR models -----------------------------------------------------------------------
    def new_ir_model(self, origin):
        ir = self.ir
        m = SObj(ir.Model, "irmodel")
        m.ghost_state = 0
        m.ghost_origin = origin
        w = self

        def lazy(interp, obj, attr):
            if attr == "graph":
                g = SObj(ir.Graph, "irgraph")
                g.ghost_model = m
                g.lazy = lambda i2, o2, a2: Opaque("irgraph." + a2)
                return g
            if attr == "functions":
                return {}
            return Opaque("irmodel." + attr)
        m.lazy = lazy
        self.models.append(m)
        return m

    def deserialize(self, interp, proto, *a, **k):
        if not (isinstance(proto, SObj) and hasattr(proto, "ghost_src")):
            return Opaque("deserialize(?)")
        m = self.new_ir_model(dict(proto.ghost_src))
        return m

    def serialize(self, interp, obj, *a, **k):
        ir = self.ir
        if isinstance(obj, SObj) and obj.pycls is ir.Model:
            st = obj.ghost_state
            return self.new_proto(lambda f: ("ser", id(obj), st, f))
        if isinstance(obj, SObj) and obj.pycls is ir.Graph and hasattr(obj, "ghost_model"):
            m = obj.ghost_model
            g = SObj(self.onnx.GraphProto, "graphproto")
            g.ghost_graph_src = ("ser", id(m), m.ghost_state, "graph")
            return g
        return Opaque("serialize(?)")

    def run_pass(self, interp, p, model, *a, **k):
        ir = self.ir
        desc = self.describe(p)
        if isinstance(model, SObj) and model.pycls is ir.Model:
            model.ghost_state += 1
            self.log.append((id(model), desc))
            r = SObj(ir.passes.PassResult, "passresult")
            r.fields.update(model=model, modified=Opaque("modified"))
            return r
        self.log.append((None, desc))
        return Opaque("passresult")

    def describe(self, p):
        ir = self.ir
        sym = lambda v: ("sym", str(v.t)) if isinstance(v, (SInt, SBool)) else v
        if isinstance(p, SObj):
            name, attrs, cls = p.pycls.__name__, dict(p.fields), p.pycls
        else:
            name, attrs, cls = type(p).__name__, vars(p), type(p)
        if issubclass(cls, (ir.passes.PassManager, ir.passes.Sequential)):
            subs = attrs.get("passes") or attrs.get("_passes") or []
            return (name, tuple(self.describe(x) for x in subs), sym(attrs.get("steps")), sym(attrs.get("early_stop")))
        cfg = {}
        for k, v in sorted(attrs.items()):
            if k.startswith("__"):
                continue
            if isinstance(v, (int, float, str, bool, type(None), tuple, frozenset)):
                cfg[k] = v
            elif isinstance(v, (SInt, SBool)):
                cfg[k] = ("sym", str(v.t))
            elif isinstance(v, ir.passes.PassBase) or (isinstance(v, SObj) and isinstance(v.pycls, type) and issubclass(v.pycls, ir.passes.PassBase)):
                cfg[k] = self.describe(v)
            else:
                cfg[k] = type(v).__name__
        return (name, tuple(sorted(cfg.items(), key=lambda kv: kv[0])))

    def install(self):
        ir = self.ir
        I = self.I
        I.models[ir.serde.deserialize_model] = self.deserialize
        I.models[ir.from_proto] = self.deserialize
        I.models[ir.serde.serialize_model] = self.serialize
        I.models[ir.to_proto] = self.serialize
        I.instance_models = [(ir.passes.PassBase, self.run_pass)]


class RepeatedView:
    """A repeated top-level field of the abstract proto (opset_import, functions, ...)."""

    def __init__(self, proto, field):
        self.proto = proto
        self.field = field

    def _set(self, tok):
        self.proto.ghost_src[self.field] = tok

    def __delitem__(self, key):
        if isinstance(key, slice) and key == slice(None, None, None):
            self._set(("default", self.field))
        else:
            self._set(("unknown", self.field))

    def clear(self):
        self._set(("default", self.field))

    def extend(self, other):
        cur = self.proto.ghost_src[self.field]
        if isinstance(other, RepeatedView) and cur == ("default", self.field):
            self._set(other.proto.ghost_src[other.field])
        else:
            self._set(("unknown", self.field))

    def CopyFrom(self, other):
        if isinstance(other, RepeatedView):
            self._set(other.proto.ghost_src[other.field])
        else:
            self._set(("unknown", self.field))

    def MergeFrom(self, other):
        self.extend(other)

    def __len__(self):
        return 1

    def __iter__(self):
        return iter([Opaque("element of " + self.field)])
