"""C11 — indexing and slicing mean what they mean in NumPy.

Converter side: the real `Converter._translate_subscript_expr` (with its nested translate_slice /
translate_slice_component / const_1d) is executed symbolically on a symbolic Subscript AST; the
emitted Slice / Squeeze / Gather nodes are decoded from the ghost emission log and compared with
NumPy's selection (theories/slicing.py) for EVERY axis size d >= 0 and EVERY integer start/stop/step.
Structure bound of the driver: index tuples of length <= 2 (values are unbounded); the
per-component obligations are independent of the tuple length (each component is translated by one
call of translate_slice, whose result only depends on that component).
"""
from __future__ import annotations

import ast

import z3

from pyvc.harness import Scenario
from pyvc.interp import Interp, PyRaise
from pyvc.values import SObj, SInt, SStr, Opaque, term, Obj
from theories import slicing as S
from . import convmodel as CM

REL = "onnxscript/_internal/converter.py"
CL = "C11: 'both the translated ONNX graph and eager evaluation return exactly NumPy's result for the same index expression ... or fail with an error; they never return a different tensor'"

RankOf = z3.Function("RankOf", Obj, z3.IntSort())  # run-time rank of a tensor-valued index
RunVal = z3.Function("RunVal", Obj, z3.IntSort())  # run-time value of a dynamic (tensor-valued) scalar expression
I64 = lambda t: z3.And(t >= S.INT64_MIN, t <= S.INT64_MAX)


def mk_expr(I, name, kind):
    """kind: 'const' (script-time int constant) | 'dyn' (tensor expression holding one integer)."""
    e = SObj(ast.Name, name)
    e.fields.update(id=name, lineno=1, col_offset=0, ghost_kind=kind)
    if kind == "const":
        v = I.ctx.int("c_" + name)
        I.ctx.assume(I64(v))
        e.fields["ghost_val"] = v
        I.ctx.witness[name] = v
        if I.ctx.ghost.get("distinct_consts") is not None:
            # driver restriction for 2-component tuples (see Scenario.assumptions): the per-call
            # constant cache only affects sharing of Constant nodes, never their values
            for w in I.ctx.ghost["distinct_consts"]:
                I.ctx.assume(v != w)
            I.ctx.ghost["distinct_consts"].append(v)
    else:
        e.fields["ghost_val"] = RunVal(e.ref)
        I.ctx.assume(I64(RunVal(e.ref)))
    return e


def m_is_constant_expr(interp, self, node):
    if isinstance(node, ast.Constant):
        return True
    if isinstance(node, SObj) and "ghost_kind" in node.fields:
        return node.fields["ghost_kind"] == "const"
    raise AssertionError(f"unexpected node {node!r}")


def m_eval_constant_expr(interp, self, node):
    if isinstance(node, ast.Constant):
        return node.value
    from pyvc.values import wrap
    return wrap(node.fields["ghost_val"])


def m_translate_expr(interp, self, node, target=None):
    import onnx_ir as ir
    v = SObj(ir.Value, "xv")
    v.fields.update(name=SStr(interp.ctx.const("vn", z3.StringSort())), ghost_expr=node, ghost_node=None)
    return v


def models():
    C = CM._conv_cls()
    m = CM.converter_models()
    m.update({C._is_constant_expr: m_is_constant_expr, C._eval_constant_expr: m_eval_constant_expr,
              C._translate_expr: m_translate_expr})
    return m


def part(I, name, allow_dyn=True, preset=None):
    """None | const int | dynamic"""
    k = preset if preset is not None else I.ctx.choose(3 if allow_dyn else 2, name)
    if k == 0:
        return None
    return mk_expr(I, name, "const" if k == 1 else "dyn")


def component(I, i, allow_dyn=True, allow_tensor_index=True, kind=None):
    pre_lo = pre_hi = None
    if isinstance(kind, tuple):
        kind, pre_lo, pre_hi = kind
    if kind is None:
        kind = I.ctx.choose(3 if allow_tensor_index else 2, f"comp{i}")
    if kind == 0:
        s = SObj(ast.Slice, f"slice{i}")
        s.fields.update(lower=part(I, f"lo{i}", allow_dyn, pre_lo), upper=part(I, f"hi{i}", allow_dyn, pre_hi),
                        step=part(I, f"st{i}", allow_dyn), lineno=1, col_offset=0)
        return s
    if kind == 1:
        return mk_expr(I, f"i{i}", "const")
    e = mk_expr(I, f"T{i}", "dyn")
    e.fields["ghost_kind"] = "tensor"
    return e


def decode_1d(v, ctx=None):
    """ir.Value stand-in -> list of items: ('val', z3 Int) for a constant / reshaped dynamic value."""
    n = v.fields.get("ghost_node")
    if n is None:
        return None
    if n["op"] == "Constant":
        pv = CM.const_of(v)
        if isinstance(pv, list):
            return [term(x) for x in pv]
        return None
    if n["op"] == "Reshape":
        src = n["inputs"][0]
        e = src.fields.get("ghost_expr")
        shape = decode_1d(n["inputs"][1], ctx)
        if e is None or shape is None or len(shape) != 1:
            return None
        if not z3.is_true(z3.simplify(shape[0] == 1)):
            if ctx is None or not ctx.check("C11.converter.subscript.dynamic_bound_reshaped_to_1d", shape[0] == 1, CL):
                return None
        return [e.fields["ghost_val"]]
    if n["op"] == "Concat":
        out = []
        for x in n["inputs"]:
            d = decode_1d(x, ctx)
            if d is None:
                return None
            out += d
        ax = [a for a in n["attrs"] if a.fields["name"] == "axis"]
        if not ax or ax[0].fields["value"] != 0:
            return None
        return out
    return None


def val_of(e):
    return None if e is None else e.fields["ghost_val"]


def check_slice_row(ctx, tag, comp, d, start, end, step):
    """One row (start, end, step) of an emitted Slice against the source component."""
    if comp.pycls is ast.Slice:
        lo, hi, st = (comp.fields[k] for k in ("lower", "upper", "step"))
        stv = val_of(st) if st is not None else z3.IntVal(1)
        ctx.check(f"C11.converter.subscript.{tag}.step_forwarded", step == stv, CL)
        # zero-size axis with a negative step: the clamping interval [0, d-1] of the Slice documentation is empty;
        # runtimes return an empty axis (checked natively, DESIGN 6.4) — excluded from the arithmetic comparison
        pre = z3.And(d >= 0, stv != 0, d <= S.INT64_MAX, z3.Or(d >= 1, stv > 0))
        np_f, np_s = S.numpy_norm(d, val_of(lo), val_of(hi), stv)
        ox_f, ox_s = S.onnx_norm(d, start, end, step)
        region = z3.And(stv < 0, val_of(lo) < -d) if lo is not None else z3.BoolVal(False)
        # known-finding carve-out (DESIGN 6.3): negative step with start < -d
        ctx.check(f"C11.converter.subscript.{tag}.same_selection_as_numpy",
                  z3.Implies(z3.And(pre, z3.Not(region)), S.same_selection(np_f, np_s, ox_f, ox_s, stv)), CL)
        if lo is not None:
            ctx.check(f"C11.converter.subscript.{tag}.same_selection_as_numpy.region_negstep_start_below_minus_d",
                      z3.Implies(z3.And(pre, region), S.same_selection(np_f, np_s, ox_f, ox_s, stv)), CL)
    else:
        i = val_of(comp)
        ox_f, ox_s = S.onnx_norm(d, start, end, step)
        one = S.count_is_one(ox_f, ox_s, step)
        ctx.check(f"C11.converter.subscript.{tag}.scalar_as_slice_selects_numpy_element_or_fails",
                  z3.Implies(z3.And(d >= 0, step == 1, one),
                             z3.And(i >= -d, i < d, ox_f == z3.If(i < 0, i + d, i))), CL)
        ctx.check(f"C11.converter.subscript.{tag}.scalar_slice_step_is_one", step == 1, CL)


def s_conv_subscript(ctx, shape=(None,)):
    I = Interp(ctx, models=models())
    self = CM.new_converter(I)
    n = len(shape)
    if n >= 2:
        ctx.ghost["distinct_consts"] = [z3.IntVal(x) for x in (0, 1, 2, S.INT64_MAX, S.INT64_MIN)]
    comps = [component(I, i, allow_dyn=(n == 1), allow_tensor_index=True, kind=shape[i]) for i in range(n)]
    node = SObj(ast.Subscript, "subscript")
    base = mk_expr(I, "A", "dyn")
    if n == 1 and ctx.choose(2, "tuple1") == 0:
        sl = comps[0]
    else:
        sl = SObj(ast.Tuple, "idx")
        sl.fields.update(elts=comps, lineno=1, col_offset=0)
    node.fields.update(value=base, slice=sl, lineno=1, col_offset=0)
    log = ctx.ghost["log"]
    C = CM._conv_cls()
    clo = I.closure_of(C._translate_subscript_expr)
    try:
        result = I.run_closure(clo, [self, node, None], {})
    except PyRaise as e:
        # refusal is always allowed ("rejected or fail with an error")
        ctx.cover("subscript.refused." + type(e.exc).__name__)
        ctx.check("C11.converter.subscript.refusal_is_an_exception", isinstance(e.exc, Exception), CL)
        return
    dims = [ctx.int(f"d{i}") for i in range(n)]
    for i, dv in enumerate(dims):
        ctx.witness[f"d{i}"] = dv
    nodes = [x for x in log.nodes if x["op"] in ("Slice", "Squeeze", "Gather", "Identity")]
    slices = [x for x in nodes if x["op"] == "Slice"]
    squeezes = [x for x in nodes if x["op"] == "Squeeze"]
    gathers = [x for x in nodes if x["op"] == "Gather"]
    kinds = ["slice" if c.pycls is ast.Slice else c.fields["ghost_kind"] for c in comps]
    full = [c.pycls is ast.Slice and all(c.fields[k] is None for k in ("lower", "upper", "step")) for c in comps]
    tag0 = "+".join("full" if f else k for k, f in zip(kinds, full))
    ctx.cover("subscript.shape." + tag0)
    ctx.check("C11.converter.subscript.at_most_one_slice_node", len(slices) <= 1, CL)
    covered_axes = set()
    squeezed = []
    if slices:
        sn = slices[0]
        ins = sn["inputs"]
        ok = len(ins) == 5
        ctx.check("C11.converter.subscript.slice_has_starts_ends_axes_steps", ok, CL)
        if not ok:
            return
        dec = [decode_1d(x, ctx) for x in ins[1:]]
        okd = all(x is not None for x in dec) and len({len(x) for x in dec}) == 1
        ctx.check("C11.converter.subscript.slice_operands_decodable_and_aligned", okd,
                  "C11: starts/ends/axes/steps are built position by position from the index components")
        if not okd:
            return
        starts, ends, axes, steps = dec
        for k in range(len(starts)):
            ax = z3.simplify(axes[k])
            oka = z3.is_int_value(ax) and 0 <= ax.as_long() < n
            ctx.check("C11.converter.subscript.slice_axis_is_a_component_axis", oka, CL)
            if not oka:
                return
            a = ax.as_long()
            ctx.check("C11.converter.subscript.each_axis_sliced_once", a not in covered_axes, CL)
            covered_axes.add(a)
            check_slice_row(ctx, kinds[a], comps[a], dims[a], starts[k], ends[k], steps[k])
            if kinds[a] == "const":
                squeezed.append(a)
        ctx.check("C11.converter.subscript.slice_input_is_the_indexed_tensor",
                  ins[0].fields.get("ghost_expr") is base, CL)
    # Squeeze: exactly the scalar axes that went through Slice
    if squeezed:
        oks = len(squeezes) == 1
        if oks:
            oks = len(squeezes[0]["inputs"]) == 2
        if oks:
            axv = CM.const_of(squeezes[0]["inputs"][1])
            oks = isinstance(axv, list) and sorted(axv) == sorted(squeezed) and \
                squeezes[0]["inputs"][0] is slices[0]["out_values"][0]
        ctx.check("C11.converter.subscript.squeeze_exactly_the_scalar_axes", oks, CL)
    else:
        ctx.check("C11.converter.subscript.no_squeeze_without_scalar_slice", len(squeezes) == 0, CL)
    # every non-full component is handled exactly once: by the Slice or by one Gather
    expected_gather = [a for a in range(n) if not full[a] and a not in covered_axes]
    ctx.check("C11.converter.subscript.one_gather_per_remaining_component", len(gathers) == len(expected_gather), CL)
    if len(gathers) != len(expected_gather):
        return
    # shift[a'] = change in the number of axes caused by the already-applied component at original axis a'
    shift = {a: z3.IntVal(-1) for a in squeezed}
    for g in gathers:
        ax = [a for a in g["attrs"] if a.fields["name"] == "axis"][0].fields["value"]
        idx = g["inputs"][1]
        src = idx.fields.get("ghost_expr")
        srcs = [a for a in expected_gather if comps[a] is src]
        okg = len(srcs) == 1
        ctx.check("C11.converter.subscript.gather_index_is_the_component_expression", okg, CL)
        if not okg:
            return
        a = srcs[0]
        # axis of the running result that corresponds to original axis a
        want = z3.IntVal(a)
        by_squeeze = any(b < a for b in squeezed)
        by_tensor = any(b < a and b not in squeezed and kinds[b] != "const" for b in shift)
        by_const_gather = any(b < a and b not in squeezed and kinds[b] == "const" for b in shift)
        for b, sh in shift.items():
            if b < a:
                want = want + sh
        nm = "C11.converter.subscript.gather_axis_is_the_original_axis"
        if by_tensor:
            nm += ".after_tensor_index_on_earlier_axis"
        elif by_const_gather:
            nm += ".after_constant_index_gathered_on_an_earlier_axis"
        elif by_squeeze:
            nm += ".after_squeezed_scalar_axes"
        ctx.check(nm, ax == want,
                  "C11: X[..., i, ..., T] indexes the ORIGINAL axis of T; after Squeeze/Gather changed the number of earlier axes the axis number shifts")
        if kinds[a] == "const":
            shift[a] = z3.IntVal(-1)
        else:
            r = RankOf(comps[a].ref)
            ctx.assume(r >= 0)
            ctx.witness[f"rank_T{a}"] = r
            shift[a] = r - 1
    if not nodes or (not slices and not gathers):
        idn = [x for x in log.nodes if x["op"] == "Identity"]
        ctx.check("C11.converter.subscript.no_index_is_identity", all(full) and len(idn) == 1, CL)
    # NumPy: an integer next to a tensor-valued index is an advanced index too; when the advanced indices are NOT adjacent
    # (a slice stands between them) the dimensions of the tensor index come FIRST in the result.  Slice/Squeeze/Gather
    # leave them in place, i.e. after every sliced axis that precedes the tensor component.
    tens = [a for a in range(n) if kinds[a] == "tensor"]
    if len(tens) == 1 and any(k in ("const", "dyn") for k in kinds):
        a = tens[0]
        adv = [b for b in range(n) if kinds[b] in ("const", "dyn", "tensor")]
        if any(kinds[b] == "slice" for b in range(min(adv), max(adv) + 1)):
            slice_before = any(kinds[b] == "slice" for b in range(a))
            r = RankOf(comps[a].ref)
            ctx.check("C11.converter.subscript.tensor_index_dims_lead_the_result_when_an_int_index_is_separated_from_it_by_a_slice",
                      z3.Implies(r >= 1, z3.BoolVal(not slice_before)), CL + " — NumPy puts the dimensions of non-adjacent advanced indices first")


F = lambda *q: [(REL, x) for x in q]
SUB = "Converter._translate_subscript_expr"

def _mk(shape):
    def run(ctx):
        return s_conv_subscript(ctx, shape)
    return run


_SHAPES = [(0,), (1,), (2,)] + [(a, b) for a in range(3) for b in range(3) if (a, b) != (0, 0)] + \
    [((0, x, y), 0) for x in range(2) for y in range(2)] + [(1, 1, 2), (0, 1, 2), (2, (0, 1, 0), 1), (2, 1, (0, 0, 1)),
                                                         (1, 2, (0, 1, 0)), ((0, 1, 0), 2, 1), (2, 1, 1), (1, (0, 0, 1), 1), (1, (0, 0, 0), 2), (1, (0, 1, 0), 2)]
_KN = {0: "slice", 1: "int", 2: "tensor", (0, 0, 0): "slice(None:None)", (0, 0, 1): "slice(None:c)",
       (0, 1, 0): "slice(c:None)", (0, 1, 1): "slice(c:c)"}

SCENARIOS = [
    Scenario("C11.converter.subscript[" + ",".join(_KN[k] for k in shp) + "]", _mk(shp),
             F(SUB, SUB + ".const_1d", SUB + ".one_1d", SUB + ".translate_slice_component", SUB + ".translate_slice",
               "Converter._emit_const", "Converter._emit1"),
             trusted=["ONNX Slice-13/Gather-13/Squeeze-13 operator documentation (theories/slicing.py); onnxruntime / onnx.reference implement it",
                      "Converter._emit contract (one node per call, outputs in order)",
                      "Converter._is_constant_expr/_eval_constant_expr: return the script-time int of a constant index expression"],
             assumptions=["index tuple length <= 2 in the driver (values unbounded: every d >= 0, every int64 start/stop/step)",
                          "2-component driver only: script-time constants assumed pairwise distinct and distinct from 0,1,2,INT64_MAX,INT64_MIN (cuts the per-call constant-cache case split; the cache only shares Constant nodes of equal value; the 1-component driver has no such restriction)",
                          "script-time integer constants and run-time index values fit in int64"],
             max_paths=6000, budget_s=900)
    for shp in _SHAPES
]




def s_normalize_subscript(_ctx):
    """ast_utils.normalize_subscript_expr: the index components of `A[...]`, in order and UNCHANGED (the very AST nodes):
    a component may not be replaced by another index form — e.g. an Ellipsis by `:`, which means something else for
    every rank but one — so that the translator sees (and can refuse) what the user wrote."""
    from contracts.c17_opsets import Agg
    from pyvc.core import Ctx
    from onnxscript._internal import ast_utils
    agg = Agg()
    n = 0
    for src in ("A[1]", "A[i]", "A[1:2]", "A[1, :]", "A[..., 0]", "A[0, ...]", "A[x, ..., ::2]", "A[...]", "A[(1, 2)]", "A[None, 0]"):
        n += 1
        node = ast.parse(src, mode="eval").body
        want = list(node.slice.elts) if isinstance(node.slice, ast.Tuple) else [node.slice]
        I = Interp(Ctx([], {"solver_s": 0.0, "queries": 0}))
        try:
            got = list(I.run_closure(I.closure_of(ast_utils.normalize_subscript_expr), [node], {}))
            ok = len(got) == len(want) and all(a is b for a, b in zip(got, want))
            detail = f"{src}: components {[ast.dump(g) for g in got]} but the subscript has {[ast.dump(w) for w in want]}"
        except Exception as e:  # noqa: BLE001
            ok, detail = False, f"{src}: {type(e).__name__}: {e}"
        agg.ob("C11.ast_utils.normalize_subscript_expr.returns_the_index_components_unchanged_and_in_order", ok, detail, CL, case=src)
    return {"obligations": agg.obs, "paths": n, "covered": [f"subscripts={n}"], "notes": [], "functions": []}


SCENARIOS.append(Scenario("C11.ast_utils.normalize_subscript_expr", s_normalize_subscript,
                          [("onnxscript/_internal/ast_utils.py", "normalize_subscript_expr")], kind="evaluation"))


def s_subscript_scopes(ctx):
    """Subscript expressions in nested scopes (C02 'every value is defined in scope before it is used'): `A[1:2]` translated inside an If branch
    / Loop body (a nested graph) and then again in the enclosing graph (or in a sibling branch): every operand of a node emitted for the
    SECOND expression is produced in the graph that node is in or in an enclosing one — never in the nested graph that was closed."""
    I = Interp(ctx, models=models())
    self = CM.new_converter(I)
    C = CM._conv_cls()
    from onnxscript._internal import irbuilder

    def fresh_fn(interp, name, *a):
        f = SObj(irbuilder.IRFunction, "nested_fn")
        f.fields.update(name=name, ghost_nodes=[], opset_imports={})
        return f
    I.models[irbuilder.IRFunction] = fresh_fn
    log = ctx.ghost["log"]

    src = ["A[1:2]", "A[0:2:1]", "A[1:, 0:1]"][ctx.choose(3, "expression")]

    def subscript(tag):
        return ast.parse(src).body[0].value      # a real ast.Subscript with literal bounds (the literals are what the constant cache is keyed by)
    where = ["nested scope first, then the enclosing scope", "nested scope first, then a sibling nested scope", "enclosing scope first, then a nested scope"][ctx.choose(3, "order")]
    outer_fn = self.fields["_current_fn"]
    outer_fn.fields.setdefault("opset_imports", {})

    def translate(tag):
        n0 = len(log.nodes)
        try:
            I.call(I.getattr(self, "_translate_subscript_expr"), [subscript(tag), None])
        except PyRaise:
            return None
        return log.nodes[n0:]

    def nested(tag):
        I.call(I.getattr(self, "_enter_scope"), ["branch_" + tag, None])
        fn = self.fields["_current_fn"]
        nodes = translate(tag)
        I.call(I.getattr(self, "_exit_scope"), [])
        return fn, nodes
    closed = []
    if where.startswith("nested scope first"):
        fn1, n1 = nested("first")
        closed.append(fn1)
        if "sibling" in where:
            fn2, n2 = nested("second")
            visible = [outer_fn, fn2]
        else:
            n2 = translate("second")
            visible = [outer_fn]
    else:
        n1 = translate("first")
        fn2, n2 = nested("second")
        visible = [outer_fn, fn2]
    if n1 is None or n2 is None:
        ctx.cover("subscript.scopes.refused")
        return
    ctx.cover("subscript.scopes." + where.split(",")[0].replace(" ", "_"))
    ok = True
    why = ""
    for e in n2:
        for v in e["inputs"]:
            prod = v.fields.get("ghost_node") if isinstance(v, SObj) else None
            if prod is not None and not any(prod.get("scope") is f for f in visible):
                ok = False
                why = f"{e['op']} reads {v.fields.get('name')!r}, produced in a graph that is not an enclosing one"
    ctx.check("C02.converter.subscript.operands_are_defined_in_the_graph_or_an_enclosing_one", ok,
              "C02: 'every value name is defined exactly once, before use and in scope' — " + where + ("; " + why if why else ""))


SCENARIOS.append(Scenario("C02.converter.subscript_scopes", s_subscript_scopes,
                          [("onnxscript/_internal/converter.py", "Converter._translate_subscript_expr"), ("onnxscript/_internal/converter.py", "Converter._enter_scope"),
                           ("onnxscript/_internal/converter.py", "Converter._exit_scope")],
                          kind="bounded", bound="the same slice expression with literal bounds (3 forms) translated in two scopes: nested then enclosing / nested then sibling / enclosing then nested"))
