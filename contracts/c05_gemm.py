"""C05 contracts for rules/common/_matmul_add_to_gemm.py (4 rules).

Theory: MatMul of two rank-2 tensors a'[M,K] b'[K,N] has shape (M, N); Add broadcasts BOTH ways (numpy); Gemm(A, B, C;
transA, transB) computes A' B' + C with C *unidirectionally* broadcastable to (M, N): rank(C) <= 2 and every dim of C,
right-aligned, is 1 or the corresponding result dim.  Transpose(perm=[1,0]) swaps the two dims.
The values agree whenever the shapes agree (both compute sum_k a'[m,k] b'[k,n] + c broadcast; alpha = beta = 1).
"""
from __future__ import annotations

import z3

from pyvc.harness import Scenario
from pyvc.interp import Interp, PyRaise
from pyvc.values import SObj
from .irmodel import World, OpRecorder, Call
from .c03_folding import choose_shape

SCENARIOS = []
FILE = "onnxscript/rewriter/rules/common/_matmul_add_to_gemm.py"
CL = "C05: 'whenever the rule applies to a model, the rewritten model yields the same outputs as before for all inputs (same element type, same shape, equal values) and is still valid'"


def s_matmul_add_to_gemm(ctx, which):
    """Add(MatMul(a', b'), c) -> Gemm(a, b, c; transA, transB).  Post: when the rule fires, for every binding of the dims
    on which the ORIGINAL executes, Gemm's operand C is unidirectionally broadcastable to (M, N) - so the Gemm is valid
    and has the shape of the Add - and transA / transB say exactly which operands the pattern transposes."""
    import onnx_ir as ir
    from onnxscript.rewriter.rules.common import _matmul_add_to_gemm as mod
    I = Interp(ctx)
    W = World(I)
    cls = getattr(mod, which)
    rule = SObj(cls, "rule")
    # the pattern, executed with a recording builder
    rec = OpRecorder()
    P = {k: ("var", k) for k in ("input_a", "input_b", "input_c")}
    root = I.call(I.getattr(rule, "pattern"), [rec, P["input_a"], P["input_b"], P["input_c"]])
    ok = isinstance(root, Call) and root.op == "Add" and len(root.args) == 2 and root.args[1] == P["input_c"] and isinstance(root.args[0], Call) and root.args[0].op == "MatMul"
    ctx.check(f"C05.rules.{which}.pattern_is_add_of_a_matmul", ok, CL)
    if not ok:
        return

    def operand(t, var):
        if t == var:
            return False, True
        if isinstance(t, Call) and t.op == "Transpose" and t.args == (var,) and list(t.kwargs.get("perm", [])) == [1, 0] and set(t.kwargs) == {"perm"}:
            return True, True
        return None, False
    ta, oka = operand(root.args[0].args[0], P["input_a"])
    tb, okb = operand(root.args[0].args[1], P["input_b"])
    ctx.check(f"C05.rules.{which}.matmul_operands_are_the_variables_or_their_2d_transposes", oka and okb, CL)
    if not (oka and okb):
        return
    def operand_shape(tag, ranks, kinds):
        r = ranks[ctx.choose(len(ranks), f"rank of {tag}")]
        if r is None:
            return None, [ctx.int(f"rt_{tag}{i}") for i in range(2)]
        st, rt = [], []
        for i in range(r):
            k = kinds[ctx.choose(len(kinds), f"{tag}[{i}]")] if r == 2 else "int"   # only rank 2 can fire: dim kinds matter there
            s_, t = W.dim(k, f"{tag}{i}")
            st.append(s_)
            rt.append(t)
        return st, rt
    astat, art = operand_shape("a", [None, 1, 2, 3], ["int", "N", "unknown"])
    bstat, brt = operand_shape("b", [1, 2], ["int", "M", "unknown"])
    # c: rank 0..3, each dim: literally 1 / the static dim object of M resp. N / an unrelated int / unknown
    a = W.value("a", dims=astat, rt=art, dtype=ir.DataType.FLOAT)
    b = W.value("b", dims=bstat, rt=brt, dtype=ir.DataType.FLOAT)
    fired_possible = astat is not None and len(astat) == 2 and len(bstat) == 2
    M_s, M_t = (astat[1], art[1]) if (fired_possible and ta) else ((astat[0], art[0]) if fired_possible else (None, None))
    N_s, N_t = (bstat[0], brt[0]) if (fired_possible and tb) else ((bstat[1], brt[1]) if fired_possible else (None, None))
    crank = ctx.choose(5, "rank of c (4 = unknown shape)")
    cs, ct = [], []
    if crank < 4:
        for i in range(crank):
            pos_from_right = crank - 1 - i
            opts = ["one", "other int", "unknown"] + (["same as result dim"] if (fired_possible and pos_from_right < 2) else [])
            k = opts[ctx.choose(len(opts), f"c[{i}]")]
            if k == "one":
                cs.append(1); ct.append(z3.IntVal(1))
            elif k == "same as result dim":
                sd, td = (N_s, N_t) if pos_from_right == 0 else (M_s, M_t)
                cs.append(sd); ct.append(td)
            else:
                s_, t = W.dim("int" if k == "other int" else "unknown", f"c{i}")
                cs.append(s_); ct.append(t)
    c = W.value("c", dims=(cs if crank < 4 else None), rt=ct, dtype=ir.DataType.FLOAT)
    if crank == 4:
        ct = [ctx.int(f"rt_c{i}") for i in range(ctx.choose(4, "runtime rank of c"))]
        for t in ct:
            ctx.assume(t >= 0)
    try:
        fired = I.truth(I.call(I.getattr(rule, "check"), [None, a, b, c]))
    except PyRaise as e:
        ctx.check(f"C04.rules.{which}.check_never_raises", False, f"C04 — raised {e.exc!r}")
        return
    ctx.check(f"C04.rules.{which}.check_never_raises", True, "C04")
    if not fired:
        ctx.cover(f"{which}.check_failed")
        return
    ctx.check(f"C05.rules.{which}.fires_only_for_rank_2_operands", fired_possible, CL)
    if not fired_possible:
        return
    r = I.call(I.getattr(rule, "rewrite"), [OpRecorder(), a, b, c])
    okr = isinstance(r, Call) and r.op == "Gemm" and r.args == (a, b, c)
    ctx.check(f"C05.rules.{which}.replacement_is_gemm_of_the_three_operands", okr, CL)
    if not okr:
        return
    kw = dict(r.kwargs)
    ctx.check(f"C05.rules.{which}.transA_transB_say_which_operands_the_pattern_transposes",
              bool(kw.get("transA", 0)) == ta and bool(kw.get("transB", 0)) == tb and set(kw) <= {"transA", "transB"}
              and all(v in (0, 1) for v in kw.values()), CL + " — alpha, beta stay at 1")
    # the original executes: inner dims agree and Add(matmul[M,N], c) broadcasts
    K1 = art[0] if ta else art[1]
    K2 = brt[1] if tb else brt[0]
    ctx.assume(K1 == K2)
    out = [M_t, N_t]
    n = max(2, len(ct))
    c2 = [z3.IntVal(1)] * (n - len(ct)) + list(ct)
    o2 = [z3.IntVal(1)] * (n - 2) + out
    ctx.assume(z3.And(*[z3.Or(p == q, p == 1, q == 1) for p, q in zip(c2, o2)]))
    uni = z3.And(z3.BoolVal(len(ct) <= 2), *[z3.Or(p == 1, p == q) for p, q in zip(c2[n - 2:], out)][: 2]) if len(ct) <= 2 else z3.BoolVal(False)
    if len(ct) <= 2:
        pairs = list(zip(([z3.IntVal(1)] * (2 - len(ct)) + list(ct)), out))
        uni = z3.And(*[z3.Or(p == 1, p == q) for p, q in pairs])
    ctx.check(f"C05.rules.{which}.the_addend_is_unidirectionally_broadcastable_to_the_matmul_result_for_every_binding", uni,
              CL + " — Add may enlarge the MatMul result, Gemm's C may not")


def _mk(which):
    def run(ctx):
        return s_matmul_add_to_gemm(ctx, which)
    run.__doc__ = s_matmul_add_to_gemm.__doc__
    return run


for _w in ("MatMulAddToGemm", "TransAMatMulAddToGemm", "TransBMatMulAddToGemm", "TransABMatMulAddToGemm"):
    SCENARIOS.append(Scenario(f"C05.rules.{_w}", _mk(_w), [(FILE, f"{_w}.pattern"), (FILE, "_MatMulAddToGemmBase.check"), (FILE, "_MatMulAddToGemmBase.rewrite"),
                                                       ("onnxscript/rewriter/_ir_utils.py", "has_rank"), ("onnxscript/rewriter/_ir_utils.py", "same_dim")],
                              kind="bounded", bound="a of rank <= 3, b of rank <= 2, c of rank <= 3 or unknown; dims static (symbolic value) / named / unknown, unbounded",
                              trusted=["ONNX MatMul / Add / Gemm / Transpose operator documentation (module docstring)"], max_paths=60000))
