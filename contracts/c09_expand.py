"""C09 / C05 — _remove_expand_before_binary_op: dropping an Expand before a broadcasting binary op keeps the output shape
(rank included) for every binding of the symbolic dims (shape theory T2: numpy broadcasting)."""
from __future__ import annotations

import z3

from pyvc.harness import Scenario
from pyvc.interp import Interp, PyRaise
from pyvc.values import SObj
from .c05_rules import setup, CL, RC, _mk

# ------------------------------------------------------------------ _remove_expand_before_binary_op ---

def _bcast(a, b):
    """numpy broadcast of two runtime shapes (lists of z3 Int): (valid, result dims) right-aligned"""
    n = max(len(a), len(b))
    a2 = [z3.IntVal(1)] * (n - len(a)) + list(a)
    b2 = [z3.IntVal(1)] * (n - len(b)) + list(b)
    valid = z3.And(*[z3.Or(p == q, p == 1, q == 1) for p, q in zip(a2, b2)]) if n else z3.BoolVal(True)
    return valid, [z3.If(p == 1, q, p) for p, q in zip(a2, b2)]


def s_expand_removable(ctx, strategy, xrank="any", yrank="any"):
    """_check_expand_removable: success ==> BinaryOp(Expand(x, e), y) and BinaryOp(x, y) have the same output shape
    (rank included) under every binding of the symbolic dims; the values then agree because both are the broadcast
    of x and y to that shape (T2)."""
    import onnx_ir as ir
    from onnxscript.rewriter.rules.common import _remove_expand_before_binary_op as mod
    from contracts.c03_folding import choose_shape
    I, W, N = setup(ctx)
    kinds = ["int", "one", "N", "M", "unknown"] if (xrank in (None, 0, 1) and yrank in (None, 0, 1)) else ["int", "one", "N", "unknown"]

    def shape_of(tag, allow_none=False, max_rank=2, fixed="any"):
        opts = ([None] if allow_none else []) + list(range(max_rank + 1))
        r = opts[ctx.choose(len(opts), f"rank of {tag}")] if fixed == "any" else fixed
        if r is None:
            return None, None
        st, rt = [], []
        for i in range(r):
            k = kinds[ctx.choose(len(kinds), f"kind of {tag}[{i}]")]
            if k == "one":
                st.append(1)
                rt.append(z3.IntVal(1))
            else:
                s, t = W.dim(k, f"{tag}{i}")
                st.append(s)
                rt.append(t)
        return st, rt
    xs, xrt = shape_of("x", allow_none=True, fixed=xrank)
    ys, yrt = shape_of("y", allow_none=True, fixed=yrank)
    x = W.value("x", dims=xs, rt=xrt, dtype=ir.DataType.FLOAT)
    y = W.value("y", dims=ys, rt=yrt, dtype=ir.DataType.FLOAT)
    # the Expand target at run time
    er = ctx.choose(3, "rank of expand target")
    ert = []
    for i in range(er):
        t = ctx.int(f"e{i}")
        ctx.assume(t >= 1 if False else t >= 0)
        ctx.witness[f"e{i}"] = t
        ert.append(t)
    from pyvc.values import SInt
    I.models[mod.get_numpy_value] = lambda interp, v: (v.fields["const_value"].arr if isinstance(v, SObj) and v.fields.get("const_value") is not None else None)
    if strategy == 1:
        shape_v = W.value("shape", dims=[er], rt=[], dtype=ir.DataType.INT64, const=W.tensor([SInt(t) for t in ert], ir.DataType.INT64))
        e_out = b_out = None
    else:
        shape_v = W.value("shape", dims=[er], rt=[], dtype=ir.DataType.INT64)
        e_out = b_out = None
    if xrt is None or yrt is None:
        r = I.call(mod._check_expand_removable, [x, shape_v, y], {"expand_output": None, "binary_op_output": None})
        ctx.check("C09.rules.expand_removable.refuses_unknown_input_shapes", not I.truth(r), "C09/C05: 'unknown shape ... does not fire'")
        return
    # runtime facts: Expand(x, e) is valid and its output shape is broadcast(x, e)
    v1, ex_rt = _bcast(xrt, ert)
    ctx.assume(v1)
    v2, with_expand = _bcast(ex_rt, yrt)
    ctx.assume(v2)  # the original model executes
    if strategy == 2:
        # the Expand output carries a (sound) annotation of its runtime shape
        st = []
        for i, t in enumerate(ex_rt):
            k = ctx.choose(3, f"annotation of expand_out[{i}]")
            if k == 0:
                v = ctx.int(f"eo{i}")
                ctx.assume(v == t)
                st.append(SInt(v))
            elif k == 1:
                nm = ["N", "M"][ctx.choose(2, f"name of expand_out[{i}]")]
                ctx.assume(Rho_(nm) == t)
                st.append(nm)
            else:
                st.append(ir.SymbolicDim(None))
        e_out = W.value("expand_out", dims=st, rt=ex_rt, dtype=ir.DataType.FLOAT)
    if strategy == 3:
        st = []
        for i, t in enumerate(with_expand):
            k = ctx.choose(3, f"annotation of out[{i}]")
            if k == 0:
                v = ctx.int(f"bo{i}")
                ctx.assume(v == t)
                st.append(SInt(v))
            elif k == 1:
                nm = ["N", "M"][ctx.choose(2, f"name of out[{i}]")]
                ctx.assume(Rho_(nm) == t)
                st.append(nm)
            else:
                st.append(ir.SymbolicDim(None))
        b_out = W.value("binary_out", dims=st, rt=with_expand, dtype=ir.DataType.FLOAT)
    try:
        r = I.call(mod._check_expand_removable, [x, shape_v, y], {"expand_output": e_out, "binary_op_output": b_out})
    except PyRaise as e:
        ctx.check(f"C04.rules.expand_removable.strategy{strategy}.never_raises", False, "C04")
        return
    if not I.truth(r):
        ctx.cover(f"expand.strategy{strategy}.refused")
        return
    ctx.cover(f"expand.strategy{strategy}.accepted")
    v3, without = _bcast(xrt, yrt)
    ctx.check(f"C09.rules.expand_removable.strategy{strategy}.binary_op_without_expand_is_valid", v3, CL)
    ctx.check(f"C09.rules.expand_removable.strategy{strategy}.same_output_rank", len(without) == len(with_expand),
              "C09: 'dropping Expand ... stays correct for every concrete input shape' — the output RANK must not change either")
    if len(without) == len(with_expand):
        ctx.check(f"C09.rules.expand_removable.strategy{strategy}.same_output_dims_for_every_binding",
                  z3.And(*[a == b for a, b in zip(without, with_expand)]) if without else z3.BoolVal(True), CL)


def Rho_(nm):
    from .irmodel import Rho
    return Rho(z3.StringVal(nm))


REB = RC + "_remove_expand_before_binary_op.py"
SCENARIOS = [
    Scenario(f"C09.rules.expand_before_binary_op.strategy{k}[x rank {xr}, y rank {yr}]", _mk(s_expand_removable, k, xr, yr),
             [(REB, "_check_expand_removable"), (REB, "_check_dims_sufficient"), (REB, "_compute_broadcast_shape"), (REB, "_compute_broadcast_dim")],
             kind="bounded", bound="ranks of x, y, expand target <= 2; dims static int / 1 / named N, M / unknown; all values unbounded",
             trusted=["numpy-style multidirectional broadcasting (ONNX Broadcasting.md); Expand output shape = broadcast(input, target)",
                      "shape annotations are sound for every accepted input"], max_paths=60000, budget_s=900)
    for k in (1, 2, 3) for xr in (None, 0, 1, 2) for yr in (None, 0, 1, 2) if not (xr is None and yr is not None and yr != 0)
]


# ------------------------------------------------------------------ _ir_utils shape helpers -------

def s_same_shape(ctx):
    """_ir_utils.same_shape / same_dim: True only if the runtime shapes (dims) are equal under EVERY binding — in particular
    two unknown dims are never 'the same' (ranks <= 2; dims static / named N, M / unknown)."""
    import onnx_ir as ir
    from onnxscript.rewriter import _ir_utils
    from .irmodel import World
    from contracts.c03_folding import choose_shape
    I = Interp(ctx)
    W = World(I)
    s1, r1 = choose_shape(ctx, W, "a")
    s2, r2 = choose_shape(ctx, W, "b")
    sh1 = W.shape(s1) if s1 is not None else None
    sh2 = W.shape(s2) if s2 is not None else None
    r = I.call(_ir_utils.same_shape, [sh1, sh2])
    if I.truth(r):
        ctx.cover("same_shape.true")
        ok = s1 is not None and s2 is not None and len(r1) == len(r2)
        ctx.check("C09.ir_utils.same_shape.true_only_for_known_shapes_of_equal_rank", ok, CL)
        if ok:
            ctx.check("C09.ir_utils.same_shape.true_only_if_runtime_dims_equal_for_every_binding",
                      z3.And(*[a == b for a, b in zip(r1, r2)]) if r1 else z3.BoolVal(True),
                      "C09: 'distinct symbols bound to equal values or equal symbols used twice' — unknown dims are never equal")
    # same_dim on the first dims
    if s1 and s2:
        d1, d2 = W.dims_of(sh1)[0], W.dims_of(sh2)[0]
        rd = I.call(_ir_utils.same_dim, [d1, d2])
        if I.truth(rd):
            ctx.check("C09.ir_utils.same_dim.true_only_if_runtime_dims_equal_for_every_binding", r1[0] == r2[0], CL)


SCENARIOS.append(Scenario("C09.ir_utils.same_shape", s_same_shape, [("onnxscript/rewriter/_ir_utils.py", "same_shape"), ("onnxscript/rewriter/_ir_utils.py", "same_dim")],
                          kind="bounded", bound="ranks <= 2; every dim kind", max_paths=20000,
                          trusted=["onnx_ir Shape.has_unknown_dim / Shape.__eq__ / SymbolicDim.__eq__ (interpreted from their real source)"]))
