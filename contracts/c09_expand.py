"""C09 / C05 — _remove_expand_before_binary_op: dropping an Expand before a broadcasting binary op keeps the output shape
(rank included) for every binding of the symbolic dims (shape theory T2: numpy broadcasting)."""
from __future__ import annotations

import z3

from pyvc.harness import Scenario
from pyvc.interp import Interp, PyRaise
from pyvc.values import SObj, SInt, SSeq
from .c05_rules import setup, CL, RC, _mk

# ------------------------------------------------------------------ _remove_expand_before_binary_op ---

def _bcast(a, b):
    """numpy broadcast of two runtime shapes (lists of z3 Int): (valid, result dims) right-aligned"""
    n = max(len(a), len(b))
    a2 = [z3.IntVal(1)] * (n - len(a)) + list(a)
    b2 = [z3.IntVal(1)] * (n - len(b)) + list(b)
    valid = z3.And(*[z3.Or(p == q, p == 1, q == 1) for p, q in zip(a2, b2)]) if n else z3.BoolVal(True)
    return valid, [z3.If(p == 1, q, p) for p, q in zip(a2, b2)]


def s_expand_removable(ctx, strategy, xrank="any", yrank="any"):
    """_check_expand_removable: success ==> BinaryOp(Expand(x, e), y) and BinaryOp(x, y) have the same output shape
    (rank included) under every binding of the symbolic dims; the values then agree because both are the broadcast
    of x and y to that shape (T2)."""
    import onnx_ir as ir
    from onnxscript.rewriter.rules.common import _remove_expand_before_binary_op as mod
    from contracts.c03_folding import choose_shape
    I, W, N = setup(ctx)
    kinds = ["int", "one", "N", "M", "unknown"] if (xrank in (None, 0, 1) and yrank in (None, 0, 1)) else ["int", "one", "N", "unknown"]

    def shape_of(tag, allow_none=False, max_rank=2, fixed="any"):
        opts = ([None] if allow_none else []) + list(range(max_rank + 1))
        r = opts[ctx.choose(len(opts), f"rank of {tag}")] if fixed == "any" else fixed
        if r is None:
            return None, None
        st, rt = [], []
        for i in range(r):
            k = kinds[ctx.choose(len(kinds), f"kind of {tag}[{i}]")]
            if k == "one":
                st.append(1)
                rt.append(z3.IntVal(1))
            else:
                s, t = W.dim(k, f"{tag}{i}")
                st.append(s)
                rt.append(t)
        return st, rt
    xs, xrt = shape_of("x", allow_none=True, fixed=xrank)
    ys, yrt = shape_of("y", allow_none=True, fixed=yrank)
    x = W.value("x", dims=xs, rt=xrt, dtype=ir.DataType.FLOAT)
    y = W.value("y", dims=ys, rt=yrt, dtype=ir.DataType.FLOAT)
    # the Expand target at run time
    er = ctx.choose(3, "rank of expand target")
    ert = []
    for i in range(er):
        t = ctx.int(f"e{i}")
        ctx.assume(t >= 1 if False else t >= 0)
        ctx.witness[f"e{i}"] = t
        ert.append(t)
    from pyvc.values import SInt
    I.models[mod.get_numpy_value] = lambda interp, v: (v.fields["const_value"].arr if isinstance(v, SObj) and v.fields.get("const_value") is not None else None)
    if strategy == 1:
        shape_v = W.value("shape", dims=[er], rt=[], dtype=ir.DataType.INT64, const=W.tensor([SInt(t) for t in ert], ir.DataType.INT64))
        e_out = b_out = None
    else:
        shape_v = W.value("shape", dims=[er], rt=[], dtype=ir.DataType.INT64)
        e_out = b_out = None
    if xrt is None or yrt is None:
        r = I.call(mod._check_expand_removable, [x, shape_v, y], {"expand_output": None, "binary_op_output": None})
        ctx.check("C09.rules.expand_removable.refuses_unknown_input_shapes", not I.truth(r), "C09/C05: 'unknown shape ... does not fire'")
        return
    # runtime facts: Expand(x, e) is valid and its output shape is broadcast(x, e)
    v1, ex_rt = _bcast(xrt, ert)
    ctx.assume(v1)
    v2, with_expand = _bcast(ex_rt, yrt)
    ctx.assume(v2)  # the original model executes
    if strategy == 2:
        # the Expand output carries a (sound) annotation of its runtime shape
        st = []
        for i, t in enumerate(ex_rt):
            k = ctx.choose(3, f"annotation of expand_out[{i}]")
            if k == 0:
                v = ctx.int(f"eo{i}")
                ctx.assume(v == t)
                st.append(SInt(v))
            elif k == 1:
                nm = ["N", "M"][ctx.choose(2, f"name of expand_out[{i}]")]
                ctx.assume(Rho_(nm) == t)
                st.append(nm)
            else:
                st.append(ir.SymbolicDim(None))
        e_out = W.value("expand_out", dims=st, rt=ex_rt, dtype=ir.DataType.FLOAT)
    if strategy == 3:
        st = []
        for i, t in enumerate(with_expand):
            k = ctx.choose(3, f"annotation of out[{i}]")
            if k == 0:
                v = ctx.int(f"bo{i}")
                ctx.assume(v == t)
                st.append(SInt(v))
            elif k == 1:
                nm = ["N", "M"][ctx.choose(2, f"name of out[{i}]")]
                ctx.assume(Rho_(nm) == t)
                st.append(nm)
            else:
                st.append(ir.SymbolicDim(None))
        b_out = W.value("binary_out", dims=st, rt=with_expand, dtype=ir.DataType.FLOAT)
    try:
        r = I.call(mod._check_expand_removable, [x, shape_v, y], {"expand_output": e_out, "binary_op_output": b_out})
    except PyRaise as e:
        ctx.check(f"C04.rules.expand_removable.strategy{strategy}.never_raises", False, "C04")
        return
    if not I.truth(r):
        ctx.cover(f"expand.strategy{strategy}.refused")
        return
    ctx.cover(f"expand.strategy{strategy}.accepted")
    v3, without = _bcast(xrt, yrt)
    ctx.check(f"C09.rules.expand_removable.strategy{strategy}.binary_op_without_expand_is_valid", v3, CL)
    ctx.check(f"C09.rules.expand_removable.strategy{strategy}.same_output_rank", len(without) == len(with_expand),
              "C09: 'dropping Expand ... stays correct for every concrete input shape' — the output RANK must not change either")
    if len(without) == len(with_expand):
        ctx.check(f"C09.rules.expand_removable.strategy{strategy}.same_output_dims_for_every_binding",
                  z3.And(*[a == b for a, b in zip(without, with_expand)]) if without else z3.BoolVal(True), CL)


def Rho_(nm):
    from .irmodel import Rho
    return Rho(z3.StringVal(nm))


REB = RC + "_remove_expand_before_binary_op.py"
SCENARIOS = [
    Scenario(f"C09.rules.expand_before_binary_op.strategy{k}[x rank {xr}, y rank {yr}]", _mk(s_expand_removable, k, xr, yr),
             [(REB, "_check_expand_removable"), (REB, "_check_dims_sufficient"), (REB, "_compute_broadcast_shape"), (REB, "_compute_broadcast_dim")],
             kind="bounded", bound="ranks of x, y, expand target <= 2; dims static int / 1 / named N, M / unknown; all values unbounded",
             trusted=["numpy-style multidirectional broadcasting (ONNX Broadcasting.md); Expand output shape = broadcast(input, target)",
                      "shape annotations are sound for every accepted input"], max_paths=60000, budget_s=900)
    # every rank is covered by the deductive [any rank] scenarios below; these small instances run the same code on REAL onnx_ir
    # Shape objects (a cross-check of the symbolic-rank stand-in) and cover the "shape unknown" refusals
    for k in (1, 2, 3) for xr, yr in ((None, None), (None, 0), (0, None), (1, None), (1, 1), (2, 1), (1, 2), (2, 2))
]


# ------------------------------------------------------------------ _ir_utils shape helpers -------

def s_same_shape(ctx):
    """_ir_utils.same_shape / same_dim: True only if the runtime shapes (dims) are equal under EVERY binding — in particular
    two unknown dims are never 'the same' (ranks <= 2; dims static / named N, M / unknown)."""
    import onnx_ir as ir
    from onnxscript.rewriter import _ir_utils
    from .irmodel import World
    from contracts.c03_folding import choose_shape
    I = Interp(ctx)
    W = World(I)
    s1, r1 = choose_shape(ctx, W, "a")
    s2, r2 = choose_shape(ctx, W, "b")
    sh1 = W.shape(s1) if s1 is not None else None
    sh2 = W.shape(s2) if s2 is not None else None
    r = I.call(_ir_utils.same_shape, [sh1, sh2])
    if I.truth(r):
        ctx.cover("same_shape.true")
        ok = s1 is not None and s2 is not None and len(r1) == len(r2)
        ctx.check("C09.ir_utils.same_shape.true_only_for_known_shapes_of_equal_rank", ok, CL)
        if ok:
            ctx.check("C09.ir_utils.same_shape.true_only_if_runtime_dims_equal_for_every_binding",
                      z3.And(*[a == b for a, b in zip(r1, r2)]) if r1 else z3.BoolVal(True),
                      "C09: 'distinct symbols bound to equal values or equal symbols used twice' — unknown dims are never equal")
    # same_dim on the first dims
    if s1 and s2:
        d1, d2 = W.dims_of(sh1)[0], W.dims_of(sh2)[0]
        rd = I.call(_ir_utils.same_dim, [d1, d2])
        if I.truth(rd):
            ctx.check("C09.ir_utils.same_dim.true_only_if_runtime_dims_equal_for_every_binding", r1[0] == r2[0], CL)


SCENARIOS.append(Scenario("C09.ir_utils.same_shape", s_same_shape, [("onnxscript/rewriter/_ir_utils.py", "same_shape"), ("onnxscript/rewriter/_ir_utils.py", "same_dim")],
                          kind="bounded", bound="ranks <= 2; every dim kind", max_paths=20000,
                          trusted=["onnx_ir Shape.has_unknown_dim / Shape.__eq__ / SymbolicDim.__eq__ (interpreted from their real source)"]))


# ------------------------------------------------------------------ the same contracts for EVERY rank (deductive) ---
# Ranks of x, y, the Expand target / output and the binary-op output are symbolic integers; dims are uninterpreted functions of
# the position (contracts/symshape.py).  The loops of the real functions are verified with inductive invariants
# (init / preserve / use).  Invariants are quantifier-free: the scenario fixes ONE arbitrary position p0 (a Skolem constant,
# counted from the right) before the call and the invariant speaks about p0 only — "once the loop has passed p0, p0 was
# checked".  Since p0 is arbitrary, the obligations proved for p0 hold for every position.

from pyvc.interp import LoopSpec
from .symshape import SymShape, bc

CLR = ("C09: 'dropping Expand ... stays correct for every concrete input shape' — for every rank, every static / named / unknown "
       "dim and every binding of the names")


def _anyrank_world(ctx):
    import onnx_ir as ir
    from onnxscript.rewriter.rules.common import _remove_expand_before_binary_op as mod
    I, W, N = setup(ctx)
    X = SymShape(I, "x")
    Y = SymShape(I, "y")
    p0 = ctx.int("p0")
    ctx.assume(p0 >= 0)
    ctx.witness["p0"] = p0
    return ir, mod, I, W, X, Y, p0


def _value_with(W, name, symshape, dtype, const=None):
    v = W.value(name, dims=None, rt=None, dtype=dtype, const=const)
    v.fields["shape"] = symshape.obj if symshape is not None else None
    return v


def _z3max(a, b):
    return z3.If(a > b, a, b)


def _int1(S, p):
    return z3.And(S.kind(p) == 0, S.ival(p) == 1)


def _post(ctx, tag, X, Y, ex_rank, xp, yp, exp_, p0):
    """the three obligations at the arbitrary position p0, given the runtime extents there"""
    v_with, with_e = bc(exp_, yp)
    v_wo, wo = bc(xp, yp)
    ctx.check(f"C09.rules.expand_removable.{tag}.any_rank.same_output_rank", _z3max(X.rank, Y.rank) == _z3max(ex_rank, Y.rank),
              "C09: the output RANK must not change either (every rank)")
    ctx.check(f"C09.rules.expand_removable.{tag}.any_rank.binary_op_without_expand_is_valid", z3.Implies(v_with, v_wo), CLR)
    ctx.check(f"C09.rules.expand_removable.{tag}.any_rank.same_output_dims_for_every_binding", z3.Implies(v_with, wo == with_e), CLR)


def s_anyrank_strategy2(ctx):
    """_check_dims_sufficient(expand_out.shape, x.shape, y.shape) for every rank (strategy 2 of _check_expand_removable)."""
    ir, mod, I, W, X, Y, p0 = _anyrank_world(ctx)
    E = SymShape(I, "e")  # the (sound) annotation of the Expand output
    # run time: Expand(x, t) has shape broadcast(x, t): rank >= rank(x); per position the extent of x is kept unless it is 1
    ctx.assume(E.rank >= X.rank)
    xp, yp, ep = X.rt_or_1(p0), Y.rt_or_1(p0), E.rt_or_1(p0)
    ctx.assume(z3.Or(xp == 1, ep == xp))

    def P(p):
        return z3.Or(_int1(E, p), z3.If(p < X.rank, X.same_static(E, p), _int1(E, p)), z3.If(p < Y.rank, Y.same_static(E, p), _int1(E, p)))

    def inv(interp, env, k, pre, it):
        return [("position_p0_was_checked", z3.Implies(z3.And(k > p0, p0 < E.rank), P(p0)))]
    I.loops[("_check_dims_sufficient", 0)] = LoopSpec({}, inv)
    x = _value_with(W, "x", X, ir.DataType.FLOAT)
    y = _value_with(W, "y", Y, ir.DataType.FLOAT)
    shape_v = W.value("shape", dims=None, rt=None, dtype=ir.DataType.INT64)
    e_out = _value_with(W, "expand_out", E, ir.DataType.FLOAT)
    I.models[mod.get_numpy_value] = lambda interp, v: None
    try:
        r = I.call(mod._check_expand_removable, [x, shape_v, y], {"expand_output": e_out, "binary_op_output": None})
    except PyRaise:
        ctx.check("C04.rules.expand_removable.strategy2.any_rank.never_raises", False, "C04")
        return
    if not I.truth(r):
        ctx.cover("expand.any_rank.strategy2.refused")
        return
    ctx.cover("expand.any_rank.strategy2.accepted")
    _post(ctx, "strategy2", X, Y, E.rank, xp, yp, ep, p0)


def s_anyrank_strategy1(ctx):
    """strategy 1 (constant Expand target of ANY length) inside _check_expand_removable, for every rank of x and y."""
    ir, mod, I, W, X, Y, p0 = _anyrank_world(ctx)
    tr = ctx.int("rank_target")
    ctx.assume(tr >= 0)
    ctx.witness["rank_target"] = tr
    T = z3.Function("target_rev", z3.IntSort(), z3.IntSort())  # the constant's entries, by position from the right
    tp = z3.If(p0 < tr, T(p0), z3.IntVal(1))
    xp, yp = X.rt_or_1(p0), Y.rt_or_1(p0)
    # run time: Expand(x, t) executes (t broadcastable with x) and yields broadcast(x, t)
    ctx.assume(z3.Or(tp == 1, xp == 1, xp == tp))
    ep = z3.If(xp == 1, tp, xp)
    ex_rank = _z3max(X.rank, tr)

    class ConstArr:
        _pyvc_claims = (_np_ndarray(),)

        def tolist(self_):
            return SSeq(tr, lambda i: SInt(T(z3.simplify(tr - 1 - i))), name="target")
    ConstArr.tolist._pyvc_native = True
    arr = ConstArr()
    I.models[mod.get_numpy_value] = lambda interp, v: (arr if isinstance(v, SObj) and v.fields.get("name") == "shape" else None)

    def P(p):
        tq = T(p)
        return z3.Or(tq == 1, z3.If(p < X.rank, z3.And(X.kind(p) == 0, X.ival(p) == tq), tq == 1),
                     z3.If(p < Y.rank, z3.And(Y.kind(p) == 0, Y.ival(p) == tq), tq == 1))

    def inv(interp, env, k, pre, it):
        return [("position_p0_was_checked", z3.Implies(z3.And(k > p0, p0 < tr), P(p0)))]
    I.loops[("_check_expand_removable", 0)] = LoopSpec({}, inv)
    x = _value_with(W, "x", X, ir.DataType.FLOAT)
    y = _value_with(W, "y", Y, ir.DataType.FLOAT)
    shape_v = W.value("shape", dims=None, rt=None, dtype=ir.DataType.INT64)
    try:
        r = I.call(mod._check_expand_removable, [x, shape_v, y], {"expand_output": None, "binary_op_output": None})
    except PyRaise:
        ctx.check("C04.rules.expand_removable.strategy1.any_rank.never_raises", False, "C04")
        return
    if not I.truth(r):
        ctx.cover("expand.any_rank.strategy1.refused")
        return
    ctx.cover("expand.any_rank.strategy1.accepted")
    _post(ctx, "strategy1", X, Y, ex_rank, xp, yp, ep, p0)


def _np_ndarray():
    import numpy
    return numpy.ndarray


SCENARIOS += [
    Scenario("C09.rules.expand_before_binary_op.strategy2[any rank]", s_anyrank_strategy2,
             [(REB, "_check_dims_sufficient"), (REB, "_check_expand_removable"), ("onnxscript/rewriter/_ir_utils.py", "same_dim")],
             trusted=["numpy-style multidirectional broadcasting (ONNX Broadcasting.md); Expand output shape = broadcast(input, target)",
                      "shape annotations are sound for every accepted input",
                      "onnx_ir Shape.rank / __getitem__ and SymbolicDim.__eq__ / value (interpreted from their real source)"],
             assumptions=["loop invariant is stated for one arbitrary (Skolem) position; termination not proved"],
             max_paths=20000, budget_s=900),
    Scenario("C09.rules.expand_before_binary_op.strategy1[any rank]", s_anyrank_strategy1,
             [(REB, "_check_expand_removable")],
             trusted=["numpy-style multidirectional broadcasting (ONNX Broadcasting.md); Expand output shape = broadcast(input, target)",
                      "shape annotations are sound for every accepted input",
                      "_ir_utils.get_numpy_value returns the constant's entries (its own contract: C05 overridable-initializer obligations)",
                      "onnx_ir Shape.rank / __getitem__ (interpreted from their real source)"],
             assumptions=["loop invariant is stated for one arbitrary (Skolem) position; termination not proved"],
             max_paths=20000, budget_s=900),
]


def _broadcast_loop_spec(I, ctx, S1, S2, p0):
    """inductive invariant of the list-building loop of _compute_broadcast_shape(shape1, shape2):
    len(result) = number of completed iterations, and — once the loop has passed the (arbitrary) position p0 from the right —
    result[that position] denotes the run-time broadcast of the two operands' extents there, which is a VALID broadcast."""
    from .symshape import built_list_desc, denotes
    rank = _z3max(S1.rank, S2.rank)
    i0 = rank - 1 - p0  # the forward index of position p0 in the result
    R = {}

    def mk(interp):
        L = ctx.int("len_result")
        ctx.assume(L >= 0)
        R["S"] = S = SymShape(interp, "result", rank=L, forward=True)
        S.seq.mutable = True
        return S.seq

    def inv(interp, env, k, pre, it):
        res = env.lookup("result")
        if not isinstance(res, SSeq):   # before the loop: the empty python list
            return [("result_has_one_entry_per_completed_iteration", k == len(res)),
                    ("entry_p0_denotes_the_valid_runtime_broadcast", z3.Not(k > i0) if isinstance(k, int) else z3.Or(z3.Not(k > i0), i0 < 0))]
        S = R["S"]
        a, b = S1.rt_or_1(p0), S2.rt_or_1(p0)
        valid, val = bc(a, b)
        return [("result_has_one_entry_per_completed_iteration", res.len == k),
                ("entry_p0_denotes_the_valid_runtime_broadcast",
                 z3.Implies(z3.And(k > i0, i0 >= 0), z3.And(valid, denotes(built_list_desc(S, res, i0), val))))]
    I.loops[("_compute_broadcast_shape", 0)] = LoopSpec({"result": mk}, inv)
    return R, i0


def s_anyrank_broadcast_shape(ctx):
    """_compute_broadcast_shape / _compute_broadcast_dim for every rank: a non-None result has max(rank1, rank2) entries and each
    entry denotes the run-time broadcast extent at its position (which is then a valid broadcast)."""
    from .symshape import built_list_desc, denotes
    ir, mod, I, W, X, Y, p0 = _anyrank_world(ctx)
    R, i0 = _broadcast_loop_spec(I, ctx, X, Y, p0)
    try:
        r = I.call(mod._compute_broadcast_shape, [X.obj, Y.obj])
    except PyRaise:
        ctx.check("C04.rules.compute_broadcast_shape.any_rank.never_raises", False, "C04")
        return
    if r is None:
        ctx.cover("broadcast_shape.any_rank.none")
        return
    ctx.cover("broadcast_shape.any_rank.list")
    rank = _z3max(X.rank, Y.rank)
    ctx.check("C09.rules.compute_broadcast_shape.any_rank.rank_is_the_larger_rank", (r.len if isinstance(r, SSeq) else len(r)) == rank, CLR)
    if isinstance(r, SSeq):
        valid, val = bc(X.rt_or_1(p0), Y.rt_or_1(p0))
        ctx.check("C09.rules.compute_broadcast_shape.any_rank.entry_denotes_the_runtime_broadcast_for_every_binding",
                  z3.Implies(p0 < rank, z3.And(valid, denotes(built_list_desc(R["S"], r, i0), val))), CLR)


def s_anyrank_strategy3(ctx):
    """strategy 3 (only the binary-op output is annotated) for every rank: broadcast(x.shape, y.shape) computed by the real
    _compute_broadcast_shape is compared entry by entry with the annotation of the binary-op output."""
    ir, mod, I, W, X, Y, p0 = _anyrank_world(ctx)
    I.quant_skolem = True
    O = SymShape(I, "out")  # (sound) annotation of the binary-op output = broadcast(broadcast(x, t), y) at run time
    tr = ctx.int("rank_target")
    ctx.assume(tr >= 0)
    T = z3.Function("target_rev", z3.IntSort(), z3.IntSort())
    tp = z3.If(p0 < tr, T(p0), z3.IntVal(1))
    xp, yp = X.rt_or_1(p0), Y.rt_or_1(p0)
    ctx.assume(z3.Or(tp == 1, xp == 1, xp == tp))          # Expand(x, t) executes
    ep = z3.If(xp == 1, tp, xp)
    ex_rank = _z3max(X.rank, tr)
    v_with, with_e = bc(ep, yp)
    ctx.assume(v_with)                                      # the original binary op executes
    ctx.assume(O.rank == _z3max(ex_rank, Y.rank))           # soundness of the output annotation: rank ...
    ctx.assume(z3.Implies(p0 < O.rank, O.rt(p0) == with_e))  # ... and extents
    O.facts(p0)
    R, i0 = _broadcast_loop_spec(I, ctx, X, Y, p0)
    x = _value_with(W, "x", X, ir.DataType.FLOAT)
    y = _value_with(W, "y", Y, ir.DataType.FLOAT)
    shape_v = W.value("shape", dims=None, rt=None, dtype=ir.DataType.INT64)
    b_out = _value_with(W, "binary_out", O, ir.DataType.FLOAT)
    I.models[mod.get_numpy_value] = lambda interp, v: None
    try:
        r = I.call(mod._check_expand_removable, [x, shape_v, y], {"expand_output": None, "binary_op_output": b_out})
    except PyRaise:
        ctx.check("C04.rules.expand_removable.strategy3.any_rank.never_raises", False, "C04")
        return
    if not I.truth(r):
        ctx.cover("expand.any_rank.strategy3.refused")
        return
    ctx.cover("expand.any_rank.strategy3.accepted")
    # all(same_dim(c, a) for c, a in zip(computed, out_shape)) held: use it at the forward index of position p0
    I.instantiate_forall(z3.simplify(_z3max(X.rank, Y.rank) - 1 - p0))
    ctx.cover("expand.any_rank.strategy3.accepted.instantiated")
    _post(ctx, "strategy3", X, Y, ex_rank, xp, yp, ep, p0)


_TR = ["numpy-style multidirectional broadcasting (ONNX Broadcasting.md); Expand output shape = broadcast(input, target)",
       "shape annotations are sound for every accepted input",
       "onnx_ir Shape.rank / __getitem__ / __iter__ and SymbolicDim.__eq__ / value (interpreted from their real source)"]
SCENARIOS += [
    Scenario("C09.rules.expand_before_binary_op.compute_broadcast_shape[any rank]", s_anyrank_broadcast_shape,
             [(REB, "_compute_broadcast_shape"), (REB, "_compute_broadcast_dim"), ("onnxscript/rewriter/_ir_utils.py", "same_dim")],
             trusted=_TR, assumptions=["loop invariant is stated for one arbitrary (Skolem) position; termination not proved"],
             max_paths=20000, budget_s=900),
    Scenario("C09.rules.expand_before_binary_op.strategy3[any rank]", s_anyrank_strategy3,
             [(REB, "_check_expand_removable"), (REB, "_compute_broadcast_shape"), (REB, "_compute_broadcast_dim"),
              ("onnxscript/rewriter/_ir_utils.py", "same_dim")],
             trusted=_TR, assumptions=["loop invariant is stated for one arbitrary (Skolem) position; termination not proved",
                                       "all(...) over a sequence of symbolic length is used at the Skolem position only (nothing else assumed)"],
             max_paths=20000, budget_s=900),
]


def s_same_shape_anyrank(ctx):
    """_ir_utils.same_shape for shapes of ANY rank: True only if both are known, have the same rank and every pair of dims is equal at run
    time under every binding — in particular no dim is unknown (two unknown dims are never 'the same')."""
    import onnx_ir as ir
    from onnxscript.rewriter import _ir_utils
    I = Interp(ctx)
    I.quant_skolem = True
    A = SymShape(I, "a")
    B = SymShape(I, "b")
    i0 = ctx.int("i0")
    ctx.assume(i0 >= 0)
    ctx.witness["i0"] = i0
    r = I.call(_ir_utils.same_shape, [A.obj, B.obj])
    if not I.truth(r):
        ctx.cover("same_shape.any_rank.false")
        return
    ctx.cover("same_shape.any_rank.true")
    I.instantiate_forall(i0)
    ctx.check("C09.ir_utils.same_shape.any_rank.true_only_for_shapes_of_equal_rank", A.rank == B.rank, CLR)
    pa, pb = A.rank - 1 - i0, B.rank - 1 - i0
    A.facts(pa)
    B.facts(pb)
    ctx.check("C09.ir_utils.same_shape.any_rank.true_only_if_no_dim_is_unknown", z3.Implies(i0 < A.rank, z3.And(A.kind(pa) != 2, B.kind(pb) != 2)),
              "C09: 'distinct symbols bound to equal values or equal symbols used twice' — unknown dims are never equal")
    ctx.check("C09.ir_utils.same_shape.any_rank.true_only_if_runtime_dims_equal_for_every_binding", z3.Implies(i0 < A.rank, A.rt(pa) == B.rt(pb)), CLR)


SCENARIOS.append(Scenario("C09.ir_utils.same_shape[any rank]", s_same_shape_anyrank, [("onnxscript/rewriter/_ir_utils.py", "same_shape")],
                          trusted=_TR, assumptions=["`None in dims` and `dims == dims` over symbolic-length sequences are used at one arbitrary (Skolem) position"]))
